"""Abstract flow document -> legacy .doc bytes (Word 97 binary): a WordDocument stream with a minimal FIB (magic, the
ccp character counts) and the text regions main | footnotes | headers | annotations stored as CP1252 at offset 0x800,
inside an OLE2 compound file (writer: mbv/c08_cfb.py).  What Word's text stream expresses is used:
paragraph mark \\r, cell / row mark \\x07, line break \\x0b, tab \\t, page break \\x0c, fields \\x13 instr \\x14 result \\x15
(hyperlinks are HYPERLINK fields).  Only what the extractor reads is written (no piece table, no formatting)."""
from __future__ import annotations

import struct

from ..docmodel import word

SUPPORTS = {"p", "r", "tab", "br", "sp", "a", "tbl", "fn", "cm", "header", "footer", "r.num"}


HEADING_WORD = {1: "Chapter", 2: "Subsection"}     # heading documents only (mbv.docsuite.heading_jobs); "h" is not in SUPPORTS


def _inl(inls, notes, comments) -> str:
    out = []
    for i in inls:
        t = i[0]
        if t == "r":
            out.append(word(i[1]))
        elif t == "tab":
            out.append("\t")
        elif t == "sp":
            out.append(" ")
        elif t == "br":
            out.append("\x0b")
        elif t == "a":       # a hyperlink is a field: begin, instruction, separator, result, end
            out.append('\x13 HYPERLINK "https://example.invalid/" \x14' + _inl(i[1], notes, comments) + "\x15")
        elif t == "fn":      # reference mark in the body (auto-numbered: 0x02), text in the footnote region
            out.append("\x02")
            notes.append(word(i[1]))
        elif t == "cm":      # annotation reference mark 0x05, text in the annotation region
            out.append("\x05")
            comments.append(word(i[1]))
        else:
            raise ValueError(t)
    return "".join(out)


def write_doc(doc: dict) -> bytes:
    from ..c08_cfb import write_cfb
    notes, comments = [], []
    main = []
    for b in doc.get("blocks", []):
        if b[0] == "p":
            main.append(_inl(b[1], notes, comments) + "\r")
        elif b[0] == "h" and b[1] in HEADING_WORD:
            # the binary text stream has no outline levels: the library recognises headings of legacy documents by their
            # wording (DocContent.iterate_units: a line starting with "Chapter" is level 1, with "Subsection" level 2)
            main.append(HEADING_WORD[b[1]] + " " + _inl(b[2], notes, comments) + "\r")
        elif b[0] == "tbl":
            for row in b[1]:
                for cell in row:
                    paras = [x for x in cell if x[0] == "p"]
                    main.append("\r".join(_inl(p[1], notes, comments) for p in paras) + "\x07")
                main.append("\x07")          # row mark
        else:
            raise ValueError(b[0])
    main_t = "".join(main)
    ftn_t = "".join("\x02 " + n + "\r" for n in notes)
    hdd = []
    if doc.get("header"):
        hdd.append(_inl(doc["header"], [], []) + "\r")
    if doc.get("footer"):
        hdd.append(_inl(doc["footer"], [], []) + "\r")
    hdd_t = "".join(hdd)
    atn_t = "".join("\x05" + c + "\r" for c in comments)
    fib = bytearray(0x800)
    struct.pack_into("<H", fib, 0, 0xA5EC)
    struct.pack_into("<H", fib, 2, 0x00C1)          # nFib
    struct.pack_into("<I", fib, 0x4C, len(main_t))
    struct.pack_into("<I", fib, 0x50, len(ftn_t))
    struct.pack_into("<I", fib, 0x54, len(hdd_t))
    struct.pack_into("<I", fib, 0x5C, len(atn_t))
    stream = bytes(fib) + (main_t + ftn_t + hdd_t + atn_t).encode("cp1252")
    stream += b"\0" * max(64, 4096 + 64 - len(stream))       # past the mini-stream cutoff, and room for the 64-byte scan
    return write_cfb({"WordDocument": stream, "1Table": b"\0" * 4096})
