"""Abstract workbook -> legacy .xls bytes: minimal BIFF8 workbook stream inside an OLE2 compound file
(compound-file writer: mbv/c08_cfb.py).  Cells as in writers/xlsx.py: None | ["s", id] | ["str", text] |
["n", number] | ["b", 0|1] | ["e", "#DIV/0!"].  Read back by xlrd in the extractor."""
from __future__ import annotations

import struct

from ..docmodel import word


def _rec(rid: int, data: bytes = b"") -> bytes:
    return struct.pack("<HH", rid, len(data)) + data


def _ustr16(s: str) -> bytes:       # 16-bit length unicode string
    try:
        b = s.encode("latin-1")
        return struct.pack("<HB", len(s), 0) + b
    except UnicodeEncodeError:
        return struct.pack("<HB", len(s), 1) + s.encode("utf-16-le")


def _ustr8(s: str) -> bytes:        # 8-bit length unicode string (sheet names)
    try:
        b = s.encode("latin-1")
        return struct.pack("<BB", len(s), 0) + b
    except UnicodeEncodeError:
        return struct.pack("<BB", len(s), 1) + s.encode("utf-16-le")


_ERR = {"#NULL!": 0x00, "#DIV/0!": 0x07, "#VALUE!": 0x0F, "#REF!": 0x17, "#NAME?": 0x1D, "#NUM!": 0x24, "#N/A": 0x2A}


def _serial(iso: str, datemode: int) -> float:
    import datetime
    dt = datetime.datetime.fromisoformat(iso)
    d = dt - datetime.datetime(1899, 12, 30)
    return d.days + d.seconds / 86400.0 - (1462 if datemode else 0)


def _sheet_stream(rows, datemode=0) -> bytes:
    out = [_rec(0x0809, struct.pack("<HHHHII", 0x0600, 0x0010, 0x0DBB, 0x07CC, 0, 6))]        # BOF worksheet
    nrows = len(rows)
    ncols = max((len(r) for r in rows), default=0)
    out.append(_rec(0x0200, struct.pack("<IIHHH", 0, nrows, 0, ncols, 0)))                      # DIMENSIONS
    for r, row in enumerate(rows):
        for c, cell in enumerate(row):
            if cell is None:
                continue
            k = cell[0]
            head = struct.pack("<HHH", r, c, 0)                                                 # row, col, xf 0
            if k == "s":
                out.append(_rec(0x0204, head + _ustr16(word(cell[1]))))                         # LABEL
            elif k == "str":
                out.append(_rec(0x0204, head + _ustr16(cell[1])))
            elif k == "n":
                out.append(_rec(0x0203, head + struct.pack("<d", float(cell[1]))))              # NUMBER
            elif k == "b":
                out.append(_rec(0x0205, head + struct.pack("<BB", int(cell[1]), 0)))            # BOOLERR (boolean)
            elif k == "e":
                out.append(_rec(0x0205, head + struct.pack("<BB", _ERR[cell[1]], 1)))           # BOOLERR (error)
            elif k in ("d", "date", "t"):      # NUMBER with a date / date-time / time cell format (XF 2 / 1 / 3)
                xf = {"d": 1, "date": 2, "t": 3}[k]
                v = (_serial(cell[1], datemode) if k == "d" else _serial(cell[1] + "T00:00:00", datemode) if k == "date"
                     else sum(int(x) * m for x, m in zip(cell[1].split(":"), (3600, 60, 1))) / 86400.0)
                out.append(_rec(0x0203, struct.pack("<HHH", r, c, xf) + struct.pack("<d", v)))
            else:
                raise ValueError(k)
    out.append(_rec(0x000A))                                                                     # EOF
    return b"".join(out)


def write_xls(book: dict) -> bytes:
    from ..c08_cfb import write_cfb
    datemode = int(book.get("datemode", 0))        # 0: 1900 date system, 1: 1904 date system (old Mac workbooks)
    sheets = [_sheet_stream(sh["rows"], datemode) for sh in book["sheets"]]
    glob_head = [_rec(0x0809, struct.pack("<HHHHII", 0x0600, 0x0005, 0x0DBB, 0x07CC, 0, 6)),    # BOF globals
                 _rec(0x0042, struct.pack("<H", 1200)),                                          # CODEPAGE utf-16
                 _rec(0x0022, struct.pack("<H", datemode)),                                      # DATEMODE
                 _rec(0x0031, struct.pack("<HHHHHBBBB", 200, 0, 0x7FFF, 400, 0, 0, 0, 0, 0) + _ustr8("Arial")),  # FONT
                 _rec(0x00E0, struct.pack("<HHHBBBBIIH", 0, 0, 0x0001, 0x20, 0, 0, 0, 0, 0, 0x20C0)),            # XF 0 General
                 _rec(0x00E0, struct.pack("<HHHBBBBIIH", 0, 22, 0x0001, 0x20, 0, 0, 0, 0, 0, 0x20C0)),           # XF 1 m/d/yy h:mm
                 _rec(0x00E0, struct.pack("<HHHBBBBIIH", 0, 14, 0x0001, 0x20, 0, 0, 0, 0, 0, 0x20C0)),           # XF 2 m/d/yy
                 _rec(0x00E0, struct.pack("<HHHBBBBIIH", 0, 21, 0x0001, 0x20, 0, 0, 0, 0, 0, 0x20C0))]           # XF 3 h:mm:ss
    bs_len = sum(4 + 6 + len(_ustr8(sh["name"])) for sh in book["sheets"])
    eof = _rec(0x000A)
    base = sum(len(x) for x in glob_head) + bs_len + len(eof)
    bounds, off = [], base
    for sh, st in zip(book["sheets"], sheets):
        bounds.append(_rec(0x0085, struct.pack("<IBB", off, 0, 0) + _ustr8(sh["name"])))        # BOUNDSHEET
        off += len(st)
    wb = b"".join(glob_head) + b"".join(bounds) + eof + b"".join(sheets)
    if len(wb) < 4096:
        wb += b"\0" * (4096 - len(wb))        # keep the stream out of the mini stream (xlrd reads both, olefile too)
    return write_cfb({"Workbook": wb})
