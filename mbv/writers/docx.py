"""Abstract flow document -> .docx bytes (hand-written WordprocessingML; zipfile only)."""
from __future__ import annotations

import io
import zipfile
from xml.sax.saxutils import escape

from ..docmodel import word

W = "http://schemas.openxmlformats.org/wordprocessingml/2006/main"
NS = (f'xmlns:w="{W}" xmlns:r="http://schemas.openxmlformats.org/officeDocument/2006/relationships" '
      'xmlns:mc="http://schemas.openxmlformats.org/markup-compatibility/2006" '
      'xmlns:wp="http://schemas.openxmlformats.org/drawingml/2006/wordprocessingDrawing" '
      'xmlns:a="http://schemas.openxmlformats.org/drawingml/2006/main" '
      'xmlns:pic="http://schemas.openxmlformats.org/drawingml/2006/picture" '
      'xmlns:wps="http://schemas.microsoft.com/office/word/2010/wordprocessingShape" '
      'xmlns:v="urn:schemas-microsoft-com:vml" '
      'xmlns:m="http://schemas.openxmlformats.org/officeDocument/2006/math"')

SUPPORTS = {"itbx", "r.acc", "r.num", "p", "h", "ul", "ul.nested", "tbl", "tbl.nested", "tbl.nested.wide", "cell.multi", "sdt", "tbx", "r", "tab", "br", "sp",
            "a", "ins", "del", "isdt", "fn", "cm", "header", "footer"}


class _Ctx:
    def __init__(self):
        self.rels = []          # (id, type, target, mode)
        self.notes = []         # (note id, token id)
        self.comments = []      # (comment id, token id)
        self.media = {}         # part name -> bytes
        self.nid = 1

    def rel(self, typ, target, mode=None):
        rid = f"rId{len(self.rels) + 10}"
        self.rels.append((rid, typ, target, mode))
        return rid


def _run(text, deleted=False):
    tag = "w:delText" if deleted else "w:t"
    return f'<w:r><{tag} xml:space="preserve">{escape(text)}</{tag}></w:r>'


def _inlines(inls, c: _Ctx, deleted=False) -> str:
    out = []
    for i in inls:
        t = i[0]
        if t == "r":
            w_ = word(i[1])
            if i[1] % 3 == 0:        # one word split over two runs: runs must be concatenated without separator
                out.append(_run(w_[:4], deleted) + _run(w_[4:], deleted))
            else:
                out.append(_run(w_, deleted))
        elif t == "tab":
            out.append("<w:r><w:tab/></w:r>")
        elif t == "sp":          # a run that holds nothing but a blank
            out.append(_run(" ", deleted))
        elif t == "br":
            out.append("<w:r><w:br/></w:r>")
        elif t == "a":
            rid = c.rel("http://schemas.openxmlformats.org/officeDocument/2006/relationships/hyperlink",
                        "https://example.invalid/x", "External")
            out.append(f'<w:hyperlink r:id="{rid}">{_inlines(i[1], c, deleted)}</w:hyperlink>')
        elif t == "ins":
            out.append(f'<w:ins w:id="{c.nid}" w:author="a" w:date="2024-01-01T00:00:00Z">'
                       f'{_inlines(i[1], c, deleted)}</w:ins>')
            c.nid += 1
        elif t == "del":
            out.append(f'<w:del w:id="{c.nid}" w:author="a" w:date="2024-01-01T00:00:00Z">'
                       f'{_inlines(i[1], c, True)}</w:del>')
            c.nid += 1
        elif t == "itbx":       # a text box anchored in a run of this paragraph (more runs may follow)
            inner = _blocks(i[1], c)
            out.append(
                '<w:r><mc:AlternateContent><mc:Choice Requires="wps"><w:drawing><wp:anchor>'
                '<a:graphic><a:graphicData uri="http://schemas.microsoft.com/office/word/2010/wordprocessingShape">'
                f'<wps:wsp><wps:txbx><w:txbxContent>{inner}</w:txbxContent></wps:txbx></wps:wsp>'
                '</a:graphicData></a:graphic></wp:anchor></w:drawing></mc:Choice>'
                f'<mc:Fallback><w:pict><v:shape><v:textbox><w:txbxContent>{inner}</w:txbxContent></v:textbox>'
                '</v:shape></w:pict></mc:Fallback></mc:AlternateContent></w:r>')
        elif t == "isdt":
            out.append(f'<w:sdt><w:sdtPr><w:alias w:val="ctl"/></w:sdtPr><w:sdtContent>'
                       f'{_inlines(i[1], c, deleted)}</w:sdtContent></w:sdt>')
        elif t == "fn":
            n = len(c.notes) + 2
            c.notes.append((n, i[1]))
            out.append(f'<w:r><w:footnoteReference w:id="{n}"/></w:r>')
        elif t == "cm":
            n = len(c.comments) + 1
            c.comments.append((n, i[1]))
            out.append(f'<w:commentRangeStart w:id="{n}"/><w:commentRangeEnd w:id="{n}"/>'
                       f'<w:r><w:commentReference w:id="{n}"/></w:r>')
        else:
            raise ValueError(t)
    return "".join(out)


def _para(inls, c, style=None, numlevel=None):
    ppr = ""
    if style:
        ppr += f'<w:pStyle w:val="{style}"/>'
    if numlevel is not None:
        ppr += f'<w:numPr><w:ilvl w:val="{numlevel}"/><w:numId w:val="1"/></w:numPr>'
    if ppr:
        ppr = f"<w:pPr>{ppr}</w:pPr>"
    return f"<w:p>{ppr}{_inlines(inls, c)}</w:p>"


def _blocks(blocks, c: _Ctx, listlevel=None, in_cell=False) -> str:
    out = []
    for b in blocks:
        t = b[0]
        if t == "p":
            style = b[2]["style"] if len(b) > 2 and isinstance(b[2], dict) and b[2].get("style") else None
            out.append(_para(b[1], c, style=style or ("ListParagraph" if listlevel is not None else None),
                             numlevel=listlevel))
        elif t == "h":
            out.append(_para(b[2], c, style=f"Heading{b[1]}"))
        elif t == "ul":
            lvl = 0 if listlevel is None else listlevel + 1
            for item in b[1]:
                out.append(_blocks(item, c, listlevel=lvl))
        elif t == "tbl":
            rows = []
            ncols = max(len(r) for r in b[1])
            # in every second table shape an empty cell right of a non-empty one is the covered part of a horizontal merge:
            # WordprocessingML writes ONE w:tc with w:gridSpan for both grid positions
            merge = ncols >= 3 or (len(b[1]) + ncols) % 2 == 0
            for row in b[1]:
                cells = []
                for j, cell in enumerate(row):
                    if merge and 0 < j and not cell and row[j - 1]:
                        continue
                    span = '<w:gridSpan w:val="2"/>' if merge and cell and j + 1 < len(row) and not row[j + 1] else ""
                    inner = _blocks(cell, c, in_cell=True)
                    if not inner.endswith("</w:p>"):
                        inner += "<w:p/>"       # a cell must end with a paragraph
                    tc = f'<w:tc><w:tcPr><w:tcW w:w="{4000 if span else 2000}" w:type="dxa"/>{span}</w:tcPr>{inner}</w:tc>'
                    if ncols == 2 and j == 1 and len(b[1]) == 2 and not in_cell:
                        # a cell bound to a content control: w:sdt around the w:tc -- a cell of the row all the same
                        tc = f"<w:sdt><w:sdtPr/><w:sdtContent>{tc}</w:sdtContent></w:sdt>"
                    cells.append(tc)
                tr = "<w:tr>" + "".join(cells) + "</w:tr>"
                if len(b[1]) >= 2 and row is b[1][-1] and ncols != 2 and not in_cell:
                    # the last row is a repeating-section item: w:sdt around the w:tr -- a row of the table all the same
                    tr = f"<w:sdt><w:sdtPr/><w:sdtContent>{tr}</w:sdtContent></w:sdt>"
                rows.append(tr)
            grid = "".join('<w:gridCol w:w="2000"/>' for _ in range(ncols))
            out.append(f'<w:tbl><w:tblPr><w:tblW w:w="0" w:type="auto"/></w:tblPr><w:tblGrid>{grid}</w:tblGrid>'
                       + "".join(rows) + "</w:tbl>")
        elif t == "sdt":
            out.append(f'<w:sdt><w:sdtPr><w:alias w:val="blk"/></w:sdtPr><w:sdtContent>'
                       f'{_blocks(b[1], c, listlevel, in_cell)}</w:sdtContent></w:sdt>')
        elif t == "tbx":
            inner = _blocks(b[1], c)
            out.append(
                '<w:p><w:r><mc:AlternateContent><mc:Choice Requires="wps"><w:drawing><wp:anchor>'
                '<a:graphic><a:graphicData uri="http://schemas.microsoft.com/office/word/2010/wordprocessingShape">'
                f'<wps:wsp><wps:txbx><w:txbxContent>{inner}</w:txbxContent></wps:txbx></wps:wsp>'
                '</a:graphicData></a:graphic></wp:anchor></w:drawing></mc:Choice>'
                f'<mc:Fallback><w:pict><v:shape><v:textbox><w:txbxContent>{inner}</w:txbxContent></v:textbox>'
                '</v:shape></w:pict></mc:Fallback></mc:AlternateContent></w:r></w:p>')
        else:
            raise ValueError(t)
    return "".join(out)


def _core(props) -> str:
    def el(tag, key):
        v = props.get(key)
        return f"<{tag}>{escape(v)}</{tag}>" if v is not None else ""
    return ('<?xml version="1.0" encoding="UTF-8" standalone="yes"?>'
            '<cp:coreProperties xmlns:cp="http://schemas.openxmlformats.org/package/2006/metadata/core-properties" '
            'xmlns:dc="http://purl.org/dc/elements/1.1/" xmlns:dcterms="http://purl.org/dc/terms/" '
            'xmlns:xsi="http://www.w3.org/2001/XMLSchema-instance">'
            + el("dc:title", "title") + el("dc:creator", "author") + el("dc:subject", "subject")
            + el("cp:keywords", "keywords") + el("dc:description", "description")
            + el("cp:lastModifiedBy", "last_modified_by")
            + "".join(f'<dcterms:{t} xsi:type="dcterms:W3CDTF">{escape(props[t])}</dcterms:{t}>'
                      for t in ("created", "modified") if props.get(t) is not None)
            + "</cp:coreProperties>")


def write_docx(doc: dict, images=None) -> bytes:
    """images: optional list of (part_name_under_word, bytes, rel_target) placed one per paragraph
    at the end of the body."""
    c = _Ctx()
    body = _blocks(doc.get("blocks", []), c)
    for k, (target, data, part) in enumerate(images or []):
        rid = c.rel("http://schemas.openxmlformats.org/officeDocument/2006/relationships/image", target)
        if data is not None:
            c.media[part] = data
        body += (f'<w:p><w:r><w:drawing><wp:inline><wp:extent cx="100" cy="100"/><wp:docPr id="{k+1}" name="Picture {k+1}"/>'
                 '<a:graphic><a:graphicData uri="http://schemas.openxmlformats.org/drawingml/2006/picture">'
                 f'<pic:pic><pic:nvPicPr><pic:cNvPr id="{k+1}" name="img{k+1}"/><pic:cNvPicPr/></pic:nvPicPr>'
                 f'<pic:blipFill><a:blip r:embed="{rid}"/></pic:blipFill><pic:spPr/></pic:pic>'
                 '</a:graphicData></a:graphic></wp:inline></w:drawing></w:r></w:p>')
    sect = ""
    parts = {}
    if doc.get("header"):
        rid = c.rel("http://schemas.openxmlformats.org/officeDocument/2006/relationships/header", "header1.xml")
        parts["word/header1.xml"] = f'<?xml version="1.0"?><w:hdr {NS}>{_para(doc["header"], c)}</w:hdr>'
        sect += f'<w:headerReference w:type="default" r:id="{rid}"/>'
    if doc.get("footer"):
        rid = c.rel("http://schemas.openxmlformats.org/officeDocument/2006/relationships/footer", "footer1.xml")
        parts["word/footer1.xml"] = f'<?xml version="1.0"?><w:ftr {NS}>{_para(doc["footer"], c)}</w:ftr>'
        sect += f'<w:footerReference w:type="default" r:id="{rid}"/>'
    document = (f'<?xml version="1.0" encoding="UTF-8" standalone="yes"?><w:document {NS}><w:body>{body}'
                f'<w:sectPr>{sect}<w:pgSz w:w="12240" w:h="15840"/></w:sectPr></w:body></w:document>')
    styles = (f'<?xml version="1.0"?><w:styles {NS}>'
              + "".join(f'<w:style w:type="paragraph" w:styleId="Heading{k}"><w:name w:val="heading {k}"/>'
                        f'<w:pPr><w:outlineLvl w:val="{k-1}"/></w:pPr></w:style>' for k in (1, 2, 3))
              + '<w:style w:type="paragraph" w:styleId="ListParagraph"><w:name w:val="List Paragraph"/></w:style>'
              + "</w:styles>")
    if c.notes:
        rid = c.rel("http://schemas.openxmlformats.org/officeDocument/2006/relationships/footnotes", "footnotes.xml")
        parts["word/footnotes.xml"] = (
            f'<?xml version="1.0"?><w:footnotes {NS}>'
            '<w:footnote w:type="separator" w:id="0"><w:p/></w:footnote>'
            '<w:footnote w:type="continuationSeparator" w:id="1"><w:p/></w:footnote>'
            + "".join(f'<w:footnote w:id="{n}"><w:p>{_run(word(t))}</w:p></w:footnote>' for n, t in c.notes)
            + "</w:footnotes>")
    if c.comments:
        rid = c.rel("http://schemas.openxmlformats.org/officeDocument/2006/relationships/comments", "comments.xml")
        parts["word/comments.xml"] = (
            f'<?xml version="1.0"?><w:comments {NS}>'
            + "".join(f'<w:comment w:id="{n}" w:author="rev" w:date="2024-01-01T00:00:00Z"><w:p>{_run(word(t))}</w:p>'
                      '</w:comment>' for n, t in c.comments)
            + "</w:comments>")
    c.rel("http://schemas.openxmlformats.org/officeDocument/2006/relationships/styles", "styles.xml")
    rels = ('<?xml version="1.0"?><Relationships xmlns="http://schemas.openxmlformats.org/package/2006/relationships">'
            + "".join(f'<Relationship Id="{i}" Type="{t}" Target="{escape(tg)}"'
                      + (f' TargetMode="{m}"' if m else "") + "/>" for i, t, tg, m in c.rels)
            + "</Relationships>")
    ct = ('<?xml version="1.0"?><Types xmlns="http://schemas.openxmlformats.org/package/2006/content-types">'
          '<Default Extension="rels" ContentType="application/vnd.openxmlformats-package.relationships+xml"/>'
          '<Default Extension="xml" ContentType="application/xml"/>'
          '<Default Extension="png" ContentType="image/png"/><Default Extension="jpeg" ContentType="image/jpeg"/>'
          '<Default Extension="jpg" ContentType="image/jpeg"/><Default Extension="gif" ContentType="image/gif"/>'
          '<Default Extension="bmp" ContentType="image/bmp"/>'
          '<Override PartName="/word/document.xml" ContentType="application/vnd.openxmlformats-officedocument.'
          'wordprocessingml.document.main+xml"/></Types>')
    top = ('<?xml version="1.0"?><Relationships xmlns="http://schemas.openxmlformats.org/package/2006/relationships">'
           '<Relationship Id="rId1" Type="http://schemas.openxmlformats.org/officeDocument/2006/relationships/officeDocument" '
           'Target="word/document.xml"/>'
           '<Relationship Id="rId2" Type="http://schemas.openxmlformats.org/package/2006/relationships/metadata/core-properties" '
           'Target="docProps/core.xml"/></Relationships>')
    buf = io.BytesIO()
    with zipfile.ZipFile(buf, "w", zipfile.ZIP_DEFLATED) as z:
        z.writestr("[Content_Types].xml", ct)
        z.writestr("_rels/.rels", top)
        z.writestr("word/document.xml", document)
        z.writestr("word/_rels/document.xml.rels", rels)
        z.writestr("word/styles.xml", styles)
        z.writestr("docProps/core.xml", _core(doc.get("props") or {}))
        for name, data in parts.items():
            z.writestr(name, data)
        for name, data in c.media.items():
            z.writestr(name, data)
    return buf.getvalue()
