"""Abstract workbook -> .xlsx bytes (hand-written SpreadsheetML, read by openpyxl in the extractor).

book = {"kind": "book", "sheets": [{"name": str, "rows": [[cell ..] ..], "images": [img..]} ..], "props": {}}
cell = None | ["s", id] (token string) | ["str", "literal"] | ["n", number] | ["b", 0|1]
     | ["d", "YYYY-MM-DDTHH:MM:SS"] | ["date", "YYYY-MM-DD"] | ["t", "HH:MM:SS"] | ["dur", hours]
     | ["e", "#DIV/0!"] | ["f", "A1+1", cached number]
"""
from __future__ import annotations

import datetime
import io
import zipfile
from xml.sax.saxutils import escape

from ..docmodel import word

REL = "http://schemas.openxmlformats.org/officeDocument/2006/relationships"
MAIN = "http://schemas.openxmlformats.org/spreadsheetml/2006/main"


def _col(n):
    s = ""
    n += 1
    while n:
        n, r = divmod(n - 1, 26)
        s = chr(65 + r) + s
    return s


def _serial(dt: datetime.datetime) -> float:
    d = dt - datetime.datetime(1899, 12, 30)
    return d.days + d.seconds / 86400.0


def _cell(ref, c):
    if c is None:
        return ""
    k = c[0]
    if k == "s":
        return f'<c r="{ref}" t="inlineStr"><is><t>{escape(word(c[1]))}</t></is></c>'
    if k == "str":
        return f'<c r="{ref}" t="inlineStr"><is><t xml:space="preserve">{escape(c[1])}</t></is></c>'
    if k == "n":
        return f'<c r="{ref}"><v>{c[1]!r}</v></c>'
    if k == "b":
        return f'<c r="{ref}" t="b"><v>{int(c[1])}</v></c>'
    if k == "d":
        return f'<c r="{ref}" s="1"><v>{_serial(datetime.datetime.fromisoformat(c[1]))!r}</v></c>'
    if k == "date":
        return f'<c r="{ref}" s="2"><v>{int(_serial(datetime.datetime.fromisoformat(c[1] + "T00:00:00")))}</v></c>'
    if k == "t":
        h, m, s = (int(x) for x in c[1].split(":"))
        return f'<c r="{ref}" s="3"><v>{(h * 3600 + m * 60 + s) / 86400.0!r}</v></c>'
    if k == "dur":
        return f'<c r="{ref}" s="4"><v>{c[1] / 24.0!r}</v></c>'
    if k == "e":
        return f'<c r="{ref}" t="e"><v>{escape(c[1])}</v></c>'
    if k == "f":
        return f'<c r="{ref}"><f>{escape(c[1])}</f><v>{c[2]!r}</v></c>'
    raise ValueError(k)


def _rels(items):
    return ('<?xml version="1.0"?><Relationships xmlns="http://schemas.openxmlformats.org/package/2006/relationships">'
            + "".join(f'<Relationship Id="{i}" Type="{t}" Target="{escape(tg)}"' + (' TargetMode="External"' if ext else "")
                      + "/>" for i, t, tg, ext in items) + "</Relationships>")


def write_xlsx(book: dict) -> bytes:
    from .docx import _core
    files = {}
    wrels = []
    sheets_xml = ""
    overrides = ""
    nsheets = len(book["sheets"])
    for logical, sh in enumerate(book["sheets"], start=1):
        # sheet FILES are numbered in reverse: workbook.xml + relationships define the order
        n = nsheets - logical + 1
        rid = f"rId{logical}"
        wrels.append((rid, f"{REL}/worksheet", f"worksheets/sheet{n}.xml", False))
        # every second sheet (never the first) is hidden: a hidden sheet is still a sheet of the workbook
        state = ' state="hidden"' if logical % 2 == 0 else ""
        sheets_xml += f'<sheet name="{escape(sh["name"], {chr(34): "&quot;"})}" sheetId="{logical}"{state} r:id="{rid}"/>'
        overrides += (f'<Override PartName="/xl/worksheets/sheet{n}.xml" ContentType="application/vnd.openxmlformats-'
                      'officedocument.spreadsheetml.worksheet+xml"/>')
        rows = ""
        for ri, row in enumerate(sh["rows"], start=1):
            cells = "".join(_cell(f"{_col(ci)}{ri}", c) for ci, c in enumerate(row))
            if cells:
                rows += f'<row r="{ri}">{cells}</row>'
        drawing = ""
        imgs = sh.get("images") or []
        if imgs:
            drawing = '<drawing r:id="rIdD"/>'
            files[f"xl/worksheets/_rels/sheet{n}.xml.rels"] = _rels(
                [("rIdD", f"{REL}/drawing", f"../drawings/drawing{n}.xml", False)])
            drels, anchors = [], ""
            for m, img in enumerate(imgs, start=1):
                irid = f"rIdI{m}"
                drels.append((irid, f"{REL}/image", img["target"], bool(img.get("external"))))
                if img.get("part") and img.get("data") is not None:
                    files[img["part"]] = img["data"]
                anchors += ('<xdr:oneCellAnchor><xdr:from><xdr:col>1</xdr:col><xdr:colOff>0</xdr:colOff>'
                            f'<xdr:row>{m}</xdr:row><xdr:rowOff>0</xdr:rowOff></xdr:from><xdr:ext cx="100" cy="100"/>'
                            f'<xdr:pic><xdr:nvPicPr><xdr:cNvPr id="{m}" name="Picture {m}"/><xdr:cNvPicPr/></xdr:nvPicPr>'
                            f'<xdr:blipFill><a:blip r:embed="{irid}"/></xdr:blipFill><xdr:spPr/></xdr:pic>'
                            '<xdr:clientData/></xdr:oneCellAnchor>')
            files[f"xl/drawings/drawing{n}.xml"] = (
                '<?xml version="1.0"?><xdr:wsDr xmlns:xdr="http://schemas.openxmlformats.org/drawingml/2006/'
                'spreadsheetDrawing" xmlns:a="http://schemas.openxmlformats.org/drawingml/2006/main" '
                f'xmlns:r="{REL}">{anchors}</xdr:wsDr>')
            files[f"xl/drawings/_rels/drawing{n}.xml.rels"] = _rels(drels)
            overrides += (f'<Override PartName="/xl/drawings/drawing{n}.xml" ContentType="application/vnd.openxmlformats-'
                          'officedocument.drawing+xml"/>')
        files[f"xl/worksheets/sheet{n}.xml"] = (f'<?xml version="1.0"?><worksheet xmlns="{MAIN}" xmlns:r="{REL}">'
                                                f"<sheetData>{rows}</sheetData>{drawing}</worksheet>")
    wrels.append(("rIdS", f"{REL}/styles", "styles.xml", False))
    files["xl/workbook.xml"] = (f'<?xml version="1.0"?><workbook xmlns="{MAIN}" xmlns:r="{REL}"><sheets>{sheets_xml}'
                                "</sheets></workbook>")
    files["xl/_rels/workbook.xml.rels"] = _rels(wrels)
    files["xl/styles.xml"] = (
        f'<?xml version="1.0"?><styleSheet xmlns="{MAIN}"><numFmts count="2">'
        '<numFmt numFmtId="164" formatCode="yyyy\\-mm\\-dd\\ hh:mm:ss"/><numFmt numFmtId="165" formatCode="[h]:mm:ss"/>'
        '</numFmts><fonts count="1"><font><sz val="11"/><name val="Calibri"/></font></fonts>'
        '<fills count="1"><fill><patternFill patternType="none"/></fill></fills>'
        '<borders count="1"><border/></borders><cellStyleXfs count="1"><xf numFmtId="0" fontId="0" fillId="0" borderId="0"/>'
        '</cellStyleXfs><cellXfs count="5"><xf numFmtId="0" fontId="0" fillId="0" borderId="0" xfId="0"/>'
        '<xf numFmtId="164" fontId="0" fillId="0" borderId="0" xfId="0" applyNumberFormat="1"/>'
        '<xf numFmtId="14" fontId="0" fillId="0" borderId="0" xfId="0" applyNumberFormat="1"/>'
        '<xf numFmtId="21" fontId="0" fillId="0" borderId="0" xfId="0" applyNumberFormat="1"/>'
        '<xf numFmtId="165" fontId="0" fillId="0" borderId="0" xfId="0" applyNumberFormat="1"/>'
        "</cellXfs></styleSheet>")
    files["docProps/core.xml"] = _core(book.get("props") or {})
    files["_rels/.rels"] = _rels([("rId1", f"{REL}/officeDocument", "xl/workbook.xml", False),
                                  ("rId2", "http://schemas.openxmlformats.org/package/2006/relationships/metadata/"
                                           "core-properties", "docProps/core.xml", False)])
    files["[Content_Types].xml"] = (
        '<?xml version="1.0"?><Types xmlns="http://schemas.openxmlformats.org/package/2006/content-types">'
        '<Default Extension="rels" ContentType="application/vnd.openxmlformats-package.relationships+xml"/>'
        '<Default Extension="xml" ContentType="application/xml"/><Default Extension="png" ContentType="image/png"/>'
        '<Default Extension="jpeg" ContentType="image/jpeg"/><Default Extension="gif" ContentType="image/gif"/>'
        '<Override PartName="/xl/workbook.xml" ContentType="application/vnd.openxmlformats-officedocument.'
        'spreadsheetml.sheet.main+xml"/>'
        '<Override PartName="/xl/styles.xml" ContentType="application/vnd.openxmlformats-officedocument.'
        'spreadsheetml.styles+xml"/>'
        '<Override PartName="/docProps/core.xml" ContentType="application/vnd.openxmlformats-package.core-properties+xml"/>'
        + overrides + "</Types>")
    buf = io.BytesIO()
    with zipfile.ZipFile(buf, "w", zipfile.ZIP_DEFLATED) as z:
        for name in ["[Content_Types].xml", "_rels/.rels"] + sorted(k for k in files if k not in ("[Content_Types].xml", "_rels/.rels")):
            z.writestr(name, files[name])
    return buf.getvalue()
