"""Abstract deck -> .pptx bytes (hand-written PresentationML).

deck = {"kind": "deck", "slides": [ {"shapes": [S..], "notes": [I..], "images": [img..]} ..],
        "props": {...}}
  S = ["title", [I..]] | ["body", [[I..] ..]] (placeholder, one entry per paragraph)
    | ["text", [[I..] ..]] (free text box) | ["tbl", [[ [[I..]..] ..] ..]] rows -> cells -> paragraphs
  I = ["r", id] | ["br"] | ["a", [I..]]            (what DrawingML text can express)
  img = {"target": rel target, "part": zip name or None, "data": bytes or None, "external": bool}
Shapes get increasing y offsets so that visual order = list order.
"""
from __future__ import annotations

import io
import zipfile
from xml.sax.saxutils import escape

from ..docmodel import word

NS = ('xmlns:a="http://schemas.openxmlformats.org/drawingml/2006/main" '
      'xmlns:r="http://schemas.openxmlformats.org/officeDocument/2006/relationships" '
      'xmlns:p="http://schemas.openxmlformats.org/presentationml/2006/main"')
REL = "http://schemas.openxmlformats.org/officeDocument/2006/relationships"


def _runs(inls):
    out = []
    for i in inls:
        if i[0] == "r":
            w_ = word(i[1])
            if i[1] % 3 == 0:        # one word split over two runs
                out.append(f'<a:r><a:rPr lang="en-US"/><a:t>{w_[:4]}</a:t></a:r><a:r><a:rPr lang="en-US" b="1"/><a:t>{w_[4:]}</a:t></a:r>')
            else:
                out.append(f'<a:r><a:rPr lang="en-US"/><a:t>{escape(w_)}</a:t></a:r>')
        elif i[0] == "br":
            out.append("<a:br/>")
        elif i[0] == "a":
            out.append(_runs(i[1]))
        else:
            raise ValueError(i[0])
    return "".join(out)


def _txbody(paras, tag="p:txBody"):
    ps = "".join(f"<a:p>{_runs(p)}</a:p>" for p in paras) or "<a:p/>"
    return f"<{tag}><a:bodyPr/><a:lstStyle/>{ps}</{tag}>"


def _xfrm(k, prefix="a"):
    return f'<{prefix}:xfrm><a:off x="1000" y="{(k + 1) * 100000}"/><a:ext cx="5000000" cy="90000"/></{prefix}:xfrm>'


def _shape(k, s, rels):
    kind = s[0]
    if kind == "tbl":
        rows = ""
        ncols = max(len(r) for r in s[1])
        for row in s[1]:
            tcs = ""
            for j, cell in enumerate(row):
                # an empty cell right of a non-empty one is written as the covered cell of a horizontal merge:
                # DrawingML keeps the full grid (origin gridSpan="2", covered position <a:tc hMerge="1">)
                covered = j > 0 and not cell and bool(row[j - 1])
                origin = j + 1 < len(row) and bool(cell) and not row[j + 1]
                attr = ' hMerge="1"' if covered else (' gridSpan="2"' if origin else "")
                tcs += f"<a:tc{attr}>{_txbody(cell, 'a:txBody')}<a:tcPr/></a:tc>"
            rows += f'<a:tr h="1000">{tcs}</a:tr>'
        grid = "".join('<a:gridCol w="1000"/>' for _ in range(ncols))
        frame = (f'<p:graphicFrame><p:nvGraphicFramePr><p:cNvPr id="{k+2}" name="Table {k}"/><p:cNvGraphicFramePr/>'
                 f'<p:nvPr/></p:nvGraphicFramePr>{_xfrm(k, "p")}<a:graphic><a:graphicData '
                 'uri="http://schemas.openxmlformats.org/drawingml/2006/table"><a:tbl><a:tblPr/>'
                 f'<a:tblGrid>{grid}</a:tblGrid>{rows}</a:tbl></a:graphicData></a:graphic></p:graphicFrame>')
        return _group(k, frame) if k % 2 == 1 else frame        # a table at an odd position sits inside a group shape
    ph = {"title": '<p:ph type="title"/>', "body": '<p:ph type="body" idx="1"/>', "text": ""}[kind]
    paras = [s[1]] if kind == "title" else s[1]
    sp = (f'<p:sp><p:nvSpPr><p:cNvPr id="{k+2}" name="Shape {k}"/><p:cNvSpPr/><p:nvPr>{ph}</p:nvPr></p:nvSpPr>'
          f'<p:spPr>{_xfrm(k)}</p:spPr>{_txbody(paras)}</p:sp>')
    if kind == "text" and k % 2 == 1:
        sp = _group(k, sp)          # a free text box at an odd position sits inside a group shape
    return sp


def _group(k, inner):
    """A group shape around one shape (child coordinates = slide coordinates)."""
    return (f'<p:grpSp><p:nvGrpSpPr><p:cNvPr id="{k+200}" name="Group {k}"/><p:cNvGrpSpPr/><p:nvPr/></p:nvGrpSpPr>'
            '<p:grpSpPr><a:xfrm><a:off x="0" y="0"/><a:ext cx="9144000" cy="6858000"/><a:chOff x="0" y="0"/>'
            f'<a:chExt cx="9144000" cy="6858000"/></a:xfrm></p:grpSpPr>{inner}</p:grpSp>')


def _pic(k, n, rid, descr=None):
    alt = f' descr="{escape(descr)}"' if descr else ""
    return (f'<p:pic><p:nvPicPr><p:cNvPr id="{k+2}" name="Picture {n}"{alt}/><p:cNvPicPr/><p:nvPr/></p:nvPicPr>'
            f'<p:blipFill><a:blip r:embed="{rid}"/></p:blipFill><p:spPr>{_xfrm(k)}</p:spPr></p:pic>')


def _rels(items):
    return ('<?xml version="1.0"?><Relationships xmlns="http://schemas.openxmlformats.org/package/2006/relationships">'
            + "".join(f'<Relationship Id="{i}" Type="{t}" Target="{escape(tg)}"' + (' TargetMode="External"' if ext else "")
                      + "/>" for i, t, tg, ext in items) + "</Relationships>")


def write_pptx(deck: dict) -> bytes:
    from .docx import _core
    slides = deck["slides"]
    files = {}
    prels = []
    sldids = ""
    nslides = len(slides)
    for logical, s in enumerate(slides, start=1):
        # slide FILES are numbered in reverse: the order of a deck is given by p:sldIdLst + relationships only
        n = nslides - logical + 1
        rid = f"rId{logical}"
        prels.append((rid, f"{REL}/slide", f"slides/slide{n}.xml", False))
        # slide ids are identifiers, not positions: a deck whose slides were moved has them in any order
        sldids += f'<p:sldId id="{256 + (logical * 5) % 7 + 7 * (logical // 7)}" r:id="{rid}"/>'
        srels = [("rIdL", f"{REL}/slideLayout", "../slideLayouts/slideLayout1.xml", False)]
        shapes = ""
        k = 0
        parts = []
        for sh in s.get("shapes", []):
            parts.append(_shape(k, sh, srels))
            k += 1
        # reading order is the visual (top-to-bottom) order given by the y offsets; on even slides the
        # XML order is reversed so that an extractor relying on XML order would be caught
        shapes += "".join(parts if logical % 2 else reversed(parts))
        for m, img in enumerate(s.get("images", []), start=1):
            irid = img.get("rid") or f"rIdI{m}"
            if not img.get("norel"):
                srels.append((irid, f"{REL}/image", img["target"], bool(img.get("external"))))
            if img.get("part") and img.get("data") is not None:
                files[img["part"]] = img["data"]
            shapes += _pic(k, m, irid, img.get("descr"))
            k += 1
        if s.get("notes"):
            srels.append(("rIdN", f"{REL}/notesSlide", f"../notesSlides/notesSlide{n}.xml", False))
            files[f"ppt/notesSlides/notesSlide{n}.xml"] = (
                f'<?xml version="1.0"?><p:notes {NS}><p:cSld><p:spTree><p:nvGrpSpPr><p:cNvPr id="1" name=""/>'
                '<p:cNvGrpSpPr/><p:nvPr/></p:nvGrpSpPr><p:grpSpPr/>'
                '<p:sp><p:nvSpPr><p:cNvPr id="2" name="Notes"/><p:cNvSpPr/><p:nvPr><p:ph type="body" idx="1"/></p:nvPr>'
                f'</p:nvSpPr><p:spPr/>{_txbody([s["notes"]])}</p:sp></p:spTree></p:cSld></p:notes>')
            files[f"ppt/notesSlides/_rels/notesSlide{n}.xml.rels"] = _rels(
                [("rId1", f"{REL}/slide", f"../slides/slide{n}.xml", False)])
        if s.get("comments"):
            # legacy comment part ppt/comments/comment<n>.xml (one p:cm per token id)
            srels.append(("rIdC", f"{REL}/comments", f"../comments/comment{logical}.xml", False))
            files[f"ppt/comments/comment{logical}.xml"] = (
                f'<?xml version="1.0"?><p:cmLst {NS}>' + "".join(
                    f'<p:cm authorId="0" dt="2024-01-01T00:00:00.000" idx="{k}"><p:pos x="10" y="10"/>'
                    f'<p:text>{escape(word(t))}</p:text></p:cm>' for k, t in enumerate(s["comments"], start=1))
                + "</p:cmLst>")
            files["ppt/commentAuthors.xml"] = (f'<?xml version="1.0"?><p:cmAuthorLst {NS}><p:cmAuthor id="0" name="Rev" '
                                               'initials="R" lastIdx="9" clrIdx="0"/></p:cmAuthorLst>')
        files[f"ppt/slides/slide{n}.xml"] = (
            f'<?xml version="1.0"?><p:sld {NS}><p:cSld><p:spTree><p:nvGrpSpPr><p:cNvPr id="1" name=""/>'
            f'<p:cNvGrpSpPr/><p:nvPr/></p:nvGrpSpPr><p:grpSpPr/>{shapes}</p:spTree></p:cSld></p:sld>')
        files[f"ppt/slides/_rels/slide{n}.xml.rels"] = _rels(srels)
    files["ppt/presentation.xml"] = (f'<?xml version="1.0"?><p:presentation {NS}><p:sldIdLst>{sldids}</p:sldIdLst>'
                                     '<p:sldSz cx="9144000" cy="6858000"/></p:presentation>')
    files["ppt/_rels/presentation.xml.rels"] = _rels(prels)
    files["ppt/slideLayouts/slideLayout1.xml"] = (f'<?xml version="1.0"?><p:sldLayout {NS}><p:cSld><p:spTree>'
                                                  '<p:nvGrpSpPr><p:cNvPr id="1" name=""/><p:cNvGrpSpPr/><p:nvPr/>'
                                                  '</p:nvGrpSpPr><p:grpSpPr/></p:spTree></p:cSld></p:sldLayout>')
    files["docProps/core.xml"] = _core(deck.get("props") or {})
    files["_rels/.rels"] = _rels([("rId1", f"{REL}/officeDocument", "ppt/presentation.xml", False),
                                  ("rId2", "http://schemas.openxmlformats.org/package/2006/relationships/metadata/"
                                           "core-properties", "docProps/core.xml", False)])
    files["[Content_Types].xml"] = (
        '<?xml version="1.0"?><Types xmlns="http://schemas.openxmlformats.org/package/2006/content-types">'
        '<Default Extension="rels" ContentType="application/vnd.openxmlformats-package.relationships+xml"/>'
        '<Default Extension="xml" ContentType="application/xml"/><Default Extension="png" ContentType="image/png"/>'
        '<Default Extension="jpeg" ContentType="image/jpeg"/><Default Extension="gif" ContentType="image/gif"/>'
        '<Override PartName="/ppt/presentation.xml" ContentType="application/vnd.openxmlformats-officedocument.'
        'presentationml.presentation.main+xml"/></Types>')
    buf = io.BytesIO()
    with zipfile.ZipFile(buf, "w", zipfile.ZIP_DEFLATED) as z:
        for name in ["[Content_Types].xml", "_rels/.rels"] + sorted(k for k in files if k not in ("[Content_Types].xml", "_rels/.rels")):
            z.writestr(name, files[name])
    return buf.getvalue()
