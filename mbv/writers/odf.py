"""Abstract documents -> OpenDocument packages (odt, ods, odp, odg) — hand-written XML."""
from __future__ import annotations

import io
import zipfile
from xml.sax.saxutils import escape

from ..docmodel import word

NS = ('xmlns:office="urn:oasis:names:tc:opendocument:xmlns:office:1.0" '
      'xmlns:style="urn:oasis:names:tc:opendocument:xmlns:style:1.0" '
      'xmlns:text="urn:oasis:names:tc:opendocument:xmlns:text:1.0" '
      'xmlns:table="urn:oasis:names:tc:opendocument:xmlns:table:1.0" '
      'xmlns:draw="urn:oasis:names:tc:opendocument:xmlns:drawing:1.0" '
      'xmlns:fo="urn:oasis:names:tc:opendocument:xmlns:xsl-fo-compatible:1.0" '
      'xmlns:xlink="http://www.w3.org/1999/xlink" xmlns:dc="http://purl.org/dc/elements/1.1/" '
      'xmlns:meta="urn:oasis:names:tc:opendocument:xmlns:meta:1.0" '
      'xmlns:svg="urn:oasis:names:tc:opendocument:xmlns:svg-compatible:1.0" '
      'xmlns:presentation="urn:oasis:names:tc:opendocument:xmlns:presentation:1.0" '
      'xmlns:number="urn:oasis:names:tc:opendocument:xmlns:datastyle:1.0" office:version="1.2"')

MIMES = {"odf": "application/vnd.oasis.opendocument.formula", "odt": "application/vnd.oasis.opendocument.text", "ods": "application/vnd.oasis.opendocument.spreadsheet",
         "odp": "application/vnd.oasis.opendocument.presentation", "odg": "application/vnd.oasis.opendocument.graphics"}

ODT_SUPPORTS = {"r.acc", "r.num", "p", "h", "ul", "ul.nested", "tbl", "tbl.nested", "tbl.nested.wide", "cell.multi", "tbx", "r", "tab", "br", "sp", "a",
                "ins", "del", "fn", "cm", "header", "footer"}


class _C:
    def __init__(self):
        self.deleted = []     # (change id, inlines)
        self.n = 0


def _inl(inls, c: _C) -> str:
    out = []
    for i in inls:
        t = i[0]
        if t == "r":
            w_ = word(i[1])
            # a blank inside a run: literally, or (every second such run) as the ODF space element, alone
            sp = " " if i[1] % 2 else ("<text:s/>" if i[1] % 4 == 0 else '<text:s text:c="1"/>')
            a_, b_ = w_[:4].replace(" ", sp), w_[4:].replace(" ", sp)
            if i[1] % 3 == 0:        # one word split over two spans
                out.append(f'<text:span text:style-name="T1">{a_}</text:span><text:span text:style-name="T1">{b_}</text:span>')
            elif i[1] % 3 == 1:      # bare text node
                out.append(a_ + b_)
            else:
                out.append(f'<text:span text:style-name="T1">{a_}{b_}</text:span>')
        elif t == "tab":
            out.append("<text:tab/>")
        elif t == "sp":          # a blank that is the tail of the element before it (or the text before the next one)
            out.append(" ")
        elif t == "br":
            out.append("<text:line-break/>")
        elif t == "a":
            out.append(f'<text:a xlink:type="simple" xlink:href="https://example.invalid/">{_inl(i[1], c)}</text:a>')
        elif t == "ins":
            c.n += 1
            out.append(f'<text:change-start text:change-id="ct{c.n}"/>{_inl(i[1], c)}<text:change-end text:change-id="ct{c.n}"/>')
        elif t == "del":
            c.n += 1
            c.deleted.append((f"ct{c.n}", i[1]))
            out.append(f'<text:change text:change-id="ct{c.n}"/>')
        elif t == "fn":
            c.n += 1
            out.append(f'<text:note text:id="ftn{c.n}" text:note-class="footnote"><text:note-citation>{c.n}</text:note-citation>'
                       f'<text:note-body><text:p>{word(i[1])}</text:p></text:note-body></text:note>')
        elif t == "cm":
            out.append('<office:annotation><dc:creator>rev</dc:creator><dc:date>2024-01-01T00:00:00</dc:date>'
                       f'<text:p>{word(i[1])}</text:p></office:annotation>')
        else:
            raise ValueError(t)
    return "".join(out)


_SPAN = ' table:number-columns-spanned="2"'


def _covered(row, j) -> bool:
    """An empty cell right of a non-empty one is written as the covered cell of a horizontal merge: ODF keeps the
    full grid (origin table:number-columns-spanned="2", covered position <table:covered-table-cell/>)."""
    return 0 < j < len(row) and not row[j] and bool(row[j - 1])


def _blocks(blocks, c: _C) -> str:
    out = []
    for b in blocks:
        t = b[0]
        if t == "p":
            out.append(f'<text:p text:style-name="Standard">{_inl(b[1], c)}</text:p>')
        elif t == "h":
            out.append(f'<text:h text:style-name="Heading_20_{b[1]}" text:outline-level="{b[1]}">{_inl(b[2], c)}</text:h>')
        elif t == "ul":
            out.append("<text:list>" + "".join(f"<text:list-item>{_blocks(item, c)}</text:list-item>" for item in b[1])
                       + "</text:list>")
        elif t == "tbl":
            ncols = max(len(r) for r in b[1])
            rowx = []
            for row in b[1]:
                cells = ""
                for j, cell in enumerate(row):
                    if _covered(row, j):
                        cells += "<table:covered-table-cell/>"
                    else:
                        cells += (f'<table:table-cell{_SPAN if _covered(row, j + 1) else ""} office:value-type="string">'
                                  f'{_blocks(cell, c) or "<text:p/>"}</table:table-cell>')
                rowx.append(f"<table:table-row>{cells}</table:table-row>")
            # the first row of every other table is a repeated header row (table:table-header-rows wrapper)
            c.n += 1
            if c.n % 2 == 0:
                rowx[0] = f"<table:table-header-rows>{rowx[0]}</table:table-header-rows>"
            rows = "".join(rowx)
            out.append(f'<table:table table:name="T{id(b) % 997}"><table:table-column table:number-columns-repeated="{ncols}"/>'
                       f"{rows}</table:table>")
        elif t == "tbx":
            out.append('<text:p><draw:frame draw:name="Frame1" text:anchor-type="paragraph" svg:width="5cm">'
                       f'<draw:text-box>{_blocks(b[1], c)}</draw:text-box></draw:frame></text:p>')
        else:
            raise ValueError(t)
    return "".join(out)


def _meta(props) -> str:
    def el(tag, key):
        v = props.get(key)
        return f"<{tag}>{escape(v)}</{tag}>" if v is not None else ""
    return (f'<?xml version="1.0" encoding="UTF-8"?><office:document-meta {NS}><office:meta>'
            + el("dc:title", "title") + el("meta:initial-creator", "author") + el("dc:creator", "author")
            + el("dc:subject", "subject") + el("meta:keyword", "keywords") + el("dc:description", "description")
            + "</office:meta></office:document-meta>")


def _package(kind, content, styles=None, props=None, extra=None, manifest_extra="") -> bytes:
    files = {"content.xml": content, "meta.xml": _meta(props or {}),
             "styles.xml": styles or f'<?xml version="1.0" encoding="UTF-8"?><office:document-styles {NS}/>'}
    files.update(extra or {})
    man = ('<?xml version="1.0" encoding="UTF-8"?><manifest:manifest xmlns:manifest="urn:oasis:names:tc:opendocument:xmlns:'
           f'manifest:1.0" manifest:version="1.2"><manifest:file-entry manifest:full-path="/" manifest:media-type="{MIMES[kind]}"/>'
           + "".join(f'<manifest:file-entry manifest:full-path="{escape(n)}" manifest:media-type="'
                     f'{"text/xml" if n.endswith(".xml") else "image/png"}"/>' for n in files)
           + manifest_extra + "</manifest:manifest>")
    buf = io.BytesIO()
    with zipfile.ZipFile(buf, "w") as z:
        z.writestr(zipfile.ZipInfo("mimetype"), MIMES[kind])
        for n, d in files.items():
            z.writestr(n, d, zipfile.ZIP_DEFLATED)
        z.writestr("META-INF/manifest.xml", man, zipfile.ZIP_DEFLATED)
    return buf.getvalue()


def _images_xml(images, extra, anchor="paragraph"):
    out = ""
    for k, img in enumerate(images or [], start=1):
        if img.get("part") and img.get("data") is not None:
            extra[img["part"]] = img["data"]
        out += (f'<draw:frame draw:name="Image{k}" text:anchor-type="{anchor}" svg:width="1cm" svg:height="1cm">'
                f'<draw:image xlink:href="{escape(img["target"])}" xlink:type="simple" xlink:show="embed" '
                'xlink:actuate="onLoad"/></draw:frame>')
    return out


def write_odt(doc: dict) -> bytes:
    c = _C()
    body = _blocks(doc.get("blocks", []), c)
    extra = {}
    imgs = _images_xml(doc.get("images"), extra)
    if imgs:
        body += f"<text:p>{imgs}</text:p>"
    tracked = ""
    if c.deleted:
        c2 = _C()
        tracked = "<text:tracked-changes>" + "".join(
            f'<text:changed-region text:id="{cid}"><text:deletion><office:change-info><dc:creator>a</dc:creator>'
            f'<dc:date>2024-01-01T00:00:00</dc:date></office:change-info><text:p>{_inl(inls, c2)}</text:p>'
            "</text:deletion></text:changed-region>" for cid, inls in c.deleted) + "</text:tracked-changes>"
    content = (f'<?xml version="1.0" encoding="UTF-8"?><office:document-content {NS}><office:automatic-styles>'
               '<style:style style:name="T1" style:family="text"/></office:automatic-styles>'
               f"<office:body><office:text>{tracked}{body}</office:text></office:body></office:document-content>")
    hf = ""
    ch = _C()
    if doc.get("header"):
        hf += f"<style:header><text:p>{_inl(doc['header'], ch)}</text:p></style:header>"
    if doc.get("footer"):
        hf += f"<style:footer><text:p>{_inl(doc['footer'], ch)}</text:p></style:footer>"
    styles = (f'<?xml version="1.0" encoding="UTF-8"?><office:document-styles {NS}><office:styles>'
              '<style:style style:name="Standard" style:family="paragraph"/>'
              + "".join(f'<style:style style:name="Heading_20_{k}" style:display-name="Heading {k}" style:family="paragraph" '
                        f'style:default-outline-level="{k}"/>' for k in (1, 2, 3))
              + '</office:styles><office:master-styles><style:master-page style:name="Standard">'
              f"{hf}</style:master-page></office:master-styles></office:document-styles>")
    return _package("odt", content, styles, doc.get("props"), extra)


def _ods_cell(c, repeat=None):
    rep = f' table:number-columns-repeated="{repeat}"' if repeat else ""
    if c is None:
        return f"<table:table-cell{rep}/>"
    k = c[0]
    if k == "s":
        return f'<table:table-cell{rep} office:value-type="string"><text:p>{word(c[1])}</text:p></table:table-cell>'
    if k == "str":
        return f'<table:table-cell{rep} office:value-type="string"><text:p>{escape(c[1])}</text:p></table:table-cell>'
    if k == "n":
        return f'<table:table-cell{rep} office:value-type="float" office:value="{c[1]!r}"><text:p>{c[1]!r}</text:p></table:table-cell>'
    if k == "b":
        v = "true" if c[1] else "false"
        return f'<table:table-cell{rep} office:value-type="boolean" office:boolean-value="{v}"><text:p>{v.upper()}</text:p></table:table-cell>'
    # the paragraph of a date / time cell is its DISPLAY text in the document's locale, not the value
    if k in ("d", "date"):
        y, mo, rest = c[1].split("-", 2)
        shown = f"{rest[:2]}.{mo}.{y}" + (" " + rest[3:8] if len(rest) > 2 else "")
        return f'<table:table-cell{rep} office:value-type="date" office:date-value="{c[1]}"><text:p>{shown}</text:p></table:table-cell>'
    if k == "t":
        h, m, s = c[1].split(":")
        shown = f"{int(h) % 12 or 12}:{m}:{s} " + ("AM" if int(h) < 12 else "PM")
        return f'<table:table-cell{rep} office:value-type="time" office:time-value="PT{h}H{m}M{s}S"><text:p>{shown}</text:p></table:table-cell>'
    if k == "multi":     # several paragraphs of tokens in one cell
        return (f'<table:table-cell{rep} office:value-type="string">' + "".join(f"<text:p>{word(i)}</text:p>" for i in c[1])
                + "</table:table-cell>")
    raise ValueError(k)


def write_ods(book: dict) -> bytes:
    extra = {}
    tables = ""
    for sh in book["sheets"]:
        rows = ""
        for row in sh["rows"]:
            rep = ""
            if isinstance(row, dict):          # {"repeat": n, "cells": [...]}
                rep = f' table:number-rows-repeated="{row["repeat"]}"'
                row = row["cells"]
            cells = ""
            plain = all(not isinstance(c, dict) for c in row)
            for j, c in enumerate(row):
                if isinstance(c, dict):        # {"repeat": n, "cell": c}
                    cells += _ods_cell(c["cell"], c["repeat"])
                elif plain and _covered(row, j):
                    cells += "<table:covered-table-cell/>"
                elif plain and _covered(row, j + 1):
                    cells += _ods_cell(c).replace("<table:table-cell", "<table:table-cell" + _SPAN, 1)
                else:
                    cells += _ods_cell(c)
            rows += f"<table:table-row{rep}>{cells}</table:table-row>"
        shapes = _images_xml(sh.get("images"), extra, anchor="page")
        if shapes:
            shapes = f"<table:shapes>{shapes}</table:shapes>"
        tables += (f'<table:table table:name="{escape(sh["name"], {chr(34): "&quot;"})}">{shapes}<table:table-column/>'
                   f"{rows or '<table:table-row><table:table-cell/></table:table-row>'}</table:table>")
    if len(book["sheets"]) % 2 == 0 and book["sheets"]:
        # a cached DDE link: a table:table that is NOT a sheet (it sits in table:dde-links, after the sheets)
        tables += ('<table:dde-links><table:dde-link><office:dde-source office:dde-application="soffice" '
                   'office:dde-topic="other.ods" office:dde-item="Sheet1.A1"/><table:table><table:table-column/>'
                   '<table:table-row><table:table-cell office:value-type="string"><text:p>ddecachevalue</text:p>'
                   "</table:table-cell></table:table-row></table:table></table:dde-link></table:dde-links>")
    content = (f'<?xml version="1.0" encoding="UTF-8"?><office:document-content {NS}><office:body><office:spreadsheet>'
               f"{tables}</office:spreadsheet></office:body></office:document-content>")
    return _package("ods", content, None, book.get("props"), extra)


def _odp_shape(k, s, c):
    kind = s[0]
    # positions with fractions of a centimetre: frames 0.4 cm apart, each further LEFT than the one above it, so that
    # only the exact vertical position gives the reading order
    y = f'svg:x="{9 - 0.5 * k:.1f}cm" svg:y="{1 + 0.4 * k:.1f}cm" svg:width="8cm" svg:height="0.3cm"'
    if kind == "tbl":
        rows = "".join("<table:table-row>" + "".join(
            "<table:covered-table-cell/>" if _covered(row, j) else
            f"<table:table-cell{_SPAN if _covered(row, j + 1) else ''}>"
            + ("".join(f"<text:p>{_inl(p, c)}</text:p>" for p in cell) or "<text:p/>")
            + "</table:table-cell>" for j, cell in enumerate(row)) + "</table:table-row>" for row in s[1])
        ncols = max(len(r) for r in s[1])
        # the first row of a table at an even position is a repeated header row (table:table-header-rows wrapper)
        if k % 2 == 0 and "</table:table-row>" in rows:
            first, rest_ = rows.split("</table:table-row>", 1)
            rows = f"<table:table-header-rows>{first}</table:table-row></table:table-header-rows>{rest_}"
        return _odp_group(k, f'<draw:frame {y}><table:table><table:table-column table:number-columns-repeated="{ncols}"/>'
                             f"{rows}</table:table></draw:frame>")
    cls = {"title": ' presentation:class="title"', "body": ' presentation:class="outline"', "text": ""}[kind]
    paras = [s[1]] if kind == "title" else s[1]
    # paragraph styles as presentation programs name them (the extractor classifies title / body paragraphs by style name)
    pst = {"title": ' text:style-name="TitleText"', "body": ' text:style-name="BodyText"', "text": ""}[kind]
    frame = (f'<draw:frame{cls} {y}><draw:text-box>' + "".join(f"<text:p{pst}>{_inl(p, c)}</text:p>" for p in paras)
             + "</draw:text-box></draw:frame>")
    return _odp_group(k, frame) if kind == "text" else frame


def _odp_group(k, frame):
    """Free text boxes and tables at positions 1, 2 (mod 3) sit in a shape group / a group inside a group (draw:g):
    grouping is a drawing aid, the frames keep their own positions and are content of the page like any other."""
    if k % 3 == 1:
        return f'<draw:g draw:name="Group{k}">{frame}</draw:g>'
    if k % 3 == 2:
        return f'<draw:g draw:name="Group{k}"><draw:g>{frame}</draw:g></draw:g>'
    return frame


def write_odp(deck: dict, kind="odp") -> bytes:
    c = _C()
    extra = {}
    pages = ""
    for n, s in enumerate(deck["slides"], start=1):
        parts = [_odp_shape(k, sh, c) for k, sh in enumerate(s.get("shapes", []))]
        # reading order is the visual (top-to-bottom) order given by svg:y; on even slides of a presentation the XML
        # order is reversed, so that an extractor relying on XML order would be caught (a drawing keeps XML order)
        shapes = "".join(reversed(parts) if (kind == "odp" and n % 2 == 0) else parts)
        shapes += _images_xml(s.get("images"), extra, anchor="page")
        notes = ""
        if s.get("notes"):
            notes = ('<presentation:notes><draw:frame presentation:class="notes"><draw:text-box>'
                     f'<text:p>{_inl(s["notes"], c)}</text:p></draw:text-box></draw:frame></presentation:notes>')
        pages += f'<draw:page draw:name="page{n}" draw:master-page-name="Default">{shapes}{notes}</draw:page>'
    body = "office:presentation" if kind == "odp" else "office:drawing"
    content = (f'<?xml version="1.0" encoding="UTF-8"?><office:document-content {NS}><office:body><{body}>{pages}'
               f"</{body}></office:body></office:document-content>")
    return _package(kind, content, None, deck.get("props"), extra)


def write_odg(deck: dict) -> bytes:
    return write_odp(deck, kind="odg")


def write_odf_formula(ids, props=None) -> bytes:
    """OpenDocument Formula: MathML with one mi per id in the presentation part and three annotations
    (StarMath / TeX / spoken form) carrying further tokens -- ids = [[presentation ids], [annotation ids]]."""
    pres, ann = ids
    enc = ["StarMath 5.0", "TeX", "application/x-spoken"]
    content = ('<?xml version="1.0" encoding="UTF-8"?><math xmlns="http://www.w3.org/1998/Math/MathML" display="block">'
               "<semantics><mrow>" + "<mo>+</mo>".join(f"<mi>{word(i)}</mi>" for i in pres) + "</mrow>"
               + "".join(f'<annotation encoding="{enc[k % 3]}">{word(i)} plus {word(i)}b</annotation>' for k, i in enumerate(ann))
               + "</semantics></math>")
    return _package("odf", content, None, props, None)
