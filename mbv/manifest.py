"""Render /verif/MANIFEST.json from mbv/registry.py (keeps it schema-valid at all times)."""
import json
from pathlib import Path

from . import VERIF
from .registry import CHECKS, NOT_YET

ALL = [json.loads(l)["id"] for l in (VERIF / "properties.jsonl").read_text().splitlines() if l.strip()]


def build():
    checks, na = [], []
    for pid in ALL:
        c = CHECKS.get(pid)
        meta = VERIF / "mbv" / "props" / f"{pid.lower()}.meta.json"
        if meta.exists():
            c = json.loads(meta.read_text())
        if c and (VERIF / "mbv" / "props" / f"{pid.lower()}.py").exists():
            checks.append({
                "property_id": pid,
                "quick_cmd": f"./check {pid} --tier quick",
                "thorough_cmd": f"./check {pid} --tier thorough",
                "evidence_file": f"/verif/evidence/{pid}.json",
                "replay_cmd_template": f"./check {pid} --replay {{path}}",
                "engine": "mbv",
                "level_claimed": {"category": c["category"], "text": c["text"], "design_ref": c["design_ref"]},
                "level_note": c["note"],
                "technique": c["technique"],
            })
        else:
            na.append({"property_id": pid, "reason": (c or {}).get("na_reason", NOT_YET)})
    return {
        "version": 1,
        "setup_cmd": "cd /verif && /venv/bin/python -m mbv.setup",
        "hooks": {"guard": "SP2T_VERIF", "enable": "no source hooks: all instrumentation is external "
                  "(sys.monitoring, module-attribute interception, wrapper patching, audit hooks, fake transports); "
                  "SP2T_VERIF=1 is set by the workers only to mark instrumented runs",
                  "baseline_off_cmd": "cd /repo && /venv/bin/python -m pytest -ra -q -p no:cacheprovider --timeout=900 "
                                      "--continue-on-collection-errors",
                  "source_commits": [], "add_only": True},
        "engines": [{"name": "mbv", "path": "/verif/mbv", "serves_properties": [c["property_id"] for c in checks],
                     "kind_free_text": "explicit TLA+ specifications in /verif/specs checked with TLC; Python "
                                       "conformance harness replaying TLC-enumerated behaviours into the real code "
                                       "and validating recorded traces against *Trace.tla modules"}],
        "checks": checks,
        "not_applicable": na,
        "notes": "See DESIGN.md. Exit codes: 0 held (possibly KNOWN-FINDING lines), 1 VIOLATION, 2 machinery failure.",
    }


if __name__ == "__main__":
    (VERIF / "MANIFEST.json").write_text(json.dumps(build(), indent=1) + "\n")
    print("MANIFEST.json written:", len(build()["checks"]), "checks")
