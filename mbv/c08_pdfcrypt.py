"""Independent PDF standard-security-handler ENCRYPTOR for C08 (no code shared with the library under test,
nor with pypdf): own AES (FIPS-197, encrypt direction only, checked against the FIPS-197 appendix C vectors and an
SP 800-38A CBC vector on import), own RC4, hashlib for MD5 / SHA-2.

    h = Handler(alg, user, owner, doc_id, rng)        alg in RC4-40 | RC4-128 | AES-128 | AES-256-R5 | AES-256
    h.string(objnum, raw) -> bytes  (ciphertext)      h.stream(objnum, raw) -> bytes
    h.encrypt_dict() -> bytes                         the /Encrypt dictionary (a direct, unencrypted object)

ISO 32000-1 7.6 (algorithms 1-5: RC4 and AESV2, revisions 2-4), ISO 32000-2 7.6.4 (AESV3, revision 6, hash
algorithm 2.B) and Adobe Supplement to ISO 32000 ExtensionLevel 3 (revision 5).  owner=None means "no owner password":
the user password is used in its place (revisions 2-4) as every writer does.
"""
from __future__ import annotations

import hashlib
import struct

# --------------------------------------------------------------------------- AES (encrypt only)
_SBOX = [0] * 256


def _init_sbox():
    # multiplicative inverse in GF(2^8) via exp/log tables over generator 3, then the affine map (FIPS-197 5.1.1)
    exp, log = [0] * 510, [0] * 256
    x = 1
    for i in range(255):
        exp[i] = x
        log[x] = i
        x ^= ((x << 1) ^ 0x1B) & 0xFF if x & 0x80 else x << 1          # multiply by 3 = x ^ xtime(x)
    for i in range(255, 510):
        exp[i] = exp[i - 255]
    for v in range(256):
        inv = 0 if v == 0 else exp[255 - log[v]]
        s = inv
        for sh in (1, 2, 3, 4):
            s ^= ((inv << sh) | (inv >> (8 - sh))) & 0xFF
        _SBOX[v] = s ^ 0x63


_init_sbox()


def _xt(a):
    return ((a << 1) ^ 0x1B) & 0xFF if a & 0x80 else a << 1


def expand_key(key: bytes):
    nk = len(key) // 4
    nr = nk + 6
    w = [list(key[4 * i:4 * i + 4]) for i in range(nk)]
    rcon = 1
    for i in range(nk, 4 * (nr + 1)):
        t = list(w[i - 1])
        if i % nk == 0:
            t = [_SBOX[t[1]] ^ rcon, _SBOX[t[2]], _SBOX[t[3]], _SBOX[t[0]]]
            rcon = _xt(rcon)
        elif nk > 6 and i % nk == 4:
            t = [_SBOX[b] for b in t]
        w.append([a ^ b for a, b in zip(w[i - nk], t)])
    return [sum((w[4 * r + c] for c in range(4)), []) for r in range(nr + 1)]     # round keys, 16 bytes each


_SHIFT = [0, 5, 10, 15, 4, 9, 14, 3, 8, 13, 2, 7, 12, 1, 6, 11]


def encrypt_block(rk, block: bytes) -> bytes:
    s = [b ^ k for b, k in zip(block, rk[0])]
    nr = len(rk) - 1
    for r in range(1, nr + 1):
        s = [_SBOX[s[i]] for i in _SHIFT]                      # SubBytes + ShiftRows (column-major state)
        if r != nr:
            o = []
            for c in range(0, 16, 4):
                a0, a1, a2, a3 = s[c:c + 4]
                t = a0 ^ a1 ^ a2 ^ a3
                o += [a0 ^ t ^ _xt(a0 ^ a1), a1 ^ t ^ _xt(a1 ^ a2), a2 ^ t ^ _xt(a2 ^ a3), a3 ^ t ^ _xt(a3 ^ a0)]
            s = o
        s = [b ^ k for b, k in zip(s, rk[r])]
    return bytes(s)


def cbc_encrypt(key: bytes, iv: bytes, data: bytes) -> bytes:
    assert len(data) % 16 == 0 and len(iv) == 16
    rk = expand_key(key)
    out, prev = bytearray(), iv
    for i in range(0, len(data), 16):
        prev = encrypt_block(rk, bytes(a ^ b for a, b in zip(data[i:i + 16], prev)))
        out += prev
    return bytes(out)


def pkcs7(data: bytes) -> bytes:
    n = 16 - len(data) % 16
    return data + bytes([n]) * n


def _selftest():
    pt = bytes.fromhex("00112233445566778899aabbccddeeff")
    k128 = bytes(range(16))
    k192 = bytes(range(24))
    k256 = bytes(range(32))
    assert encrypt_block(expand_key(k128), pt).hex() == "69c4e0d86a7b0430d8cdb78070b4c55a"      # FIPS-197 C.1
    assert encrypt_block(expand_key(k192), pt).hex() == "dda97ca4864cdfe06eaf70a0ec0d7191"      # FIPS-197 C.2
    assert encrypt_block(expand_key(k256), pt).hex() == "8ea2b7ca516745bfeafc49904b496089"      # FIPS-197 C.3
    # SP 800-38A F.2.5 CBC-AES256.Encrypt, first two blocks
    key = bytes.fromhex("603deb1015ca71be2b73aef0857d77811f352c073b6108d72d9810a30914dff4")
    iv = bytes(range(16))
    p = bytes.fromhex("6bc1bee22e409f96e93d7e117393172aae2d8a571e03ac9c9eb76fac45af8e51")
    assert cbc_encrypt(key, iv, p).hex() == ("f58c4c04d6e5f1ba779eabfb5f7bfbd6"
                                             "9cfc4e967edb808d679f777bc6702c7d")
    # RC4 test vector (RFC 6229 key 0x0102030405, first 16 bytes of key stream)
    assert rc4(bytes([1, 2, 3, 4, 5]), b"\0" * 16).hex() == "b2396305f03dc027ccc3524a0a1118a8"


# --------------------------------------------------------------------------- RC4
def rc4(key: bytes, data: bytes) -> bytes:
    s = list(range(256))
    j = 0
    for i in range(256):
        j = (j + s[i] + key[i % len(key)]) & 0xFF
        s[i], s[j] = s[j], s[i]
    out = bytearray()
    i = j = 0
    for b in data:
        i = (i + 1) & 0xFF
        j = (j + s[i]) & 0xFF
        s[i], s[j] = s[j], s[i]
        out.append(b ^ s[(s[i] + s[j]) & 0xFF])
    return bytes(out)


_selftest()

# --------------------------------------------------------------------------- standard security handler
PAD = bytes.fromhex("28BF4E5E4E758A4164004E56FFFA01082E2E00B6D0683E802F0CA9FE6453697A")
PERMS = -1028          # print / copy allowed, as the repository's protected fixture has


def _pad_pw(pw: bytes) -> bytes:
    return (pw + PAD)[:32]


def _latin(pw: str) -> bytes:
    return pw.encode("latin-1", errors="replace")


def _hash_2b(pw: bytes, salt: bytes, udata: bytes) -> bytes:
    """ISO 32000-2 algorithm 2.B (revision 6)."""
    k = hashlib.sha256(pw + salt + udata).digest()
    rnd = 0
    while True:
        k1 = (pw + k + udata) * 64
        e = cbc_encrypt(k[:16], k[16:32], k1)
        m = sum(e[:16]) % 3
        k = (hashlib.sha256, hashlib.sha384, hashlib.sha512)[m](e).digest()
        rnd += 1
        if rnd >= 64 and e[-1] <= rnd - 32:
            return k[:32]


class Handler:
    def __init__(self, alg: str, user: str, owner, doc_id: bytes, rng):
        self.alg, self.doc_id = alg, doc_id
        self.rng = rng
        if alg in ("RC4-40", "RC4-128", "AES-128"):
            self.rev = {"RC4-40": 2, "RC4-128": 3, "AES-128": 4}[alg]
            self.klen = 5 if alg == "RC4-40" else 16
            u, o = _latin(user), _latin(owner if owner else user)
            self.O = self._owner_entry(u, o)
            self.key = self._file_key(u)
            self.U = self._user_entry()
        else:
            self.rev = 5 if alg == "AES-256-R5" else 6
            u = user.encode("utf-8")[:127]
            o = (owner if owner is not None else user).encode("utf-8")[:127]
            self.key = self._rand(32)
            h = (lambda pw, salt, ud: hashlib.sha256(pw + salt + ud).digest()) if self.rev == 5 else _hash_2b
            uvs, uks, ovs, oks = (self._rand(8) for _ in range(4))
            self.U = h(u, uvs, b"") + uvs + uks
            self.UE = cbc_encrypt(h(u, uks, b""), b"\0" * 16, self.key)
            self.O = h(o, ovs, self.U) + ovs + oks
            self.OE = cbc_encrypt(h(o, oks, self.U), b"\0" * 16, self.key)
            perms = struct.pack("<i", PERMS) + b"\xff\xff\xff\xff" + b"T" + b"adb" + self._rand(4)
            self.Perms = encrypt_block(expand_key(self.key), perms)

    def _rand(self, n):
        return bytes(self.rng.getrandbits(8) for _ in range(n))

    # ---- revisions 2-4 (ISO 32000-1 algorithms 2-5)
    def _owner_entry(self, u, o):
        d = hashlib.md5(_pad_pw(o)).digest()
        if self.rev >= 3:
            for _ in range(50):
                d = hashlib.md5(d).digest()
        key = d[:self.klen]
        v = rc4(key, _pad_pw(u))
        if self.rev >= 3:
            for i in range(1, 20):
                v = rc4(bytes(b ^ i for b in key), v)
        return v

    def _file_key(self, u):
        m = hashlib.md5(_pad_pw(u) + self.O + struct.pack("<i", PERMS) + self.doc_id)
        d = m.digest()
        if self.rev >= 3:
            for _ in range(50):
                d = hashlib.md5(d[:self.klen]).digest()
        return d[:self.klen]

    def _user_entry(self):
        if self.rev == 2:
            return rc4(self.key, PAD)
        v = rc4(self.key, hashlib.md5(PAD + self.doc_id).digest())
        for i in range(1, 20):
            v = rc4(bytes(b ^ i for b in self.key), v)
        return v + self._rand(16)

    # ---- per-object encryption
    def _obj_key(self, num):
        d = self.key + struct.pack("<I", num)[:3] + b"\0\0" + (b"sAlT" if self.alg == "AES-128" else b"")
        return hashlib.md5(d).digest()[:min(self.klen + 5, 16)]

    def _crypt(self, num, raw):
        if self.alg in ("RC4-40", "RC4-128"):
            return rc4(self._obj_key(num), raw)
        iv = self._rand(16)
        key = self._obj_key(num) if self.alg == "AES-128" else self.key
        return iv + cbc_encrypt(key, iv, pkcs7(raw))

    def string(self, num, raw: bytes) -> bytes:
        return self._crypt(num, raw)

    def stream(self, num, raw: bytes) -> bytes:
        return self._crypt(num, raw)

    def encrypt_dict(self) -> bytes:
        hx = lambda b: b"<" + b.hex().encode() + b">"          # noqa: E731
        if self.rev <= 3:
            return (b"<< /Filter /Standard /V %d /R %d /Length %d /P %d /O %s /U %s >>"
                    % (1 if self.rev == 2 else 2, self.rev, self.klen * 8, PERMS, hx(self.O), hx(self.U)))
        if self.rev == 4:
            return (b"<< /Filter /Standard /V 4 /R 4 /Length 128 /P %d /O %s /U %s "
                    b"/CF << /StdCF << /AuthEvent /DocOpen /CFM /AESV2 /Length 16 >> >> /StmF /StdCF /StrF /StdCF >>"
                    % (PERMS, hx(self.O), hx(self.U)))
        return (b"<< /Filter /Standard /V 5 /R %d /Length 256 /P %d /O %s /U %s /OE %s /UE %s /Perms %s "
                b"/CF << /StdCF << /AuthEvent /DocOpen /CFM /AESV3 /Length 32 >> >> /StmF /StdCF /StrF /StdCF >>"
                % (self.rev, PERMS, hx(self.O), hx(self.U), hx(self.OE), hx(self.UE), hx(self.Perms)))
