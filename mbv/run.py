"""./check entry point: run one property's driver, print verdict lines, write evidence."""
from __future__ import annotations

import argparse
import importlib
import json
import os
import sys
import traceback
from pathlib import Path

from . import VERIF
from .evidence import Evidence
from .findings import Verdicts
from .tlc import MachineryError, Scratch


class Ctx:
    def __init__(self, prop, tier, seed, scratch, replay=None):
        self.prop, self.tier, self.seed, self.scratch, self.replay = prop, tier, seed, scratch, replay
        self.v = Verdicts(prop, seed)
        self.ev = Evidence(prop, tier, seed)
        self.thorough = tier == "thorough"

    def log(self, *a):
        print(f"[{self.prop}]", *a, flush=True)


def main(argv=None) -> int:
    ap = argparse.ArgumentParser()
    ap.add_argument("prop")
    ap.add_argument("--tier", default=os.environ.get("VERIF_TIER", "quick"), choices=["quick", "thorough"])
    ap.add_argument("--replay", default=None)
    a = ap.parse_args(argv)
    prop = a.prop.upper()
    seed = int(os.environ.get("VERIF_SEED", "0") or 0)
    os.environ.setdefault("PYTHONHASHSEED", "0")
    try:
        mod = importlib.import_module(f"mbv.props.{prop.lower()}")
    except ModuleNotFoundError:
        print(f"no driver for {prop}", file=sys.stderr)
        return 2
    with Scratch(prop) as scratch:
        ctx = Ctx(prop, a.tier, seed, scratch, a.replay)
        try:
            mod.run(ctx)
        except MachineryError as e:
            print(f"MACHINERY-FAILURE property={prop}: {e}", file=sys.stderr)
            return 2
        except Exception:
            traceback.print_exc()
            print(f"MACHINERY-FAILURE property={prop}: driver crashed", file=sys.stderr)
            return 2
        rc = ctx.v.finish()
        try:
            ctx.ev.write(violations=len(ctx.v.violations), known=sum(len(h) for h in ctx.v.kf_hits.values()))
        except AssertionError as e:
            print(f"MACHINERY-FAILURE property={prop}: evidence incomplete: {e}", file=sys.stderr)
            return 2
        ctx.log(f"tier={a.tier} seed={seed} ok={ctx.v.ok_n} known={sum(len(h) for h in ctx.v.kf_hits.values())} "
                f"violations={len(ctx.v.violations)} states={ctx.ev.cov['states']} "
                f"replayed={ctx.ev.cov['traces_validated_against_impl']} wall={ctx.ev.cov and round(__import__('time').time()-ctx.ev.t0,1)}s")
        return rc


if __name__ == "__main__":
    sys.exit(main())
