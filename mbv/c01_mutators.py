"""C01: seeds and byte-level / container-aware mutators.  Pure functions of (seed bytes, spec, rng):
the driver only ships (seed id, mutation spec) to the workers; a failing input is re-materialised from the
same pair for the replay file.  No library import in here."""
from __future__ import annotations

import io
import os
import random
import struct
import tarfile
import zipfile
from pathlib import Path

from . import REPO

RES = REPO / "sharepoint2text" / "tests" / "resources"

EXT = {"docx": "docx", "pptx": "pptx", "xlsx": "xlsx", "doc": "doc", "ppt": "ppt", "xls": "xls", "rtf": "rtf",
       "odt": "odt", "ods": "ods", "odp": "odp", "odg": "odg", "odf": "odf", "pdf": "pdf", "html": "html",
       "mhtml": "mhtml", "epub": "epub", "plain": "txt", "eml": "eml", "mbox": "mbox", "msg": "msg",
       "archive": "zip"}
MIME = {"docx": "application/vnd.openxmlformats-officedocument.wordprocessingml.document",
        "pdf": "application/pdf", "plain": "text/plain", "html": "text/html"}

# kind -> seed ids; the FIRST one is the "valid document of that kind" used for crash-point enumeration
SEEDS = {
    "docx": ["gen:docx", "fix:modern_ms/headings.docx"],
    "pptx": ["gen:pptx", "fix:modern_ms/pptx_table.pptx"],
    "xlsx": ["gen:xlsx", "fix:modern_ms/mwe.xlsx", "fix:modern_ms/image_in_excel.xlsx"],
    "doc": ["fix:legacy_ms/Speech_Prime_Minister_of_The_Netherlands_EN.doc", "fix:legacy_ms/headings.doc"],
    "ppt": ["fix:legacy_ms/slide_with_notes.ppt"],
    "xls": ["fix:legacy_ms/mwe.xls", "fix:legacy_ms/xls_with_images.xls"],
    "rtf": ["gen:rtf", "fix:legacy_ms/2025.144.un.rtf"],
    "odt": ["gen:odt", "fix:open_office/sample_document.odt"],
    "ods": ["gen:ods", "fix:open_office/sample_spreadsheet.ods"],
    "odp": ["gen:odp", "fix:open_office/sample_presentation.odp"],
    "odg": ["gen:odg", "fix:open_office/apache_oo/aoo_drawing.odg"],
    "odf": ["fix:open_office/formular.odf", "fix:open_office/apache_oo/aoo_formular.odf"],
    "pdf": ["gen:pdf", "fix:pdf/wirecard-annual-report-2018-page190.pdf"],
    "html": ["gen:html", "fix:html/sample.html"],
    "mhtml": ["gen:mhtml", "fix:html/sample.mhtml"],
    "epub": ["gen:epub", "fix:epub/sample.epub"],
    "plain": ["gen:txt", "gen:csv", "gen:json", "fix:plain_text/plain.tsv"],
    "eml": ["fix:mails/basic_email.eml"],
    "mbox": ["fix:mails/basic_email.mbox"],
    "msg": ["fix:mails/basic_email.msg"],
    "archive": ["fix:archives/sample.zip", "fix:archives/test_archive.7z", "fix:archives/test_archive.tar",
                "fix:archives/test_archive.tar.gz", "fix:archives/test_archive.zip"],
}
PROTECTED = {
    "doc": "fix:legacy_ms/password_protected/doc-password-protected-pw123.doc",
    "docx": "fix:legacy_ms/password_protected/docx-password-protected-pw123.docx",
    "pdf": "fix:legacy_ms/password_protected/pdf-password-protected-pw123.pdf",
    "pptx": "fix:legacy_ms/password_protected/pptx-password-protected-pw123.pptx",
    "xls": "fix:legacy_ms/password_protected/xls-password-protected-pw123.xls",
    "xlsx": "fix:legacy_ms/password_protected/xslx-password-protected-pw123.xlsx",
    "odp": "fix:open_office/password_protected/odp-password-protected-pw123.odp",
    "ods": "fix:open_office/password_protected/ods-password-protected-pw123.ods",
    "odt": "fix:open_office/password_protected/odt-password-protected-pw123.odt",
    "archive": "fix:archives/password_protected/sample-password-protected-pw123.zip",
}
ARCHIVE_EXT = {"fix:archives/sample.zip": "zip", "fix:archives/test_archive.7z": "7z",
               "fix:archives/test_archive.tar": "tar", "fix:archives/test_archive.tar.gz": "tar.gz",
               "fix:archives/test_archive.zip": "zip",
               "fix:archives/password_protected/sample-password-protected-pw123.zip": "zip"}

_cache = {}


def seed_bytes(sid: str) -> bytes:
    b = _cache.get(sid)
    if b is not None:
        return b
    if sid.startswith("fix:"):
        b = (RES / sid[4:]).read_bytes()
    elif sid.startswith("gen:"):
        from .docrun import render, rich_doc
        fmt = sid.split(":")[1]
        b = render(rich_doc(fmt, 0), fmt)
    else:
        raise ValueError(sid)
    _cache[sid] = b
    return b


def seed_ext(sid: str, kind: str) -> str:
    if sid in ARCHIVE_EXT:
        return ARCHIVE_EXT[sid]
    if sid.startswith("gen:") and kind == "plain":
        return sid.split(":")[1]
    if sid.startswith("fix:"):
        name = sid.rsplit("/", 1)[-1]
        if name.endswith(".tar.gz"):
            return "tar.gz"
        return name.rsplit(".", 1)[-1].lower()
    return EXT[kind]


# ------------------------------------------------------------------------------------ byte-level mutators
def geometric_offsets(n: int, steps: int = 14):
    """0, 1, 2, 4, ... and n-1, n-2, n-4, ... and a few midpoints."""
    out = {0, n // 2, n // 3, max(0, n - 1)}
    k = 1
    while k < n:
        out.add(k)
        out.add(n - k)
        k *= 2
    out = sorted(o for o in out if 0 <= o < max(n, 1))
    if len(out) > steps * 2:
        st = len(out) / (steps * 2)
        out = sorted({out[int(i * st)] for i in range(steps * 2)})
    return out


def mutate(data: bytes, spec: list, other: bytes = b"") -> bytes:
    op = spec[0]
    if op == "id":
        return data
    if op == "trunc":
        return data[: spec[1]]
    if op == "flip":                                   # single bit
        off, bit = spec[1], spec[2]
        if not data:
            return data
        off %= len(data)
        b = bytearray(data)
        b[off] ^= 1 << bit
        return bytes(b)
    if op == "burst":                                  # n random bytes starting at off, from seed rs
        off, n, rs = spec[1], spec[2], spec[3]
        if not data:
            return data
        off %= len(data)
        r = random.Random(rs)
        b = bytearray(data)
        for i in range(off, min(len(b), off + n)):
            b[i] = r.randrange(256)
        return bytes(b)
    if op == "zero":
        off, n = spec[1], spec[2]
        if not data:
            return data
        off %= len(data)
        b = bytearray(data)
        b[off:off + n] = bytes(min(n, len(b) - off))
        return bytes(b)
    if op == "fill":                                   # 0xFF range
        off, n = spec[1], spec[2]
        if not data:
            return data
        off %= len(data)
        b = bytearray(data)
        b[off:off + n] = b"\xff" * min(n, len(b) - off)
        return bytes(b)
    if op == "splice":                                 # head of this seed + tail of another
        a, bb = spec[1], spec[2]
        return data[: a % (len(data) + 1)] + other[bb % (len(other) + 1):]
    if op == "insert":
        off, n, rs = spec[1], spec[2], spec[3]
        r = random.Random(rs)
        off %= (len(data) + 1)
        return data[:off] + bytes(r.randrange(256) for _ in range(n)) + data[off:]
    if op == "dup":                                    # duplicate a range (lengths disagree afterwards)
        off, n = spec[1], spec[2]
        off %= (len(data) + 1)
        return data[:off] + data[off:off + n] * 2 + data[off + n:]
    if op == "const":
        return CONSTS[spec[1]]
    if op == "olevec":
        # KF-C01-01 witness: TitlesOfParts (VT_VECTOR|VT_LPSTR) of \x05DocumentSummaryInformation becomes
        # VT_VECTOR|VT_I8 (an element type olefile does not decode) with spec[1] elements
        i = data.find(bytes.fromhex("1e100000"))
        if i < 0:
            return data
        return data[:i] + struct.pack("<II", 0x1014, spec[1]) + data[i + 8:]
    if op == "dupspan":                                # copy a span OVER a later offset (length preserved)
        a, n, b = spec[1], spec[2], spec[3]
        if len(data) < 2:
            return data
        a %= len(data)
        span = data[a:a + n]
        b = a + len(span) + (b % max(1, len(data) - a - len(span) + 1))
        span = span[: max(0, len(data) - b)]
        return data[:b] + span + data[b + len(span):]
    if op == "oledup":                                 # the same inside ONE stream of an OLE2 file (shell untouched)
        return ole_dup_span(data, spec[1], spec[2], spec[3], spec[4])
    if op == "olepics":                                # identical pictures planted in a stream of an OLE2 file
        return ole_plant_pictures(data, spec[1], spec[2], spec[3])
    if op == "compress":                               # gz / bz2 / xz of the bytes (NOT a tar inside)
        import bz2
        import gzip
        import lzma
        return {"gz": lambda d: gzip.compress(d, mtime=0), "bz2": bz2.compress, "xz": lzma.compress}[spec[1]](data)
    if op == "plant":                                  # a hostile TOKEN of the format's own grammar, in context
        return plant_token(data, spec[1], spec[2], spec[3])
    if op == "zipsub":                                 # regex substitution inside the parts of a ZIP container
        return zip_sub(data, spec[1], spec[2], spec[3], spec[4] if len(spec) > 4 else 1)
    if op == "zipenc":                                 # valid ZIP whose members carry the "encrypted" flag bit
        return zip_flag_encrypted(build_archive("zip", [(n, data) for n in spec[1]]))
    if op == "olerec":                                 # one 8-byte record header inside an OLE stream, edited in place
        return ole_record_edit(data, spec[1], spec[2], spec[3], spec[4])
    if op == "run":                                    # 0.5 - 1 MB of almost-matching prefixes for a pre-scan regex
        return near_match_run(spec[1], spec[2])
    if op == "append":                                 # stray bytes after the end of the file
        r = random.Random(spec[2])
        return data + bytes(r.randrange(256) for _ in range(spec[1]))
    if op == "olestream":                              # the bare content of one OLE stream (no container around it)
        pk = _pick_stream(data, spec[1])
        return _ole_read(data, pk[1]) if pk else data
    if op == "olecycle":                               # OLE2 allocation / directory structures that point to themselves
        return ole_cycle(data, spec[1], spec[2])
    if op == "selfref":                                # hand-built containers whose structure refers to itself
        return SELFREF[spec[1]]()
    if op == "omml":                                   # DOCX / PPTX with a formula nesting one OMML construct n deep
        return omml_document(data, spec[1], spec[2], spec[3])
    if op == "surr":                                   # multi-result inputs whose k-th result cannot be encoded
        return surrogate_input(spec[1])
    if op == "himg":                                   # the hostile image itself (for the sniffers)
        return HOSTILE_IMAGES[spec[1]]
    if op == "zipimg":                                 # every raster media part of a ZIP container replaced
        return zip_images(data, HOSTILE_IMAGES[spec[1]])
    if op == "rtfpict":                                # RTF with a \\pict group holding the hostile image (hex)
        return rtf_with_picture(HOSTILE_IMAGES[spec[1]], spec[2])
    if op == "epubimg":                                # EPUB whose manifest lists the hostile image
        return epub_with_image(HOSTILE_IMAGES[spec[1]], spec[2])
    if op == "imgpatch":                               # raw image embedded in an OLE / PDF / any container, in place
        return patch_embedded_image(data, HOSTILE_IMAGES[spec[1]], spec[2])
    if op == "zipshell":
        return zip_shell(data, spec[1], spec[2], spec[3])
    if op == "ziphdr":
        return zip_header_attack(data, spec[1], spec[2])
    raise ValueError(op)


CONSTS = {
    "empty": b"",
    "nul": b"\x00",
    "nul4k": b"\x00" * 4096,
    "ff4k": b"\xff" * 4096,
    "pk": b"PK\x03\x04",
    "pkend": b"PK\x05\x06" + b"\x00" * 18,
    "ole": bytes.fromhex("d0cf11e0a1b11ae1"),
    "ole512": bytes.fromhex("d0cf11e0a1b11ae1") + b"\x00" * 504,
    "pdfhdr": b"%PDF-1.7\n",
    "pdfeof": b"%PDF-1.4\n%%EOF\n",
    "pdfxref": b"%PDF-1.4\nxref\n0 1\n0000000000 65535 f \ntrailer\n<< /Size 1 /Root 1 0 R >>\nstartxref\n9\n%%EOF\n",
    # PDF structures that send a naive reader in circles: /Prev pointing at its own xref, a page tree whose kid is
    # its own parent, an object stream that contains itself
    "pdfprev": (b"%PDF-1.4\n1 0 obj\n<< /Type /Catalog /Pages 2 0 R >>\nendobj\n2 0 obj\n<< /Type /Pages /Kids [] /Count 0 >>\n"
                b"endobj\nxref\n0 3\n0000000000 65535 f \n0000000009 00000 n \n0000000058 00000 n \ntrailer\n"
                b"<< /Size 3 /Root 1 0 R /Prev 109 >>\nstartxref\n109\n%%EOF\n"),
    "pdfkids": (b"%PDF-1.4\n1 0 obj\n<< /Type /Catalog /Pages 2 0 R >>\nendobj\n2 0 obj\n<< /Type /Pages /Kids [2 0 R 2 0 R] "
                b"/Count 2 /Parent 2 0 R >>\nendobj\nxref\n0 3\n0000000000 65535 f \n0000000009 00000 n \n0000000058 00000 n \n"
                b"trailer\n<< /Size 3 /Root 1 0 R >>\nstartxref\n134\n%%EOF\n"),
    "pdfcount": (b"%PDF-1.4\n1 0 obj\n<< /Type /Catalog /Pages 2 0 R >>\nendobj\n2 0 obj\n<< /Type /Pages /Kids [3 0 R] "
                 b"/Count 2000000000 >>\nendobj\n3 0 obj\n<< /Type /Page /Parent 2 0 R /MediaBox [0 0 9 9] >>\nendobj\nxref\n0 4\n"
                 b"0000000000 65535 f \n0000000009 00000 n \n0000000058 00000 n \n0000000122 00000 n \ntrailer\n"
                 b"<< /Size 4 /Root 1 0 R >>\nstartxref\n188\n%%EOF\n"),
    # a page without /Resources whose /Parent chain never ends (KF-C01-03)
    "pdfparent": (b"%PDF-1.4\n1 0 obj\n<< /Type /Catalog /Pages 2 0 R >>\nendobj\n2 0 obj\n<< /Type /Pages /Kids [3 0 R] /Count 1 >>\n"
                  b"endobj\n3 0 obj\n<< /Type /Page /Parent 3 0 R /Contents 4 0 R >>\nendobj\n4 0 obj\n<< /Length 12 >>\nstream\n"
                  b"BT (x) Tj ET\nendstream\nendobj\nxref\n0 5\n0000000000 65535 f \n0000000009 00000 n \n0000000058 00000 n \n"
                  b"0000000115 00000 n \n0000000180 00000 n \ntrailer\n<< /Size 5 /Root 1 0 R >>\nstartxref\n242\n%%EOF\n"),
    "pdfref": b"%PDF-1.4\n1 0 obj\n1 0 R\nendobj\ntrailer\n<< /Root 1 0 R /Size 2 >>\n%%EOF\n",
    "rtfopen": b"{\\rtf1" + b"{" * 3000,
    "rtfdeep": b"{\\rtf1 " + b"{\\b x" * 5000 + b"}" * 5000 + b"}",
    "rtfbin": b"{\\rtf1 \\bin99999999 abc}",
    "rtfuni": b"{\\rtf1 \\u-10240? \\u55296? \\'zz \\u99999999999999999999?}",
    "htmldeep": b"<div>" * 20000 + b"x",
    "htmlent": b"<p>&#xFFFFFFFF;&#99999999999;&bogus;&#x;&</p><!-- unterminated",
    "xmlbomb": b'<?xml version="1.0"?><!DOCTYPE l [<!ENTITY a "aaaaaaaaaa"><!ENTITY b "&a;&a;&a;&a;&a;&a;&a;&a;">'
               b'<!ENTITY c "&b;&b;&b;&b;&b;&b;&b;&b;">]><l>&c;</l>',
    "utf16": "﻿hello ퟿ world".encode("utf-16"),
    "latin": bytes(range(256)) * 4,
    "mboxfrom": b"From \nFrom \nFrom x\n\n" * 50,
    "emlnest": (b"Content-Type: multipart/mixed; boundary=b\n\n" + b"--b\nContent-Type: message/rfc822\n\n") * 120,
    "emlbad": b"Content-Type: text/plain; charset=\"no-such-charset\"\nContent-Transfer-Encoding: base64\n"
              b"Subject: =?utf-8?b?////?= =?bogus?q?x?=\nDate: not a date\nFrom: <<<>>>\n\n!!!!not base64!!!!\n",
    "gz": b"\x1f\x8b\x08\x00" + b"\x00" * 20,
    "bz": b"BZh9" + b"\x17\x72\x45\x38\x50\x90" + b"\x00" * 8,
    "xz": b"\xfd7zXZ\x00" + b"\x00" * 16,
    "7zhdr": b"7z\xbc\xaf\x27\x1c\x00\x04" + b"\x00" * 24,
    "7zbig": b"7z\xbc\xaf\x27\x1c\x00\x04" + b"\x00" * 4 + struct.pack("<QQI", 2 ** 62, 2 ** 62, 0),
    "tar0": b"\x00" * 1024,
    "tarhdr": (b"a.txt" + b"\x00" * 95 + b"0000644\x00" + b"0000000\x00" * 2 + b"77777777777\x00" + b"00000000000\x00"
               + b"        " + b"0" + b"\x00" * 100 + b"ustar\x00" + b"00" + b"\x00" * 247),
}


# ------------------------------------------------------------------------------ container-aware mutators
HOSTILE_XML = {
    "empty": b"",
    "notxml": b"\x00\x01\x02 not xml at all <<<<",
    "unclosed": b'<?xml version="1.0"?><a><b><c>',
    "entity": CONSTS["xmlbomb"],
    "deep": b"<a>" * 3000 + b"</a>" * 3000,
    "wrongroot": b'<?xml version="1.0" encoding="UTF-8"?><nothing xmlns="urn:x"/>',
    "badenc": b'<?xml version="1.0" encoding="no-such-enc"?><a/>',
    "utf16": '<?xml version="1.0" encoding="UTF-16"?><a>x</a>'.encode("utf-16"),
    "nsless": b'<?xml version="1.0"?><document><body><p><r><t>x</t></r></p></body></document>',
    "attrs": b'<?xml version="1.0"?><a ' + b" ".join(b'x%d="1"' % i for i in range(3000)) + b"/>",
}


def zip_shell(data: bytes, which: str, how: str, rs: int) -> bytes:
    """Keep the ZIP shell valid (central directory, CRCs recomputed), replace / drop / add parts.
    which: 'content_types' | 'rels' | 'main' | 'all_xml' | 'first' | 'random'; how: key of HOSTILE_XML |
    'drop' | 'dir' | 'dupname' | 'longname' | 'abs' | 'dotdot'."""
    r = random.Random(rs)
    try:
        zin = zipfile.ZipFile(io.BytesIO(data))
        items = [(i, zin.read(i)) for i in zin.infolist()]
    except Exception:
        return data
    names = [i.filename for i, _ in items]

    def pick():
        if which == "content_types":
            return [n for n in names if n in ("[Content_Types].xml", "mimetype", "META-INF/manifest.xml",
                                              "META-INF/container.xml")]
        if which == "rels":
            return [n for n in names if n.endswith(".rels") or n.endswith(".opf") or n.endswith("manifest.xml")]
        if which == "main":
            return [n for n in names if n in ("word/document.xml", "ppt/presentation.xml", "xl/workbook.xml",
                                              "content.xml", "xl/sharedStrings.xml", "styles.xml", "meta.xml",
                                              "docProps/core.xml", "xl/worksheets/sheet1.xml",
                                              "ppt/slides/slide1.xml")]
        if which == "all_xml":
            return [n for n in names if n.endswith((".xml", ".rels", ".xhtml", ".html", ".opf", ".ncx"))]
        if which == "first":
            return names[:1]
        return [r.choice(names)] if names else []
    targets = set(pick())
    if which in ("main", "rels", "all_xml") and len(targets) > 1 and how != "drop":
        targets = {r.choice(sorted(targets))} if which != "all_xml" else targets
    out = io.BytesIO()
    with zipfile.ZipFile(out, "w", zipfile.ZIP_DEFLATED) as z:
        for info, content in items:
            n = info.filename
            if n in targets:
                if how == "drop":
                    continue
                if how == "dir":
                    z.writestr(n + "/", b"")
                    continue
                if how == "dupname":
                    z.writestr(n, content)
                    import warnings
                    with warnings.catch_warnings():
                        warnings.simplefilter("ignore")
                        z.writestr(n, HOSTILE_XML["unclosed"])
                    continue
                if how == "longname":
                    z.writestr(n, content)
                    z.writestr("x" * 300 + "/" + "y" * 300 + ".xml", b"<a/>")
                    continue
                if how == "nlname":
                    z.writestr(n, content)
                    z.writestr(n.rsplit("/", 1)[0] + "/li\nne\rbreak\x1b[0m.xml" if "/" in n else "li\nne.xml", b"<a/>")
                    continue
                if how == "abs":
                    z.writestr("/" + n, content)
                    continue
                if how == "dotdot":
                    z.writestr("../" + n, content)
                    continue
                z.writestr(n, HOSTILE_XML[how])
            else:
                z.writestr(n, content)
    return out.getvalue()


def zip_header_attack(data: bytes, how: str, rs: int) -> bytes:
    """Edit the raw ZIP structures: central-directory sizes / offsets / methods / flags / counts."""
    r = random.Random(rs)
    b = bytearray(data)
    cds = []
    i = b.find(b"PK\x01\x02")
    while i >= 0:
        cds.append(i)
        i = b.find(b"PK\x01\x02", i + 4)
    eocd = b.rfind(b"PK\x05\x06")
    if not cds or eocd < 0:
        return data
    cd = r.choice(cds)
    if how == "method":                                # unsupported compression method
        struct.pack_into("<H", b, cd + 10, r.choice([1, 6, 9, 12, 14, 93, 95, 97, 99, 0xFFFF]))
    elif how == "flags":                               # encrypted / data descriptor / utf8 / strong enc
        struct.pack_into("<H", b, cd + 8, r.choice([0x1, 0x8, 0x41, 0x800, 0x2000, 0xFFFF]))
    elif how == "usize":
        struct.pack_into("<I", b, cd + 24, r.choice([0, 1, 0x7FFFFFFF, 0xFFFFFFFF, 3 * 1024 ** 3]))
    elif how == "csize":
        struct.pack_into("<I", b, cd + 20, r.choice([0, 1, 0x7FFFFFFF, 0xFFFFFFFF]))
    elif how == "offset":
        struct.pack_into("<I", b, cd + 42, r.choice([0, 1, len(b), 0xFFFFFFF0, eocd]))
    elif how == "crc":
        struct.pack_into("<I", b, cd + 16, r.getrandbits(32))
    elif how == "namelen":
        struct.pack_into("<H", b, cd + 28, r.choice([0, 1, 0xFFFF]))
    elif how == "count":
        struct.pack_into("<H", b, eocd + 8, r.choice([0, 1, 0xFFFF]))
        struct.pack_into("<H", b, eocd + 10, r.choice([0, 1, 0xFFFF]))
    elif how == "cdoff":
        struct.pack_into("<I", b, eocd + 16, r.choice([0, 1, len(b), 0xFFFFFFFF]))
    elif how == "cdsize":
        struct.pack_into("<I", b, eocd + 12, r.choice([0, 1, 0xFFFFFFFF]))
    elif how == "comment":
        struct.pack_into("<H", b, eocd + 20, 0xFFFF)
    elif how == "cdself":                              # the member's "local header" is its own central-directory record
        struct.pack_into("<I", b, cd + 42, cd)
    elif how == "eocdself":                            # the central directory starts at the end record itself
        struct.pack_into("<I", b, eocd + 16, eocd)
    elif how == "zip64":
        struct.pack_into("<I", b, cd + 24, 0xFFFFFFFF)
        struct.pack_into("<I", b, cd + 20, 0xFFFFFFFF)
        struct.pack_into("<I", b, cd + 42, 0xFFFFFFFF)
    return bytes(b)


ZIP_HDR_HOWS = ["method", "flags", "usize", "csize", "offset", "crc", "namelen", "count", "cdoff", "cdsize",
                "comment", "zip64", "cdself", "eocdself"]
ZIP_SHELL_HOWS = list(HOSTILE_XML) + ["drop", "dir", "dupname", "longname", "nlname", "abs", "dotdot"]
ZIP_SHELL_WHICH = ["content_types", "rels", "main", "all_xml", "first", "random"]


# ------------------------------------------------------------------------------------------- archives
def build_archive(fmt: str, members: list) -> bytes:
    """members: [(name, bytes)] -> zip / tar / tar.gz / tar.bz2 / tar.xz bytes (valid shell)."""
    out = io.BytesIO()
    if fmt == "zip":
        with zipfile.ZipFile(out, "w", zipfile.ZIP_DEFLATED) as z:
            for n, d in members:
                z.writestr(n, d)
        return out.getvalue()
    mode = {"tar": "w", "tar.gz": "w:gz", "tar.bz2": "w:bz2", "tar.xz": "w:xz"}[fmt]
    with tarfile.open(fileobj=out, mode=mode) as t:
        for n, d in members:
            ti = tarfile.TarInfo(n)
            ti.size = len(d)
            t.addfile(ti, io.BytesIO(d))
    return out.getvalue()


HOSTILE_MEMBER_NAMES = ["../../evil.txt", "/abs/evil.txt", "a/" * 60 + "deep.txt", "x" * 250 + ".txt",
                        "weird\x00name.txt", "café.docx", ".hidden.txt", "__MACOSX/._a.docx", "dir/",
                        "no_extension", "a.zip", "b.tar.gz", "c.DOCX", "d.txt ", "e..txt", "con.txt"]


# ------------------------------------------------------------- KF-C01-01 domain evidence (mirrors olefile 0.47)
_OLE_DECODED = {2, 18, 3, 22, 10, 19, 23, 8, 30, 65, 31, 64, 17, 72, 71, 11}


def ole_vector_evidence(data: bytes) -> dict:
    """What olefile.getproperties() would meet in \\x05SummaryInformation / \\x05DocumentSummaryInformation:
    the largest element count of a VT_VECTOR property whose element type it does not decode (such a property is
    walked `count` times without consuming input).  Fields of the Timeout event that TLC evaluates."""
    out = {"ole": False, "vec": False, "known": True, "cntk": 0}
    try:
        import olefile
        if not olefile.isOleFile(io.BytesIO(data)):
            return out
        ole = olefile.OleFileIO(io.BytesIO(data))
    except Exception:
        return out
    out["ole"] = True
    for name in ("\x05SummaryInformation", "\x05DocumentSummaryInformation"):
        try:
            if not ole.exists(name):
                continue
            fp = ole.openstream(name)
            fp.read(28)
            hdr = fp.read(20)
            fp.seek(struct.unpack("<I", hdr[16:20])[0])
            size = struct.unpack("<I", fp.read(4))[0]
            sec = b"****" + fp.read(max(size - 4, 0))
            nprops = min(struct.unpack("<I", sec[4:8])[0], len(sec) // 8)
            for i in range(nprops):
                try:
                    off = struct.unpack("<I", sec[12 + i * 8:16 + i * 8])[0]
                    ptype = struct.unpack("<I", sec[off:off + 4])[0]
                    if not (ptype & 0x1000) or ptype == 0x100C or ptype <= 65 or ptype in (72, 71):
                        continue
                    cnt = struct.unpack("<I", sec[off + 4:off + 8])[0]
                    if (ptype & ~0x1000) in _OLE_DECODED:
                        continue                       # decoded element types consume input and run off the end
                    out["vec"] = True
                    out["known"] = False
                    out["cntk"] = max(out["cntk"], cnt // 1024)
                except struct.error:
                    continue
        except Exception:
            continue
    return out


# ------------------------------------------------------- KF-C01-02 / KF-C01-03 domain evidence (PDF structure cycles)
import re as _re

_PREV = _re.compile(rb"/Prev\s+(\d+)")
_OBJ = _re.compile(rb"(\d+)\s+(\d+)\s+obj\b(.*?)endobj", _re.S)
_PARENT = _re.compile(rb"/Parent\s+(\d+)\s+\d+\s+R")


def pdf_cycle_evidence(data: bytes) -> dict:
    """prevcycle: the chain startxref -> trailer /Prev -> ... revisits an offset (pypdf's
    _read_xref_tables_and_trailers follows it without a visited set);  parentcycle: an object without /Resources
    whose /Parent chain (through objects without /Resources) revisits an object (pypdf's _extract_text walks it
    looking for inherited resources)."""
    out = {"pdf": data[:1024].find(b"%PDF-") >= 0, "prevcycle": False, "parentcycle": False}
    if not out["pdf"]:
        return out
    m = list(_re.finditer(rb"startxref\s+(\d+)", data))
    if m:
        off = int(m[-1].group(1))
        seen = set()
        for _ in range(10000):
            if off in seen:
                out["prevcycle"] = True
                break
            seen.add(off)
            if off < 0 or off >= len(data):
                break
            chunk = data[off:off + 65536]
            end = chunk.find(b"startxref")
            if chunk.lstrip()[:4] == b"xref":
                t = chunk.find(b"trailer")
                if t < 0:
                    break
                seg = chunk[t:end if end > t else t + 4096]
            else:
                e2 = chunk.find(b"stream")
                seg = chunk[:e2 if e2 > 0 else 4096]
            pm = _PREV.search(seg)
            if not pm:
                break
            off = int(pm.group(1))
    objs = {}
    for om in _OBJ.finditer(data[:4_000_000]):
        objs[int(om.group(1))] = om.group(3)
    for n, body in objs.items():
        if b"/Resources" in body or b"/Parent" not in body:
            continue
        cur, seen = n, set()
        for _ in range(10000):
            if cur in seen:
                out["parentcycle"] = True
                break
            seen.add(cur)
            b = objs.get(cur)
            if b is None or b"/Resources" in b:
                break
            pm = _PARENT.search(b)
            if not pm:
                break
            cur = int(pm.group(1))
        if out["parentcycle"]:
            break
    return out


# --------------------------------------------------------------- image-header-aware mutants of EMBEDDED images
# The dimension sniffers (util/image_utils.get_image_dimensions / get_jpeg_dimensions, the copies
# _get_image_pixel_dimensions in docx / pptx / xlsx, doc_extractor's PNG chunk walker) read segment / chunk lengths
# from the image bytes; byte-level mutation of the container almost never produces a well-formed container around a
# hostile image header, so these are built on purpose.
_SOI = b"\xff\xd8"
_APP0 = b"\xff\xe0\x00\x10JFIF\x00\x01\x01\x00\x00\x01\x00\x01\x00\x00"
_SOF0 = b"\xff\xc0\x00\x11\x08\x00\x06\x00\x09\x03\x01\x11\x00\x02\x11\x00\x03\x11\x00"
_EOI = b"\xff\xd9"
_PNGSIG = b"\x89PNG\r\n\x1a\n"


def _png_chunk(t, d, length=None):
    import zlib as _z
    return struct.pack(">I", len(d) if length is None else length) + t + d + struct.pack(">I", _z.crc32(t + d) & 0xFFFFFFFF)


_IHDR = struct.pack(">IIBBBBB", 7, 5, 8, 2, 0, 0, 0)
HOSTILE_IMAGES = {
    # JPEG: marker segments whose length field is illegal, absent, or lies
    "j_len0": _SOI + b"\xff\xe0\x00\x00" + b"JFIF\x00" + b"\x11" * 40 + _EOI,          # length 0 (minimum is 2), no SOF
    "j_len0_sof": _SOI + b"\xff\xe0\x00\x00" + _SOF0 + _EOI,                          # length 0 right before the SOF
    "j_len1": _SOI + b"\xff\xe1\x00\x01" + b"\x22" * 30 + _SOF0 + _EOI,
    "j_len2chain": _SOI + b"\xff\xe2\x00\x02" * 300 + _SOF0 + _EOI,                   # 300 empty segments
    "j_len0chain": _SOI + b"\xff\xe1\x00\x00" * 60 + _EOI,
    "j_lenmax": _SOI + b"\xff\xe0\xff\xff" + b"\x33" * 50 + _EOI,                       # length beyond the data
    "j_trunc_len": _SOI + b"\xff\xe0\x00",                                              # ends inside the length field
    "j_trunc_sof": _SOI + _APP0 + b"\xff\xc0\x00\x11\x08\x00",                        # ends inside the SOF
    "j_pad": _SOI + b"\xff" * 200 + b"\xe0\x00\x10" + b"\x00" * 14 + _SOF0 + _EOI,       # fill bytes before a marker
    "j_allff": _SOI + b"\xff" * 4000,
    "j_nomarker": _SOI + b"\x00" * 4000,
    "j_sof_zero": _SOI + _APP0 + b"\xff\xc0\x00\x11\x08\x00\x00\x00\x00\x03" + b"\x01\x11\x00" * 3 + _EOI,
    "j_sof_len0": _SOI + _APP0 + b"\xff\xc2\x00\x00\x08\x00\x06\x00\x09\x03" + b"\x01\x11\x00" * 3 + _EOI,
    "j_sos_first": _SOI + b"\xff\xda\x00\x00" + b"\x55" * 100 + _SOF0 + _EOI,
    "j_soi_only": _SOI + b"\xff",
    "j_valid": _SOI + _APP0 + _SOF0 + _EOI,
    # PNG: chunk lengths and IHDR
    "p_lenmax": _PNGSIG + _png_chunk(b"IHDR", _IHDR, 0xFFFFFFFF) + _png_chunk(b"IEND", b""),
    "p_len0": _PNGSIG + _png_chunk(b"IHDR", _IHDR, 0) + _png_chunk(b"IEND", b""),
    "p_noihdr": _PNGSIG + _png_chunk(b"IDAT", b"\x00" * 20) + _png_chunk(b"IEND", b""),
    "p_trunc": _PNGSIG + b"\x00\x00\x00\x0dIH",
    "p_zero": _PNGSIG + _png_chunk(b"IHDR", struct.pack(">IIBBBBB", 0, 0, 8, 2, 0, 0, 0)) + _png_chunk(b"IEND", b""),
    "p_huge": _PNGSIG + _png_chunk(b"IHDR", struct.pack(">IIBBBBB", 0xFFFFFFFF, 0xFFFFFFFF, 8, 2, 0, 0, 0)),
    "p_chunks0": _PNGSIG + _png_chunk(b"IHDR", _IHDR) + (b"\x00\x00\x00\x00tEXt" + b"\x00" * 4) * 200,
    "p_chunkneg": _PNGSIG + _png_chunk(b"tEXt", b"a", 0x80000000) + _png_chunk(b"IHDR", _IHDR),
    # GIF / BMP / TIFF / DIB header fields
    "g_short": b"GIF89a\x01",
    "g_zero": b"GIF89a\x00\x00\x00\x00\x00\x00\x00;",
    "g_max": b"GIF87a\xff\xff\xff\xff\xf7\x00\x00" + b"\x00" * 30,
    "b_neg": b"BM" + struct.pack("<IHHI", 70, 0, 0, 54) + struct.pack("<IiiHHIIiiII", 40, -2147483648, -2147483648, 1, 24, 0, 0, 0, 0, 0, 0),
    "b_trunc": b"BM" + struct.pack("<IHHI", 70, 0, 0, 54) + b"\x28\x00\x00",
    "b_hdr0": b"BM" + struct.pack("<IHHI", 0, 0, 0, 0) + struct.pack("<IiiHH", 0, 1, 1, 0, 0) + b"\x00" * 24,
    "t_le": b"II\x2a\x00\x08\x00\x00\x00\xff\xff" + b"\x00" * 30,
    "t_be": b"MM\x00\x2a\xff\xff\xff\xff",
    "dib_bpp": struct.pack("<IiiHHIIiiII", 40, 3, 3, 1, 3, 0, 0, 0, 0, 0, 0) + b"\x00" * 40,
}
JPEG_HOSTILE = [k for k in HOSTILE_IMAGES if k.startswith("j_")]
_RASTER_EXT = (".png", ".jpg", ".jpeg", ".gif", ".bmp", ".tif", ".tiff", ".emf", ".wmf")


def zip_images(data: bytes, img: bytes) -> bytes:
    """every raster media part of a ZIP container (OOXML media/, ODF Pictures/, EPUB images) becomes `img`."""
    try:
        zin = zipfile.ZipFile(io.BytesIO(data))
        items = [(i, zin.read(i)) for i in zin.infolist()]
    except Exception:
        return data
    out = io.BytesIO()
    with zipfile.ZipFile(out, "w", zipfile.ZIP_DEFLATED) as z:
        for info, content in items:
            if info.filename.lower().endswith(_RASTER_EXT):
                content = img
            if info.filename == "mimetype":
                z.writestr(zipfile.ZipInfo("mimetype"), content)
            else:
                z.writestr(info.filename, content)
    return out.getvalue()


def rtf_with_picture(img: bytes, blip: str) -> bytes:
    return ("{\\rtf1\\ansi\\deff0{\\fonttbl{\\f0 Arial;}}\n\\pard Picture follows\\par\n"
            "{\\pict\\" + blip + "\\picw100\\pich100\\picwgoal1500\\pichgoal1500 " + img.hex() + "}\n"
            "\\pard After the picture\\par\n}\n").encode("ascii")


def epub_with_image(img: bytes, media: str) -> bytes:
    from .docrun import rich_doc
    from .writers import web
    ext = {"image/jpeg": "jpg", "image/png": "png", "image/gif": "gif", "image/bmp": "bmp"}.get(media, "bin")
    return web.write_epub({"chapters": [rich_doc("epub", 0)], "props": {"title": "t"},
                           "images": [{"part": f"OEBPS/img/a.{ext}", "data": img, "href": f"img/a.{ext}", "media": media}]})


def patch_embedded_image(data: bytes, img: bytes, nth: int) -> bytes:
    """overwrite, in place, the start of the nth raw JPEG / PNG found in the container (OLE BLIP records, PDF
    DCTDecode streams): sizes and the container's own structures stay as they are."""
    import re
    hits = [m.start() for m in re.finditer(b"\xff\xd8\xff|\x89PNG\r\n\x1a\n", data)]
    if not hits:
        return data
    at = hits[nth % len(hits)]
    img = img[: len(data) - at]
    return data[:at] + img + data[at + len(img):]


# ------------------------------------------------------------------- OLE2 stream-level mutation (shell untouched)
OLE_STREAMS = ["WordDocument", "Data", "1Table", "0Table", "Workbook", "Book", "PowerPoint Document", "Pictures"]


def _ole_stream_map(data: bytes, name: str):
    """file offsets of the sectors of a (regular, non-mini) stream, its size and the sector size; None if absent."""
    try:
        import olefile
        ole = olefile.OleFileIO(io.BytesIO(data))
        if not ole.exists(name):
            return None
        e = ole.direntries[ole._find(name)]
        if e.size < ole.minisectorcutoff:
            return None
        ss, sect, offs = ole.sectorsize, e.isectStart, []
        while sect not in (0xFFFFFFFE, 0xFFFFFFFF) and len(offs) <= (len(data) // ss) + 1:
            offs.append((sect + 1) * ss)
            if sect >= len(ole.fat):
                break
            sect = ole.fat[sect]
        return offs, min(e.size, len(offs) * ss), ss
    except Exception:
        return None


def _ole_read(data, m):
    offs, size, ss = m
    return b"".join(data[o:o + ss] for o in offs)[:size]


def _ole_write(data, m, stream: bytes):
    offs, size, ss = m
    b = bytearray(data)
    for k, o in enumerate(offs):
        part = stream[k * ss:(k + 1) * ss]
        if o + len(part) <= len(b):
            b[o:o + len(part)] = part
    return bytes(b)


def _pick_stream(data, which):
    names = [which] if which in OLE_STREAMS else OLE_STREAMS
    best = None
    for n in names:
        m = _ole_stream_map(data, n)
        if m and (best is None or m[1] > best[1][1]):
            best = (n, m)
        if m and which == "first":
            return n, m
    return best


def ole_dup_span(data: bytes, which: str, a: int, n: int, gap: int) -> bytes:
    """copy a span of a stream over a later offset of the SAME stream (gap 0 = adjacent): an embedded picture /
    record then occurs twice, byte-identical; FAT, directory and all sizes stay as they are."""
    pk = _pick_stream(data, which)
    if not pk:
        return data
    _, m = pk
    st = _ole_read(data, m)
    if len(st) < 256:
        return data
    a %= len(st) - 128
    span = st[a:a + n]
    b = a + len(span) + gap
    span = span[: max(0, len(st) - b)]
    st2 = st[:b] + span + st[b + len(span):]
    return _ole_write(data, m, st2)


def _dib(w=8, h=8, bpp=24, seed=0, size_field=True):
    row = ((bpp * w + 31) // 32) * 4
    pix = bytes(((x * 37 + seed * 11 + 5) % 200) + 41 for x in range(row * h))     # never contains 28 00 00 00
    table = b"".join(bytes((i, i, i, 0)) for i in range(1 << bpp)) if bpp <= 8 else b""
    return struct.pack("<IiiHHIIiiII", 40, w, h, 1, bpp, 0, len(pix) if size_field else 0, 2835, 2835, 0, 0) + table + pix


def picture_blocks(kind: str) -> bytes:
    """the same picture two or three times: adjacent, separated, the last copy cut short."""
    from .writers.images import png
    pics = {"dib": _dib(), "dib8": _dib(6, 5, 8, 1), "dib0": _dib(9, 4, 24, 2, size_field=False), "png": png(5, 4, 3),
            "jpeg": HOSTILE_IMAGES["j_valid"]}
    shape, pic = kind.split(":")
    p = pics[pic]
    gap = b"\x20" * 37
    if shape == "adjacent":
        return p + p
    if shape == "separated":
        return p + gap + p
    if shape == "triple":
        return p + p + gap + p
    if shape == "cut":                      # the second copy ends in the middle of its pixel data
        return p + gap + p[: len(p) // 2]
    if shape == "cutsame":                  # complete, complete, then a third copy cut short
        return p + p + p[: 40 + 7]
    if shape == "two":                      # two DIFFERENT pictures, each twice, interleaved
        q = _dib(7, 7, 24, 9)
        return p + q + p + q
    raise ValueError(kind)


PICTURE_KINDS = [f"{s_}:{p_}" for s_ in ("adjacent", "separated", "triple", "cut", "cutsame", "two")
                 for p_ in ("dib", "dib8", "dib0", "png", "jpeg")]


def ole_plant_pictures(data: bytes, which: str, kind: str, at_permille: int) -> bytes:
    """overwrite a span of one stream (default: the largest, for a .doc the WordDocument stream) with a block of
    identical pictures; the first 2 KiB of the stream (FIB / headers) are left alone."""
    pk = _pick_stream(data, which)
    if not pk:
        return data
    _, m = pk
    st = _ole_read(data, m)
    blk = picture_blocks(kind)
    if len(st) < 2048 + len(blk) + 64:
        return data
    at = 2048 + (len(st) - 2048 - len(blk) - 32) * (at_permille % 1000) // 1000
    st2 = st[:at] + blk + st[at + len(blk):]
    return _ole_write(data, m, st2)


# ------------------------------------------------------------------ grammar-aware tokens for the hand-written tokenisers
BIG = [str(2 ** 60), str(2 ** 63), str(10 ** 30), "-1", "0", "x", "1e9", "", "-" + str(2 ** 60)]
TOKENS = {
    # RTF: control symbols / words with malformed parameters, unbalanced groups, truncated escapes
    "rtf": [b"\\'zz", b"\\'g1", b"\\'4", b"\\'", b"\\'4}", b"{\\'}", b"\\u", b"\\u-", b"\\u?", b"\\u99999999999999999999?",
            b"\\u-99999 ", b"\\u65536?", b"\\u55296?", b"\\uc0\\u8364", b"\\uc99999 ", b"\\uc-1 ", b"\\bin99999999999 abc",
            b"\\bin-5 abc", b"\\bin", b"\\bin0 ", b"{", b"}", b"}}}}", b"{{{{", b"\\", b"\\*", b"{\\*\\zzdest abc", b"{\\*}", b"{\\*\\",
            b"\\ansicpg999999 ", b"\\ansicpg-1 ", b"\\page", b"\\page\\page\\page", b"\\par", b"{\\pict\\jpegblip zz}", b"{\\pict }",
            b"{\\pict\\pngblip 8950", b"\\zz99999999999999999999999999 ", b"\\" + b"a" * 300 + b" ", b"\\~\\-\\_\\:\\|", b"\\{\\}\\\\",
            b"{\\fonttbl", b"{\\fonttbl}", b"{\\field{\\*\\fldinst HYPERLINK}{\\fldrslt", b"\\'e9\\'", b"\\\r", b"\\\n", b"\x00", b"\\\x00"],
    # HTML / XHTML: character references, unterminated constructs
    "html": [b"&#x;", b"&#;", b"&#99999999999;", b"&#xFFFFFFFF;", b"&#x110000;", b"&#xD800;", b"&#0;", b"&", b"&#", b"&#x", b"&amp",
             b"&bogus;", b"&" + b"a" * 200 + b";", b"<", b"<!--", b"<!-- -- -->", b"<![CDATA[", b"<?", b"<?php", b"</", b"</>", b"<a href=",
             b"<a href='x", b"<p " + b"a=1 " * 300 + b">", b"<script>", b"<style>", b"<noscript><img>", b"<table><tr><td><table>",
             b"</table></table></td>", b"<meta charset='no-such'>", b"<meta charset=>", b"<title>", b"<base href>", b"<!DOCTYPE",
             b"<svg><math><p>", b"<br/ >", b"<img src>", b"\x00", b"<\x00p>"],
    # RFC 5322 / MIME headers and mbox separators
    "mail": [b"Subject: =?utf-8?b?////?=\n", b"Subject: =?x?q?=?=\n", b"Subject: =?utf-8?q?=ZZ?=\n", b"Subject: =?utf-8?b?abc\n",
             b"Subject: =?utf-8?b??=\n", b"Subject: =??b?QQ==?=\n", b"From: <<<>>>\n", b"From: \"a\" <b@c> , ,,, <>\n", b"To: " + b"a@b, " * 300 + b"\n",
             b"Date: not a date\n", b"Date: 99 Foo 99999 99:99:99 +9999\n", b"Date: \n", b"Content-Type: text/plain; charset=\"no-such\"\n",
             b"Content-Type: multipart/mixed\n", b"Content-Type: multipart/mixed; boundary=\n", b"Content-Type: ;;;=\n",
             b"Content-Transfer-Encoding: base64\n", b"Content-Transfer-Encoding: zz\n", b"Content-Disposition: attachment; filename*=utf-8''%ZZ\n",
             b"Content-Disposition: attachment; filename=\"a\nb.txt\"\n", b"Message-ID: \n", b"X: " + b"y" * 5000 + b"\n", b" folded\n", b":\n",
             b"\nFrom \n", b"\nFrom x\n", b"\n>From y\n", b"\nFrom " + b"word " * 30 + b"no year here at all\n",
             b"\nFrom a@b Sat Dec 27 10:00:00 2025\n", b"\nFrom a@b  Sat Dec 27 10:00:00 20255\n", b"\r\nFrom a@b 2025\r\n"],
}
PLANT_FAMILY = {"rtf": "rtf", "html": "html", "mhtml": "html", "epub": "html", "eml": "mail", "mbox": "mail", "plain": "html"}


def plant_token(data: bytes, family: str, idx: int, pos: int) -> bytes:
    """insert TOKENS[family][idx] at the pos-th anchor of the input (after a space / brace / '>' / newline, i.e. where
    the tokeniser is in its normal state); pos = -1: append at the very end (the token is the last thing it sees),
    pos = -2: replace the tail after the last anchor."""
    toks = TOKENS[family]
    tok = toks[idx % len(toks)]
    if pos == -1:
        return data + tok
    anchors = [i + 1 for i, c in enumerate(data) if c in b" {}>\n;"]
    if not anchors:
        return data + tok
    if pos == -2:
        return data[: anchors[-1]] + tok
    at = anchors[pos % len(anchors)]
    return data[:at] + tok + data[at:]


def zip_sub(data: bytes, part_suffix: str, pat: str, repl: str, count: int = 1) -> bytes:
    """re.sub(pat, repl, part, count) on every part whose name ends with part_suffix; ZIP shell rebuilt."""
    import re
    try:
        zin = zipfile.ZipFile(io.BytesIO(data))
        items = [(i, zin.read(i)) for i in zin.infolist()]
    except Exception:
        return data
    out = io.BytesIO()
    with zipfile.ZipFile(out, "w", zipfile.ZIP_DEFLATED) as z:
        for info, content in items:
            if info.filename.endswith(part_suffix):
                content = re.sub(pat.encode("latin-1"), repl.encode("latin-1"), content, count=count)
            if info.filename == "mimetype":
                z.writestr(zipfile.ZipInfo("mimetype"), content)
            else:
                z.writestr(info.filename, content)
    return out.getvalue()


# (kind, part suffix, regex, replacement template with {N}): numeric fields that size an allocation or a loop.
# Only values that fail AT ONCE (2**60 elements cannot be allocated, "x" does not parse) -- no mid-size amplifiers.
COUNT_FIELDS = [
    ("ods", "content.xml", r"<table:table-cell\b", '<table:table-cell table:number-columns-repeated="{N}"'),
    ("ods", "content.xml", r"<table:table-row\b", '<table:table-row table:number-rows-repeated="{N}"'),
    ("ods", "content.xml", r"<table:table-cell\b", '<table:table-cell table:number-columns-spanned="{N}" table:number-rows-spanned="{N}"'),
    ("odt", "content.xml", r"(<text:p\b[^>]*>)", '\\1<text:s text:c="{N}"/>'),
    ("odt", "content.xml", r"(<text:p\b[^>]*>)", '\\1<text:tab/><text:s text:c="{N}"/><text:line-break/>'),
    ("odt", "content.xml", r"<table:table-cell\b", '<table:table-cell table:number-columns-repeated="{N}"'),
    ("odt", "content.xml", r"<table:table-row\b", '<table:table-row table:number-rows-repeated="{N}"'),
    ("odp", "content.xml", r"(<text:p\b[^>]*>)", '\\1<text:s text:c="{N}"/>'),
    ("odp", "content.xml", r"<table:table-cell\b", '<table:table-cell table:number-columns-repeated="{N}"'),
    ("odg", "content.xml", r"(<text:p\b[^>]*>)", '\\1<text:s text:c="{N}"/>'),
    ("docx", "word/document.xml", r"(<w:tcPr>|<w:tc>)", '\\1<w:tcPr><w:gridSpan w:val="{N}"/><w:vMerge w:val="{N}"/></w:tcPr>'),
    ("docx", "word/document.xml", r"(<w:pPr>|<w:p>)", '\\1<w:pPr><w:numPr><w:ilvl w:val="{N}"/><w:numId w:val="{N}"/></w:numPr><w:outlineLvl w:val="{N}"/></w:pPr>'),
    ("pptx", "slide1.xml", r"<a:tc\b", '<a:tc gridSpan="{N}" rowSpan="{N}"'),
    ("xlsx", "workbook.xml", r"<sheet ", '<sheet sheetId="{N}" '),
    ("xlsx", "sharedStrings.xml", r"<sst ", '<sst count="{N}" uniqueCount="{N}" '),
    ("epub", "content.opf", r"<itemref ", '<itemref linear="{N}" '),
]


def zip_flag_encrypted(data: bytes) -> bytes:
    """set general-purpose flag bit 0 ("encrypted") in every local and central header of a ZIP."""
    b = bytearray(data)
    for sig, off in ((b"PK\x03\x04", 6), (b"PK\x01\x02", 8)):
        i = b.find(sig)
        while i >= 0:
            b[i + off] |= 0x01
            i = b.find(sig, i + 4)
    return bytes(b)


# names that would break a one-line diagnostic or a terminal if they were echoed
HOSTILE_ECHO_NAMES = ["minutes\n2024 Q3.txt", "a\rb.txt", "x\x1b[31mred.txt", "tab\there.txt", "nl\n\n\nmany.docx",
                      "u\u2028sep.txt", "q" * 250 + ".txt", "dir\n/inner.txt", "report.docx\n"]


# ---------------------------------------------------------------------------- formula-bearing documents (OMML)
_M = "http://schemas.openxmlformats.org/officeDocument/2006/math"
_LEAF = "<m:r><m:t>x</m:t></m:r>"
_TWO = "<m:r><m:t>2</m:t></m:r>"
OMML_NEST = {
    "d": '<m:d><m:dPr><m:begChr m:val="("/><m:endChr m:val=")"/></m:dPr><m:e>{I}</m:e></m:d>',
    "d2": '<m:d><m:dPr><m:begChr m:val="["/><m:sepChr m:val="|"/></m:dPr><m:e>{I}</m:e><m:e>' + _TWO + "</m:e></m:d>",
    "f": "<m:f><m:num>{I}</m:num><m:den>" + _TWO + "</m:den></m:f>",
    "fden": "<m:f><m:num>" + _TWO + "</m:num><m:den>{I}</m:den></m:f>",
    "rad": "<m:rad><m:radPr><m:degHide m:val=\"1\"/></m:radPr><m:deg/><m:e>{I}</m:e></m:rad>",
    "raddeg": "<m:rad><m:deg>{I}</m:deg><m:e>" + _TWO + "</m:e></m:rad>",
    "sSup": "<m:sSup><m:e>{I}</m:e><m:sup>" + _TWO + "</m:sup></m:sSup>",
    "sSupsup": "<m:sSup><m:e>" + _TWO + "</m:e><m:sup>{I}</m:sup></m:sSup>",
    "sSub": "<m:sSub><m:e>{I}</m:e><m:sub>" + _TWO + "</m:sub></m:sSub>",
    "sSubSup": "<m:sSubSup><m:e>{I}</m:e><m:sub>" + _TWO + "</m:sub><m:sup>" + _TWO + "</m:sup></m:sSubSup>",
    "sPre": "<m:sPre><m:sub>" + _TWO + "</m:sub><m:sup>" + _TWO + "</m:sup><m:e>{I}</m:e></m:sPre>",
    "nary": '<m:nary><m:naryPr><m:chr m:val="&#8721;"/></m:naryPr><m:sub>' + _TWO + "</m:sub><m:sup>" + _TWO + "</m:sup><m:e>{I}</m:e></m:nary>",
    "func": "<m:func><m:fName><m:r><m:t>sin</m:t></m:r></m:fName><m:e>{I}</m:e></m:func>",
    "acc": '<m:acc><m:accPr><m:chr m:val="&#770;"/></m:accPr><m:e>{I}</m:e></m:acc>',
    "bar": "<m:bar><m:e>{I}</m:e></m:bar>",
    "box": "<m:box><m:e>{I}</m:e></m:box>",
    "borderBox": "<m:borderBox><m:e>{I}</m:e></m:borderBox>",
    "groupChr": "<m:groupChr><m:e>{I}</m:e></m:groupChr>",
    "limLow": "<m:limLow><m:e>{I}</m:e><m:lim>" + _TWO + "</m:lim></m:limLow>",
    "limUpp": "<m:limUpp><m:e>" + _TWO + "</m:e><m:lim>{I}</m:lim></m:limUpp>",
    "m": "<m:m><m:mr><m:e>{I}</m:e><m:e>" + _TWO + "</m:e></m:mr></m:m>",
    "eqArr": "<m:eqArr><m:e>{I}</m:e><m:e>" + _TWO + "</m:e></m:eqArr>",
    "phant": "<m:phant><m:e>{I}</m:e></m:phant>",
    "mix": None,                                         # all of the above in rotation
}


def omml_document(data: bytes, construct: str, depth: int, display: int) -> bytes:
    """put one formula into a DOCX (word/document.xml) or PPTX (first slide) seed: `construct` nested `depth` deep."""
    keys = [k for k in OMML_NEST if OMML_NEST[k]]
    inner = _LEAF
    for i in range(depth):
        t = OMML_NEST[construct] or OMML_NEST[keys[i % len(keys)]]
        inner = t.replace("{I}", inner)
    math = f'<m:oMath xmlns:m="{_M}">{inner}</m:oMath>'
    if display:
        math = f'<m:oMathPara xmlns:m="{_M}">{math}</m:oMathPara>'
    is_pptx = b"ppt/presentation.xml" in data
    if is_pptx:
        return zip_sub(data, "slide1.xml", r"(<a:p>|<a:p [^>]*>)", "\\1" + math.replace("\\", "\\\\"), 1)
    return zip_sub(data, "word/document.xml", r"(<w:body>|<w:body [^>]*>)", "\\1<w:p>" + math.replace("\\", "\\\\") + "</w:p>", 1)


# ------------------------------------------------------- results whose text no UTF-8 stream can take (lone surrogate)
def _mbox_msg(sender, subject, body, charset):
    return (b"From " + sender + b" Mon Jan  1 00:00:00 2024\nFrom: " + sender + b"\nTo: bob@example.com\nSubject: " + subject
            + b"\nDate: Mon, 01 Jan 2024 00:00:00 +0000\nMIME-Version: 1.0\nContent-Type: text/plain; charset=" + charset
            + b"\n\n" + body + b"\n\n")


def surrogate_input(which: str) -> bytes:
    clean1 = _mbox_msg(b"alice@example.com", b"minutes", b"The minutes of the meeting.", b"utf-8")
    clean2 = _mbox_msg(b"carol@example.com", b"re: minutes", b"Thanks, all fine.", b"utf-8")
    odd = _mbox_msg(b"carol@example.com", b"re: minutes", b"Thanks \\ud800 all fine.", b"unicode-escape")
    html_odd = b'<html><head><meta charset="unicode-escape"><title>t</title></head><body><p>odd \\ud800 text</p></body></html>'
    if which == "mbox_clean":
        return clean1 + clean2
    if which == "mbox_second":
        return clean1 + odd
    if which == "mbox_first":
        return odd + clean2
    if which == "mbox_third":
        return clean1 + clean2 + odd
    if which == "mbox_only":
        return odd
    if which == "html_only":
        return html_odd
    if which == "zip_second":
        return build_archive("zip", [("a.txt", b"first member"), ("b.html", html_odd)])
    if which == "zip_first":
        return build_archive("zip", [("a.html", html_odd), ("b.txt", b"second member")])
    if which == "tar_second":
        return build_archive("tar", [("a.txt", b"first member"), ("b.mbox", odd)])
    if which == "zip_none":                                # no supported member at all: 0 results
        return build_archive("zip", [("a.bin", b"x"), ("b.dat", b"y")])
    if which == "zip_three":
        return build_archive("zip", [("a.txt", b"one"), ("b.md", b"two"), ("c.csv", b"a,b\n1,2\n")])
    raise ValueError(which)


SURR_INPUTS = {"mbox_clean": "mbox", "mbox_second": "mbox", "mbox_first": "mbox", "mbox_third": "mbox", "mbox_only": "mbox",
               "html_only": "html", "zip_second": "zip", "zip_first": "zip", "tar_second": "tar", "zip_none": "zip",
               "zip_three": "zip"}


# ----------------------------------------------------- "a structure that points to itself", per container format
def _sevenz(header_at_end: bytes, packed: bytes = b"") -> bytes:
    import zlib
    start = struct.pack("<QQI", len(packed), len(header_at_end), zlib.crc32(header_at_end) & 0xFFFFFFFF)
    return (b"7z\xbc\xaf\x27\x1c\x00\x04" + struct.pack("<I", zlib.crc32(start) & 0xFFFFFFFF) + start + packed + header_at_end)


def _sevenz_encoded_header(pack_pos: int, size: int) -> bytes:
    # EncodedHeader: PackInfo(pos, 1 stream, size) UnpackInfo(1 folder, 1 coder = Copy, unpack size) End
    return bytes([0x17, 0x06, pack_pos, 0x01, 0x09, size, 0x00, 0x07, 0x0B, 0x01, 0x00, 0x01, 0x01, 0x00, 0x0C, size, 0x00, 0x00])


def sevenz_header_is_itself() -> bytes:
    """7z whose encoded header (Copy coder) is stored at ... the header's own position: it decodes to itself."""
    return _sevenz(_sevenz_encoded_header(0, 18))


def sevenz_headers_a_b_a() -> bytes:
    """two encoded headers that decode to each other."""
    b_ = _sevenz_encoded_header(18, 18)            # stored first (pack area): decodes to what lies at 32+18 = header A
    a_ = _sevenz_encoded_header(0, 18)             # the end header: decodes to what lies at 32+0 = B
    return _sevenz(a_, b_)


def sevenz_header_in_header() -> bytes:
    """encoded header that decodes to a (plain) header whose main streams point back into the header area."""
    plain = bytes([0x01, 0x04, 0x06, 0x00, 0x01, 0x09, 0x12, 0x00, 0x07, 0x0B, 0x01, 0x00, 0x01, 0x01, 0x00, 0x0C, 0x12, 0x00, 0x00, 0x00])
    enc = bytes([0x17, 0x06, 0x00, 0x01, 0x09, len(plain), 0x00, 0x07, 0x0B, 0x01, 0x00, 0x01, 0x01, 0x00, 0x0C, len(plain), 0x00, 0x00])
    return _sevenz(enc, plain)


def _pdf(objs, trailer_extra=b"", root=1):
    out = bytearray(b"%PDF-1.5\n")
    offs = {}
    for num, body in objs:
        offs[num] = len(out)
        out += b"%d 0 obj\n" % num + body + b"\nendobj\n"
    x, n = len(out), max(offs) + 1
    out += b"xref\n0 %d\n0000000000 65535 f \n" % n
    for i in range(1, n):
        out += b"%010d 00000 n \n" % offs.get(i, 0)
    out += b"trailer\n<< /Size %d /Root %d 0 R %s>>\nstartxref\n%d\n%%%%EOF\n" % (n, root, trailer_extra, x)
    return bytes(out)


def _pdf_page(contents: bytes, stream_dict: bytes = b"", resources: bytes = b"<< /Font << /F1 5 0 R >> >>"):
    return _pdf([(1, b"<< /Type /Catalog /Pages 2 0 R >>"), (2, b"<< /Type /Pages /Kids [3 0 R] /Count 1 >>"),
                 (3, b"<< /Type /Page /Parent 2 0 R /MediaBox [0 0 200 200] /Resources " + resources + b" /Contents 4 0 R >>"),
                 (4, b"<< /Length %d %s>>\nstream\n" % (len(contents), stream_dict) + contents + b"\nendstream"),
                 (5, b"<< /Type /Font /Subtype /Type1 /BaseFont /Helvetica >>")])


SELFREF = {
    "7z_self": sevenz_header_is_itself,
    "7z_aba": sevenz_headers_a_b_a,
    "7z_hdr_in_hdr": sevenz_header_in_header,
    # PDF pages whose content cannot be extracted at all (both attempts of the extractor fail) / odd operands
    "pdf_badfilter": lambda: _pdf_page(b"BT /F1 12 Tf (Hello) Tj ET", b"/Filter /NoSuchDecode "),
    "pdf_badflate": lambda: _pdf_page(b"this is not deflate data", b"/Filter /FlateDecode "),
    "pdf_badops": lambda: _pdf_page(b"BT /F1 12 Tf (a) (b) Tm [ Td (Hello) Tj ET"),
    "pdf_badfont": lambda: _pdf_page(b"BT /F9 12 Tf (Hello) Tj ET", b"", b"<< /Font << /F9 3 0 R >> >>"),
    "pdf_objstm_self": lambda: _pdf([(1, b"<< /Type /Catalog /Pages 2 0 R >>"), (2, b"<< /Type /Pages /Kids [3 0 R] /Count 1 >>"),
                                     (3, b"<< /Type /Page /Parent 2 0 R /Contents 4 0 R >>"),
                                     (4, b"<< /Type /ObjStm /N 1 /First 4 /Length 8 >>\nstream\n4 0 4 0 R\nendstream")]),
    "pdf_len_self": lambda: _pdf([(1, b"<< /Type /Catalog /Pages 2 0 R >>"), (2, b"<< /Type /Pages /Kids [3 0 R] /Count 1 >>"),
                                  (3, b"<< /Type /Page /Parent 2 0 R /Contents 4 0 R >>"),
                                  (4, b"<< /Length 4 0 R >>\nstream\nBT (x) Tj ET\nendstream")]),
    "pdf_xobj_self": lambda: _pdf([(1, b"<< /Type /Catalog /Pages 2 0 R >>"), (2, b"<< /Type /Pages /Kids [3 0 R] /Count 1 >>"),
                                   (3, b"<< /Type /Page /Parent 2 0 R /Resources << /XObject << /F 5 0 R >> >> /Contents 4 0 R >>"),
                                   (4, b"<< /Length 5 >>\nstream\n/F Do\nendstream"),
                                   (5, b"<< /Type /XObject /Subtype /Form /BBox [0 0 9 9] /Resources << /XObject << /F 5 0 R >> >> /Length 5 >>\nstream\n/F Do\nendstream")]),
}
SELFREF_KIND = {k: ("archive" if k.startswith("7z") else "pdf") for k in SELFREF}
SELFREF_EXT = {k: ("7z" if k.startswith("7z") else "pdf") for k in SELFREF}


def ole_cycle(data: bytes, how: str, rs: int) -> bytes:
    """make the FAT chain of the largest stream, the mini-FAT, or the directory tree of an OLE2 file cyclic."""
    try:
        import olefile
        ole = olefile.OleFileIO(io.BytesIO(data))
        ss = ole.sectorsize
        b = bytearray(data)
        per = ss // 4

        def fat_entry_offset(sect):
            difat = [struct.unpack_from("<I", data, 76 + 4 * i)[0] for i in range(109)]
            fs = difat[sect // per]
            return (fs + 1) * ss + 4 * (sect % per)
        r = random.Random(rs)
        if how.startswith("fat"):
            pk = _pick_stream(data, "any")
            if not pk:
                return data
            offs = pk[1][0]
            sects = [o // ss - 1 for o in offs]
            if len(sects) < 3:
                return data
            i = r.randrange(1, len(sects) - 1)
            target = {"fat_self": sects[i], "fat_back": sects[0], "fat_prev": sects[i - 1]}[how]
            struct.pack_into("<I", b, fat_entry_offset(sects[i]), target)
            return bytes(b)
        # directory: entries of 128 bytes in the chain starting at header offset 48
        dstart = struct.unpack_from("<I", data, 48)[0]
        chain, sect = [], dstart
        while sect not in (0xFFFFFFFE, 0xFFFFFFFF) and len(chain) < 64 and sect < len(ole.fat):
            chain.append((sect + 1) * ss)
            sect = ole.fat[sect]
        n_entries = len(ole.direntries)
        k = r.randrange(0, max(1, min(n_entries, len(chain) * (ss // 128))))
        eo = chain[(k * 128) // ss] + (k * 128) % ss
        if how == "dir_left_self":
            struct.pack_into("<I", b, eo + 68, k)
        elif how == "dir_right_self":
            struct.pack_into("<I", b, eo + 72, k)
        elif how == "dir_child_self":
            struct.pack_into("<I", b, eo + 76, k)
        elif how == "dir_child_root":
            struct.pack_into("<I", b, eo + 76, 0)
        elif how == "dir_chain_self":                 # the directory's own FAT chain loops
            struct.pack_into("<I", b, fat_entry_offset(dstart), dstart)
        elif how == "minifat_self":
            ms = struct.unpack_from("<I", data, 60)[0]
            if ms in (0xFFFFFFFE, 0xFFFFFFFF):
                return data
            struct.pack_into("<I", b, (ms + 1) * ss, 0)          # mini sector 0 -> 0
            struct.pack_into("<I", b, fat_entry_offset(ms), ms)  # and the mini-FAT's own chain -> itself
        return bytes(b)
    except Exception:
        return data


OLE_CYCLES = ["fat_self", "fat_back", "fat_prev", "dir_left_self", "dir_right_self", "dir_child_self", "dir_child_root",
              "dir_chain_self", "minifat_self"]


# ------------------------------------------- record-aware edits for the hand-written record / signature scanners
LEN_BOUNDARY = [0, 1, 0x7FFFFFFF, 0x80000000, 0xFFFFFFF8, 0xFFFFFFFF, 0xFFFFFFF0, 0x7FFFFFF8]
_BLIP = set(range(0xF01A, 0xF020)) | {0xF029}


def _record_headers(st: bytes):
    """offsets of 8-byte <ver/inst:H type:H len:I> headers: the record tree walked from offset 0 (containers are
    stepped into), plus every OfficeArt-looking header (type 0xF0xx, plausible length) found by scanning."""
    offs, o, n = [], 0, len(st)
    while o + 8 <= n and len(offs) < 4000:
        vi, ty, ln = struct.unpack_from("<HHI", st, o)
        if ln > n - o - 8:
            break
        offs.append(o)
        o = o + 8 if (vi & 0x0F) == 0x0F else o + 8 + ln
    scan = []
    i = st.find(b"\xf0", 3)
    while i >= 0 and len(scan) < 2000:
        o = i - 3
        vi, ty, ln = struct.unpack_from("<HHI", st, o) if o + 8 <= n else (0, 0, 0)
        if 0xF000 <= ty <= 0xF1FF and 0 < ln <= n - o - 8:
            scan.append(o)
        i = st.find(b"\xf0", i + 1)
    blips = [o for o in scan if struct.unpack_from("<H", st, o + 2)[0] in _BLIP]
    return offs, scan, blips


def ole_record_edit(data: bytes, which: str, pick: str, k: int, how) -> bytes:
    """pick: 'tree' | 'art' | 'blip' (which list of record headers), k: index into it; how: 'type' (an unrecognised but
    well-formed record: Mac PICT blip / unknown atom, same length), 'sig' (first byte of the picture payload flipped),
    or an int = new value of the 32-bit length field (signed / unsigned boundaries)."""
    pk = _pick_stream(data, which)
    if not pk:
        return data
    _, m = pk
    st = bytearray(_ole_read(data, m))
    tree, art, blips = _record_headers(bytes(st))
    lst = {"tree": tree, "art": art, "blip": blips}[pick] or tree or art
    if not lst:
        return data
    o = lst[k % len(lst)]
    vi, ty, ln = struct.unpack_from("<HHI", st, o)
    if how == "type":
        struct.pack_into("<H", st, o + 2, 0xF01C if ty in _BLIP and ty != 0xF01C else (0xF01F if ty == 0xF01C else 0x0BAD))
    elif how == "sig":
        hdr = 33 if ((vi >> 4) & 0xFFF) in (0x6E1, 0x46B) else 17
        if o + 8 + hdr < len(st):
            st[o + 8 + hdr] ^= 0x5A
    else:
        struct.pack_into("<I", st, o + 4, int(how) & 0xFFFFFFFF)
    return _ole_write(data, m, bytes(st))


def near_match_run(name: str, kb: int) -> bytes:
    """long runs of ALMOST-matching prefixes for the regexes / scanners that look at the input before parsing it."""
    n = kb * 1024
    rep = lambda unit: (unit * (n // len(unit) + 1))[:n]
    if name == "html_meta":                 # <meta ... never closed, no charset anywhere
        return b"<html><head><title>t</title>" + rep(b"<meta ") + b"</head><body><p>text</p></body></html>"
    if name == "html_meta_attr":
        return b"<html><head>" + rep(b"<meta name=x content=y ") + b"</head><body>x</body></html>"
    if name == "html_meta_chars":
        return b"<html><head>" + rep(b"<meta charse") + b"</head><body>x</body></html>"
    if name == "html_lt":
        return b"<html><body>" + rep(b"<") + b"</body></html>"
    if name == "html_amp":
        return b"<html><body><p>" + rep(b"&#") + b"</p></body></html>"
    if name == "html_comment":
        return b"<html><body>" + rep(b"<!-") + b"</body></html>"
    if name == "mhtml_meta":
        return (b"MIME-Version: 1.0\nContent-Type: multipart/related; boundary=\"b\"\n\n--b\nContent-Type: text/html\n\n"
                + near_match_run("html_meta", kb) + b"\n--b--\n")
    if name == "mhtml_htmlstart":
        return b"MIME-Version: 1.0\nContent-Type: text/html\n\n" + rep(b"<html ") + b"\n"
    if name == "mhtml_cte":
        return b"MIME-Version: 1.0\nContent-Type: text/html\n" + rep(b"Content-Transfer-Encoding:\n") + b"\n<html><body>x</body></html>"
    if name == "mbox_from":
        return b"From a@b Mon Jan  1 00:00:00 2024\nSubject: s\n\n" + rep(b"From x\n") + b"\n"
    if name == "mbox_from_long":
        return b"From a@b Mon Jan  1 00:00:00 2024\nSubject: s\n\nFrom " + rep(b"word 123 ") + b"\n"
    if name == "rtf_quote":
        return b"{\\rtf1\\ansi " + rep(b"\\'") + b"}"
    if name == "rtf_fonttbl":
        return b"{\\rtf1\\ansi " + rep(b"{\\fonttbl") + b"}"
    if name == "rtf_pict":
        return b"{\\rtf1\\ansi " + rep(b"{\\pict") + b"}"
    if name == "rtf_info":
        return b"{\\rtf1\\ansi " + rep(b"{\\info{\\title ") + b"}"
    if name == "rtf_field":
        return b"{\\rtf1\\ansi " + rep(b"{\\field{\\*\\fldinst HYPERLINK ") + b"}"
    if name == "eml_fold":
        return b"Subject: s\n" + rep(b" x\n") + b"\nbody\n"
    if name == "plain_bom":
        return rep(b"\xef\xbb")
    raise ValueError(name)


# NOT among the inputs: mhtml_htmlstart (a run of "<html " start tags inside an MHTML part). Profiled on /repo: the time
# (100 KB -> 43 s) is spent in Python's html.parser (check_for_whole_start_tag / locatestarttagend on unfinished start
# tags), i.e. a cost of the standard library like html_lt, not of the library's own scanners; replacing the library's
# raw-HTML regex by a linear search changed nothing measurable. rtf_info / rtf_field are inputs again (KF-C01-04 / 05).
RUNS_EXCLUDED = ["mhtml_htmlstart", "rtf_info", "rtf_field"]      # rtf_*: witnesses of KF-C01-04 / -05 (own jobs);
# mhtml_htmlstart: see above (standard-library cost)
RUN_KB = {"html_lt": 200}                                          # html.parser is slow on "<" runs (stdlib cost): smaller
RUNS = {"html_meta": "html", "html_meta_attr": "html", "html_meta_chars": "html", "html_lt": "html", "html_amp": "html",
        "html_comment": "html", "mhtml_meta": "mhtml", "mhtml_htmlstart": "mhtml", "mhtml_cte": "mhtml", "mbox_from": "mbox",
        "mbox_from_long": "mbox", "rtf_quote": "rtf", "rtf_fonttbl": "rtf", "rtf_pict": "rtf", "rtf_info": "rtf", "rtf_field": "rtf",
        "eml_fold": "eml", "plain_bom": "plain"}
for _k in RUNS_EXCLUDED:
    RUNS.pop(_k, None)


def rtf_run_evidence(data: bytes) -> dict:
    """KF-C01-04 / -05 domain evidence: how many `{\\info` groups / HYPERLINK field instructions the RTF holds
    (rtf_extractor searches its _RE_INFO* / field regexes from every such start: quadratic in their number)."""
    is_rtf = data[:64].lstrip().startswith(b"{\\rtf")
    return {"rtf": bool(is_rtf), "rtfinfo": min(data.count(b"{\\info"), 2 ** 30) if is_rtf else 0,
            "rtffield": min(data.count(b"{\\field{\\*\\fldinst"), 2 ** 30) if is_rtf else 0}
