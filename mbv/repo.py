"""Bind to the library under verification: always the *current working tree* of $SP2T_REPO."""
from __future__ import annotations

import importlib
import os
import sys

from . import REPO
from .tlc import MachineryError


def activate() -> None:
    """Put $SP2T_REPO (default /repo) first on sys.path and make sure that is what gets imported."""
    p = str(REPO)
    if sys.path[0] != p:
        sys.path.insert(0, p)
    os.environ.setdefault("SP2T_VERIF", "1")
    import sharepoint2text  # noqa

    f = os.path.realpath(sharepoint2text.__file__)
    if not f.startswith(os.path.realpath(p) + os.sep):
        raise MachineryError(f"sharepoint2text imported from {f}, expected under {p}")


def need(module: str, *names: str):
    """Import module from the repo and check the binding names still exist (exit 2 otherwise)."""
    activate()
    try:
        m = importlib.import_module(module)
    except Exception as e:  # noqa
        raise MachineryError(f"cannot import {module}: {e!r}")
    for n in names:
        if not hasattr(m, n):
            raise MachineryError(f"binding vanished: {module}.{n}")
    return m


def child_env(extra: dict | None = None) -> dict:
    """Environment for worker subprocesses (fresh interpreters importing from $SP2T_REPO)."""
    e = dict(os.environ)
    e["PYTHONPATH"] = f"{REPO}:{os.path.dirname(os.path.dirname(os.path.abspath(__file__)))}"
    e["SP2T_REPO"] = str(REPO)
    e.setdefault("PYTHONHASHSEED", "0")
    e["SP2T_VERIF"] = "1"
    e["PYTHONDONTWRITEBYTECODE"] = "1"
    if extra:
        e.update({k: str(v) for k, v in extra.items()})
    return e
