"""Parser for TLA+ values as TLC prints them (state dumps, PrintT output, simulate files).

Mapping:  <<..>> -> tuple, {..} -> frozenset, [a |-> ..] -> FD (hashable dict),
          (k :> v @@ ..) -> FD, "s" -> str, 12 -> int, TRUE/FALSE -> bool,
          a..b -> tuple(range), identifier -> MV(name) (model value).
"""
from __future__ import annotations

import re
from typing import Any, Iterator


class FD(dict):
    """Hashable dict (records and functions)."""

    def __hash__(self):  # type: ignore[override]
        return hash(frozenset(self.items()))

    def __getattr__(self, k):
        try:
            return self[k]
        except KeyError:
            raise AttributeError(k)


class MV(str):
    """Model value / bare identifier."""

    def __repr__(self):
        return f"MV({str.__repr__(self)})"


class ParseError(ValueError):
    pass


_WS = re.compile(r"\s*")
_INT = re.compile(r"-?\d+")
_ID = re.compile(r"[A-Za-z_][A-Za-z0-9_!]*")


class _P:
    def __init__(self, s: str, i: int = 0):
        self.s = s
        self.i = i

    def ws(self):
        self.i = _WS.match(self.s, self.i).end()

    def peek(self, n=1):
        return self.s[self.i : self.i + n]

    def expect(self, tok: str):
        self.ws()
        if not self.s.startswith(tok, self.i):
            raise ParseError(f"expected {tok!r} at {self.i}: {self.s[self.i:self.i+40]!r}")
        self.i += len(tok)

    def value(self) -> Any:
        self.ws()
        s, i = self.s, self.i
        if s.startswith("<<", i):
            self.i += 2
            return tuple(self._list(">>"))
        c = s[i : i + 1]
        if c == "{":
            self.i += 1
            return frozenset(self._list("}"))
        if c == "[":
            self.i += 1
            return self._record()
        if c == "(":
            self.i += 1
            return self._function()
        if c == '"':
            return self._string()
        m = _INT.match(s, i)
        if m:
            self.i = m.end()
            v = int(m.group())
            self.ws()
            if s.startswith("..", self.i):
                self.i += 2
                self.ws()
                m2 = _INT.match(s, self.i)
                self.i = m2.end()
                return tuple(range(v, int(m2.group()) + 1))
            return v
        m = _ID.match(s, i)
        if m:
            self.i = m.end()
            w = m.group()
            if w == "TRUE":
                return True
            if w == "FALSE":
                return False
            return MV(w)
        raise ParseError(f"unexpected input at {i}: {s[i:i+40]!r}")

    def _list(self, close: str) -> list:
        out = []
        self.ws()
        if self.s.startswith(close, self.i):
            self.i += len(close)
            return out
        while True:
            out.append(self.value())
            self.ws()
            if self.s.startswith(close, self.i):
                self.i += len(close)
                return out
            self.expect(",")

    def _record(self) -> FD:
        out = FD()
        self.ws()
        if self.peek() == "]":
            self.i += 1
            return out
        while True:
            self.ws()
            m = _ID.match(self.s, self.i)
            if not m:
                raise ParseError(f"record field expected at {self.i}")
            self.i = m.end()
            self.expect("|->")
            out[m.group()] = self.value()
            self.ws()
            if self.peek() == "]":
                self.i += 1
                return out
            self.expect(",")

    def _function(self) -> FD:
        out = FD()
        while True:
            k = self.value()
            self.expect(":>")
            out[k] = self.value()
            self.ws()
            if self.peek() == ")":
                self.i += 1
                return out
            self.expect("@@")

    def _string(self) -> str:
        s = self.s
        i = self.i + 1
        buf = []
        while True:
            c = s[i]
            if c == "\\":
                n = s[i + 1]
                buf.append({"n": "\n", "t": "\t", "r": "\r", "f": "\f"}.get(n, n))
                i += 2
            elif c == '"':
                self.i = i + 1
                return "".join(buf)
            else:
                buf.append(c)
                i += 1


def parse(s: str) -> Any:
    p = _P(s)
    v = p.value()
    p.ws()
    if p.i != len(s):
        raise ParseError(f"trailing input at {p.i}: {s[p.i:p.i+40]!r}")
    return v


_STATE_HDR = re.compile(r"^State (\d+):.*$", re.M)
_CONJ = re.compile(r"^(?:/\\ )?([A-Za-z_][A-Za-z0-9_]*) = ", re.M)


def parse_state_body(body: str) -> FD:
    """Parse `/\\ x = v` conjunct list (or single `x = v`) into FD{var: value}."""
    ms = list(_CONJ.finditer(body))
    out = FD()
    for k, m in enumerate(ms):
        end = ms[k + 1].start() if k + 1 < len(ms) else len(body)
        out[m.group(1)] = parse(body[m.end() : end].strip())
    return out


def iter_dump(path) -> Iterator[FD]:
    """Iterate the states of a `tlc -dump <file>` dump."""
    with open(path, "r", encoding="utf-8", errors="replace") as f:
        text = f.read()
    hs = list(_STATE_HDR.finditer(text))
    for k, m in enumerate(hs):
        end = hs[k + 1].start() if k + 1 < len(hs) else len(text)
        body = text[m.end() : end].strip()
        if body:
            yield parse_state_body(body)


_SIM_STATE = re.compile(r"^STATE_(\d+) ==\s*$", re.M)
_SIM_ACT = re.compile(r"^\\\* <(\w+)[^>]*>", re.M)


def parse_simulate_file(path) -> list[tuple[str, FD]]:
    """Parse one behaviour file written by `tlc -simulate file=...`:
    returns [(action_name, state)] ('Init' for the first)."""
    text = open(path, encoding="utf-8", errors="replace").read()
    out = []
    ms = list(_SIM_STATE.finditer(text))
    for k, m in enumerate(ms):
        end = ms[k + 1].start() if k + 1 < len(ms) else len(text)
        chunk = text[m.end() : end]
        # the action comment for state k precedes STATE_k
        pre = text[(ms[k - 1].end() if k else 0) : m.start()]
        am = list(_SIM_ACT.finditer(pre))
        act = am[-1].group(1) if am else ("Init" if k == 0 else "?")
        # cut trailing comment/blank lines
        body = re.split(r"^\\\*|^={4,}|^-{4,}", chunk, flags=re.M)[0].strip()
        out.append((act, parse_state_body(body)))
    return out


def to_tla(v: Any) -> str:
    """Python value -> TLA+ expression text (for cfg constants / generated modules)."""
    if isinstance(v, bool):
        return "TRUE" if v else "FALSE"
    if isinstance(v, MV):
        return str(v)
    if isinstance(v, int):
        return str(v)
    if isinstance(v, str):
        return '"' + v.replace("\\", "\\\\").replace('"', '\\"').replace("\n", "\\n").replace("\t", "\\t") + '"'
    if isinstance(v, (tuple, list)):
        return "<<" + ", ".join(to_tla(x) for x in v) + ">>"
    if isinstance(v, (set, frozenset)):
        return "{" + ", ".join(sorted(to_tla(x) for x in v)) + "}"
    if isinstance(v, dict):
        if not v:
            return "<<>>"
        if all(isinstance(k, str) and _ID.fullmatch(k) and not isinstance(k, MV) for k in v):
            return "[" + ", ".join(f"{k} |-> {to_tla(x)}" for k, x in v.items()) + "]"
        return "(" + " @@ ".join(f"{to_tla(k)} :> {to_tla(x)}" for k, x in v.items()) + ")"
    raise TypeError(type(v))
