"""C01: exception-flow recorder and crash-point injector on top of sys.monitoring (tool id 3).

The recorder watches the LAYER functions only (mbv/c01_layers.py) and projects CPython's raw events
(PY_START / PY_RETURN / PY_YIELD local; RAISE / RERAISE / EXCEPTION_HANDLED / PY_UNWIND global) onto the
event vocabulary of specs/SurfaceTrace.tla:

    Enter(t,k)  Raise(d,st,c)  Wrap(d,c)  Absorb(d)  Unwind(d,c,pst)  Yield  Return(d)

It keeps a shadow stack of live layer frames (generator frames stay on it while suspended) and follows
exception OBJECTS by identity, so CPython's bookkeeping noise (every finally / with / generator epilogue
shows up as EXCEPTION_HANDLED + RERAISE) is dropped: an exception counts as absorbed only when the frame
that caught it goes on (yields, returns, calls the next layer, raises something else outside a wrapper
handler).  Nothing is decided here.
"""
from __future__ import annotations

import sys

mon = sys.monitoring
E = mon.events
TOOL = 3


def classify(exc, fam):
    """exception object -> Class of Surface.tla (fam: dict name -> class object of the running library)."""
    for name, key in (("ExtractionFailedError", "Failed"), ("ExtractionFileEncryptedError", "Encrypted"),
                      ("ExtractionZipBombError", "ZipBomb"), ("ExtractionFileTooLargeError", "TooLarge"),
                      ("ExtractionFileFormatNotSupportedError", "NotSupported"),
                      ("LegacyMicrosoftParsingError", "Legacy")):
        if isinstance(exc, fam[name]):
            return key
    if isinstance(exc, fam["ExtractionError"]):
        return "Base"
    return "Other"


class LoopOverrun(BaseException):
    """raised out of a library `while` loop whose iteration count left every bound that is linear in the input
    (BaseException: no `except Exception` of the library can swallow it)"""


def find_while_loops(pkg_dir, skip=("tests",)):
    """code objects of the library that contain a `while` statement -> {code: {header line, ...}}.
    Loop headers from the AST of each imported module's source; code objects from the module namespace."""
    import ast
    import types
    out = {}
    heads_by_file = {}
    for name, mod in list(sys.modules.items()):
        f = getattr(mod, "__file__", None)
        if not f or not f.startswith(pkg_dir) or any(f"/{s_}/" in f for s_ in skip):
            continue
        if f not in heads_by_file:
            try:
                tree = ast.parse(open(f, encoding="utf-8").read())
            except Exception:
                heads_by_file[f] = set()
                continue
            heads_by_file[f] = {n.lineno for n in ast.walk(tree) if isinstance(n, ast.While)}
        heads = heads_by_file[f]
        if not heads:
            continue
        seen = set()

        def walk_code(code):
            if id(code) in seen:
                return
            seen.add(id(code))
            if code.co_filename == f:
                lines = {ln for _, _, ln in code.co_lines() if ln is not None}
                own = set(lines & heads)
                # lines of nested code objects belong to those
                if own:
                    out.setdefault(code, set()).update(own)
            for c in code.co_consts:
                if isinstance(c, types.CodeType):
                    walk_code(c)

        def walk_obj(o, depth=0):
            if isinstance(o, types.FunctionType):
                walk_code(o.__code__)
            elif isinstance(o, (staticmethod, classmethod)):
                walk_obj(o.__func__, depth)
            elif isinstance(o, property):
                for g in (o.fget, o.fset, o.fdel):
                    if g is not None:
                        walk_obj(g, depth)
            elif isinstance(o, type) and depth < 3 and getattr(o, "__module__", None) == name:
                for v_ in vars(o).values():
                    walk_obj(v_, depth + 1)
        for v_ in list(vars(mod).values()):
            walk_obj(v_)
    return out


class _Fr:
    __slots__ = ("frame", "lf", "pending", "handling", "hline", "yields", "is_gen")

    def __init__(self, frame, lf):
        self.frame, self.lf = frame, lf
        self.pending = None      # exception object in flight in this frame
        self.handling = False    # an EXCEPTION_HANDLED for `pending` was seen and no RERAISE since
        self.hline = 0
        self.yields = 0


class Recorder:
    def __init__(self, layers, fam, extra_line_codes=()):
        # NB: dictionaries are keyed by id(code): hashing a code object hashes its whole content (~20 us)
        self._codes = [lf.code for lf in layers] + list(extra_line_codes)      # keep them alive
        self.layers = {id(lf.code): lf for lf in layers}
        self.layer_codes = [lf.code for lf in layers]
        self.fam = fam
        self.events = []
        self.stack = []          # list[_Fr]
        self.flying = None       # (exc object, class) that just left a layer frame
        self.problems = []       # projection inconsistencies (machinery, not verdicts)
        self.inject = None       # dict(code, line, hit, exc) | None
        self.hits = {}
        self.injected = False
        self.line_log = None     # list of (name, line, yields_of_frame) in dry runs
        self.extra_line_codes = {id(c): c for c in extra_line_codes}
        self.active = False
        self.inst = {}
        self.exc_detail = []     # (class name, repr) of every exception that arose in a layer frame
        self.loops = {}          # id(code) -> set of `while` header lines (progress monitor)
        self.loop_codes = {}     # id(code) -> code
        self.loop_count = {}
        self.loop_bound = 1 << 62
        self.loop_over = None

    # ------------------------------------------------------------------ lifecycle
    def install(self, line_events=False):
        mon.use_tool_id(TOOL, "c01")
        mon.register_callback(TOOL, E.PY_START, self._start)
        mon.register_callback(TOOL, E.PY_RETURN, self._return)
        mon.register_callback(TOOL, E.PY_YIELD, self._yield)
        mon.register_callback(TOOL, E.RAISE, self._raise)
        mon.register_callback(TOOL, E.RERAISE, self._reraise)
        mon.register_callback(TOOL, E.EXCEPTION_HANDLED, self._handled)
        mon.register_callback(TOOL, E.PY_UNWIND, self._unwind)
        mon.register_callback(TOOL, E.LINE, self._line)
        loc = E.PY_START | E.PY_RETURN | E.PY_YIELD
        for code in self.layer_codes:
            mon.set_local_events(TOOL, code, loc | (E.LINE if line_events or id(code) in self.loops else 0))
        for code in self.extra_line_codes.values():
            mon.set_local_events(TOOL, code, E.LINE if line_events or id(code) in self.loops else 0)
        mon.set_events(TOOL, E.RAISE | E.RERAISE | E.EXCEPTION_HANDLED | E.PY_UNWIND)
        self._line_events = line_events
        for cid, code in self.loop_codes.items():
            if cid not in self.layers and cid not in self.extra_line_codes:
                mon.set_local_events(TOOL, code, E.LINE)

    def set_line_events(self, on):
        if on == self._line_events:
            return
        loc = E.PY_START | E.PY_RETURN | E.PY_YIELD
        for code in self.layer_codes:
            mon.set_local_events(TOOL, code, loc | (E.LINE if on or id(code) in self.loops else 0))
        for code in self.extra_line_codes.values():
            mon.set_local_events(TOOL, code, E.LINE if on or id(code) in self.loops else 0)
        self._line_events = on

    def uninstall(self):
        mon.set_events(TOOL, 0)
        for code in self.layer_codes + list(self.extra_line_codes.values()) + list(self.loop_codes.values()):
            mon.set_local_events(TOOL, code, 0)
        mon.free_tool_id(TOOL)

    def begin(self, inject=None, dry=False):
        self.events = []
        self.stack = []
        self.flying = None
        self.problems = []
        self.inject = inject
        self.hits = {}
        self.injected = False
        self.line_log = [] if dry else None
        self.exc_detail = []
        self.inst = {}
        self.loop_count = {}
        self.loop_over = None
        self.active = True

    def end(self):
        self.active = False
        self._settle_all()
        ev = self.events
        return ev

    # ------------------------------------------------------------------ helpers
    def _find(self, frame):
        for i in range(len(self.stack) - 1, -1, -1):
            if self.stack[i].frame is frame:
                return i
        return -1

    def _emit(self, **kw):
        self.events.append(kw)

    def _settle(self, i):
        """frame i goes on normally: if it had caught the exception in flight, that was an absorption."""
        fr = self.stack[i]
        if fr.pending is not None and fr.handling:
            self._emit(a="Absorb", d=i + 1, w=bool(fr.hline in fr.lf.wrapper_hdl))
            fr.pending = None
            fr.handling = False

    def _settle_all(self):
        for i in range(len(self.stack)):
            self._settle(i)

    def _drop_above(self, i):
        """frames above i are suspended children that will never run again (closed generators)."""
        del self.stack[i + 1:]

    # ------------------------------------------------------------------ callbacks
    def _start(self, code, off):
        if not self.active:
            return
        lf = self.layers.get(id(code))
        if lf is None:
            return
        frame = sys._getframe(1)
        if self._find(frame) >= 0:
            return
        # the caller is the innermost live layer frame that is actually running
        if self.stack:
            self._settle(len(self.stack) - 1)
        self.stack.append(_Fr(frame, lf))
        self.inst[id(code)] = self.inst.get(id(code), 0) + 1
        self._emit(a="Enter", t=lf.t, k=lf.k)

    def _return(self, code, off, rv):
        if not self.active or id(code) not in self.layers:
            return
        i = self._find(sys._getframe(1))
        if i < 0:
            return
        self._settle(i)
        if i != len(self.stack) - 1:
            self._drop_above(i)
        self._emit(a="Return", d=i + 1)
        self.stack.pop()

    def _yield(self, code, off, rv):
        if not self.active or id(code) not in self.layers:
            return
        i = self._find(sys._getframe(1))
        if i < 0:
            return
        self._settle(i)
        fr = self.stack[i]
        fr.yields += 1
        # only the outermost GENERATOR layer frame's yields are results crossing the API boundary
        first_gen = 0
        while first_gen < len(self.stack) and self.stack[first_gen].lf.t == "Cli":
            first_gen += 1
        if i == first_gen:
            self._emit(a="Yield")

    def _raise(self, code, off, exc):
        if not self.active:
            return
        lf = self.layers.get(id(code))
        if lf is None:
            return
        if isinstance(exc, GeneratorExit):
            return
        frame = sys._getframe(1)
        i = self._find(frame)
        if i < 0:
            return
        fr = self.stack[i]
        if fr.pending is exc:
            return                                   # same object raised again (raise exc)
        line = frame.f_lineno
        if self.flying is not None and self.flying[0] is exc:
            # propagation from the child layer frame that just unwound
            self.flying = None
            fr.pending, fr.handling = exc, False
            return
        c = classify(exc, self.fam)
        if i != len(self.stack) - 1:
            self._drop_above(i)
        if fr.pending is not None and fr.handling:
            if line in lf.wrapper_hdl:
                self._emit(a="Wrap", d=i + 1, c=c)
                fr.pending, fr.handling = exc, False
                self.exc_detail.append((type(exc).__name__, lf.name, line, "wrap"))
                return
            self._emit(a="Absorb", d=i + 1, w=False)
        self._emit(a="Raise", d=i + 1, st=lf.stage_of(line), c=c, ay=fr.yields > 0)
        self.exc_detail.append((type(exc).__name__, lf.name, line, repr(exc)[:120]))
        fr.pending, fr.handling = exc, False

    def _reraise(self, code, off, exc):
        if not self.active or id(code) not in self.layers:
            return
        i = self._find(sys._getframe(1))
        if i < 0:
            return
        fr = self.stack[i]
        if fr.pending is exc:
            fr.handling = False
        elif not isinstance(exc, GeneratorExit) and fr.pending is None:
            # an exception stored earlier and re-raised (finally after a swallowed one): treat as in flight
            fr.pending, fr.handling = exc, False

    def _handled(self, code, off, exc):
        if not self.active or id(code) not in self.layers:
            return
        frame = sys._getframe(1)
        i = self._find(frame)
        if i < 0:
            return
        fr = self.stack[i]
        if fr.pending is exc:
            fr.handling = True
            fr.hline = frame.f_lineno

    def _unwind(self, code, off, exc):
        if not self.active or id(code) not in self.layers:
            return
        frame = sys._getframe(1)
        i = self._find(frame)
        if i < 0:
            return
        if isinstance(exc, GeneratorExit):
            # a closed generator: it (and everything above it) silently disappears
            del self.stack[i:]
            return
        fr = self.stack[i]
        if i != len(self.stack) - 1:
            self._drop_above(i)
        c = classify(exc, self.fam)
        if fr.pending is not exc:
            # left without having been seen arising here (should not happen): make it visible
            self._emit(a="Raise", d=i + 1, st=fr.lf.stage_of(frame.f_lineno), c=c, ay=fr.yields > 0)
        pst = "try"
        if i > 0:
            par = self.stack[i - 1]
            pst = par.lf.stage_of(par.frame.f_lineno)
        self._emit(a="Unwind", d=i + 1, c=c, pst=pst)
        self.stack.pop()
        self.flying = (exc, c)

    def _line(self, code, line):
        if not self.active:
            return
        cid = id(code)
        heads = self.loops.get(cid)
        if heads is not None:
            if line in heads:
                k = (cid, line)
                n = self.loop_count.get(k, 0) + 1
                self.loop_count[k] = n
                if n > self.loop_bound:
                    self.loop_over = (code.co_name, line, n)
                    raise LoopOverrun(f"{code.co_name}:{line} iterated {n} times")
            elif cid not in self.layers and cid not in self.extra_line_codes:
                return mon.DISABLE
        lf = self.layers.get(id(code))
        if self.line_log is not None and lf is not None:
            i = self._find(sys._getframe(1))
            y = self.stack[i].yields if i >= 0 else 0
            self.line_log.append((lf.name, line, 1 if y else 0, self.inst.get(id(code), 1)))
        inj = self.inject
        if inj is None or self.injected or code is not inj["code"] or line != inj["line"]:
            return
        if lf is not None:
            i = self._find(sys._getframe(1))
            y = 1 if (i >= 0 and self.stack[i].yields) else 0
        else:
            y = 0
        key = (line, y)
        n = self.hits.get(key, 0) + 1
        self.hits[key] = n
        if y == inj["ay"] and n == inj["hit"]:
            self.injected = True
            raise inj["make"]()
