"""C12 helper: concretiser for the member scenarios of Limits.tla (part (a)).

members: [{"size": n, "name": j, "type": t, "target": k}]  (k = 1-based entry index or 0), in archive order.
Entry i (1-based) is filled with the byte value i, so the bytes that reach an extractor identify the ENTRY
they came from (names do not: two entries may carry one name).  tar: regular, hard link, symbolic link, fifo,
character device, old-GNU sparse (hand-made header: the logical size lives in the header, one stored block)
and pax-extended entries; zip / 7z: regular entries, duplicate names allowed."""
from __future__ import annotations

import io
import tarfile
import warnings
import zipfile

from . import c12_sevenz


def member_name(m) -> str:
    j = m["name"]
    if m["type"] == "pax":
        return "p" * 110 + f"_é{j}.txt"          # > 100 chars and non-ASCII: needs a pax path record
    if m["type"] in ("empty", "anti"):
        return f"{m['type'][0]}{j}.txt"
    if m["type"] == "dir":
        return f"d{j}"
    return f"n{j}.txt"


def content(i: int, n: int) -> bytes:
    return bytes([i]) * n


def build_zip(members) -> bytes:
    buf = io.BytesIO()
    with warnings.catch_warnings():
        warnings.simplefilter("ignore")                  # "Duplicate name" is intended
        with zipfile.ZipFile(buf, "w", zipfile.ZIP_DEFLATED, compresslevel=6) as z:
            for i, m in enumerate(members, start=1):
                z.writestr(zipfile.ZipInfo(member_name(m)), content(i, m["size"]), zipfile.ZIP_DEFLATED)
    return buf.getvalue()


def build_7z(members, method) -> bytes:
    """Folders as the scenario says (member["folder"]); entries without data stream: empty file, directory, anti."""
    if all(m["type"] == "reg" and m.get("folder", 1) == 1 for m in members):
        return c12_sevenz.write_7z([(member_name(m), content(i, m["size"])) for i, m in enumerate(members, start=1)],
                                   method=method)
    return c12_sevenz.write_7z_layout(
        [(member_name(m), content(i, m["size"]) if m["type"] == "reg" else None, m["type"], m.get("folder", 0))
         for i, m in enumerate(members, start=1)], method=method)


def _pad(b: bytes) -> bytes:
    return b + bytes(-len(b) % 512)


def _sparse_header(name: str, stored: int, logical: int) -> bytes:
    ti = tarfile.TarInfo(name)
    ti.type = tarfile.GNUTYPE_SPARSE
    ti.size = stored
    buf = bytearray(ti.tobuf(tarfile.GNU_FORMAT))
    assert len(buf) == 512
    buf[386:398] = tarfile.itn(0, 12, tarfile.GNU_FORMAT)
    buf[398:410] = tarfile.itn(stored, 12, tarfile.GNU_FORMAT)
    buf[410:422] = tarfile.itn(logical, 12, tarfile.GNU_FORMAT)     # terminating map entry (offset = size, 0 bytes)
    buf[422:434] = tarfile.itn(0, 12, tarfile.GNU_FORMAT)
    buf[482] = 0
    buf[483:495] = tarfile.itn(logical, 12, tarfile.GNU_FORMAT)
    buf[148:156] = b"        "
    chk = tarfile.calc_chksums(bytes(buf))[0]
    buf[148:156] = b"%06o\0 " % chk
    return bytes(buf)


def build_tar(members, comp: str) -> bytes:
    buf = io.BytesIO()
    with tarfile.open(fileobj=buf, mode="w:" + comp, format=tarfile.GNU_FORMAT) as tf:
        def raw(block: bytes):
            tf.fileobj.write(block)
            tf.offset += len(block)
        for i, m in enumerate(members, start=1):
            name, t = member_name(m), m["type"]
            if t == "reg":
                ti = tarfile.TarInfo(name)
                ti.size = m["size"]
                tf.addfile(ti, io.BytesIO(content(i, m["size"])))
            elif t in ("hard", "sym"):
                ti = tarfile.TarInfo(name)
                ti.type = tarfile.LNKTYPE if t == "hard" else tarfile.SYMTYPE
                ti.linkname = member_name(members[m["target"] - 1]) if m["target"] else "nowhere.txt"
                tf.addfile(ti)
            elif t in ("fifo", "chr"):
                ti = tarfile.TarInfo(name)
                ti.type = tarfile.FIFOTYPE if t == "fifo" else tarfile.CHRTYPE
                ti.devmajor, ti.devminor = 1, 3
                tf.addfile(ti)
            elif t == "sparse":
                stored = 512                               # one stored block, the rest of the logical size is a hole
                raw(_sparse_header(name, stored, m["size"]) + _pad(content(i, stored)))
            elif t == "pax":
                ti = tarfile.TarInfo(name)
                ti.size = m["size"]
                ti.pax_headers = {"comment": "c12"}
                raw(ti.tobuf(tarfile.PAX_FORMAT, "utf-8", "surrogateescape") + _pad(content(i, m["size"])))
            else:
                raise ValueError(t)
    return buf.getvalue()
