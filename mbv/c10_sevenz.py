"""Independent 7z WRITER (and an independent header parser used only to validate the writer).

Written from the 7z format description (7zFormat.txt of the LZMA SDK), not from the library under
verification.  Part of the trusted base of C09 / C10; validated at every run by
  (a) parse-level comparison with the repository's fixture archive: the fixture's (encoded) header is
      decoded and parsed by `parse_header`, re-serialised by `build_header` from the parsed structure and
      must be byte-identical; the folder payload is decoded with the stdlib lzma module and must carry
      the substream CRCs the header states;
  (b) the same round trip on every archive this module writes (`self_check`);
  (c) reading solid archives written here with the real SevenZipReader (done by the C10 driver).

Archive layout written:

    SignatureHeader (32 bytes)  '7z' BC AF 27 1C, version 0.4, StartHeaderCRC, NextHeaderOffset/Size/CRC
    [gap bytes]                 optional junk so that PackPos # 0
    pack stream of folder 1, pack stream of folder 2, ...
    [pack stream of the encoded header]
    Header | EncodedHeader

    Header        = 01 [MainStreamsInfo 04 PackInfo UnpackInfo SubStreamsInfo 00] [FilesInfo 05 ...] 00
    PackInfo      = 06 PackPos NumPackStreams [09 sizes] [0A digests] 00
    UnpackInfo    = 07 0B NumFolders 00(external) folders 0C unpack-sizes [0A digests] 00
    Folder        = NumCoders { flags id [nin nout] [propsize props] } bindpairs [packed indices]
    SubStreams    = 08 [0D streams per folder] [09 sizes (all but the last of each folder)] [0A digests] 00
    FilesInfo     = 05 NumFiles { type size data } 00     0E emptyStream 0F emptyFile 11 names 14 mtime
                    15 attributes 19 dummy
"""
from __future__ import annotations

import io
import lzma
import struct
import zlib

MAGIC = b"7z\xbc\xaf\x27\x1c"
COPY, LZMA, LZMA2 = b"\x00", b"\x03\x01\x01", b"\x21"
CODER_IDS = {"copy": COPY, "lzma": LZMA, "lzma2": LZMA2}


# ------------------------------------------------------------------ primitive encodings
def num(n: int) -> bytes:
    """7z NUMBER: first byte's leading 1-bits say how many extra bytes follow (little endian)."""
    assert 0 <= n < 1 << 64
    for extra in range(8):
        if n < 1 << (7 * (extra + 1)):
            mask_bits = (0xFF << (8 - extra)) & 0xFF
            high = n >> (8 * extra)
            return bytes([mask_bits | high]) + (n & ((1 << (8 * extra)) - 1)).to_bytes(extra, "little")
    return b"\xff" + n.to_bytes(8, "little")


def bitvec(bits) -> bytes:
    out = bytearray((len(bits) + 7) // 8)
    for i, b in enumerate(bits):
        if b:
            out[i // 8] |= 0x80 >> (i % 8)
    return bytes(out)


def digests(crcs) -> bytes:
    """crcs: list of int | None."""
    if all(c is not None for c in crcs):
        return b"\x01" + b"".join(struct.pack("<I", c) for c in crcs)
    return b"\x00" + bitvec([c is not None for c in crcs]) + b"".join(struct.pack("<I", c) for c in crcs
                                                                      if c is not None)


def crc32(b: bytes) -> int:
    return zlib.crc32(b) & 0xFFFFFFFF


# ------------------------------------------------------------------ coders
def lzma2_prop(dict_size: int) -> int:
    for p in range(41):
        d = 0xFFFFFFFF if p == 40 else (2 | (p & 1)) << (p // 2 + 11)
        if d >= dict_size:
            return p
    raise ValueError(dict_size)


def lzma2_dict(p: int) -> int:
    return 0xFFFFFFFF if p == 40 else (2 | (p & 1)) << (p // 2 + 11)


def encode(coder: str, data: bytes, dict_size: int = 1 << 16, declared: int | None = None):
    """-> (packed bytes, coder id, property bytes | None).  `declared`: dictionary size written into the coder
    properties (>= the one used for encoding: what a packer run with a large dictionary on small input declares)."""
    if coder == "copy":
        return data, COPY, None
    if coder == "lzma":
        lc, lp, pb = 3, 0, 2
        f = [{"id": lzma.FILTER_LZMA1, "dict_size": dict_size, "lc": lc, "lp": lp, "pb": pb}]
        return (lzma.compress(data, format=lzma.FORMAT_RAW, filters=f), LZMA,
                bytes([(pb * 5 + lp) * 9 + lc]) + struct.pack("<I", max(declared or 0, dict_size)))
    if coder == "lzma2":
        p = lzma2_prop(dict_size)
        f = [{"id": lzma.FILTER_LZMA2, "dict_size": lzma2_dict(p)}]
        return (lzma.compress(data, format=lzma.FORMAT_RAW, filters=f), LZMA2,
                bytes([max(p, lzma2_prop(min(declared, 0xFFFFFFFF))) if declared else p]))
    raise ValueError(coder)


def decode(coder_id: bytes, props, packed: bytes, unpack_size: int) -> bytes:
    """Reference decoding with the stdlib (used for validation only)."""
    if coder_id == COPY:
        return packed
    if coder_id == LZMA:
        d = props[0]
        lc, rem = d % 9, d // 9
        lp, pb = rem % 5, rem // 5
        f = [{"id": lzma.FILTER_LZMA1, "dict_size": min(max(4096, struct.unpack("<I", props[1:5])[0]), 1 << 26),
              "lc": lc, "lp": lp, "pb": pb}]
        dec = lzma.LZMADecompressor(format=lzma.FORMAT_RAW, filters=f)
        return dec.decompress(packed, max_length=unpack_size)
    if coder_id == LZMA2:
        f = [{"id": lzma.FILTER_LZMA2, "dict_size": min(max(4096, lzma2_dict(props[0])), 1 << 26)}]   # validation only:
        # this writer never encodes with more than 64 MiB, whatever the properties declare
        return lzma.LZMADecompressor(format=lzma.FORMAT_RAW, filters=f).decompress(packed)
    raise ValueError(coder_id)


# ------------------------------------------------------------------ header serialisation
def build_streams_info(si) -> bytes:
    """si = {"pack": {...} | None, "folders": [...], "sub": {...} | None}"""
    out = bytearray()
    pk = si.get("pack")
    if pk is not None:
        out += b"\x06" + num(pk["pos"]) + num(len(pk["sizes"]))
        if pk["sizes"] or pk.get("force_sizes"):
            out += b"\x09" + b"".join(num(s) for s in pk["sizes"])
        if pk.get("crcs") is not None:
            out += b"\x0a" + digests(pk["crcs"])
        out += b"\x00"
    folders = si.get("folders")
    if folders is not None:
        out += b"\x07\x0b" + num(len(folders)) + b"\x00"
        for f in folders:
            out += num(len(f["coders"]))
            for c in f["coders"]:
                flags = len(c["id"])
                cplx = c.get("nin", 1) != 1 or c.get("nout", 1) != 1
                if cplx:
                    flags |= 0x10
                if c.get("props") is not None:
                    flags |= 0x20
                out += bytes([flags]) + c["id"]
                if cplx:
                    out += num(c["nin"]) + num(c["nout"])
                if c.get("props") is not None:
                    out += num(len(c["props"])) + c["props"]
            for a, b in f.get("bind", []):
                out += num(a) + num(b)
            if len(f.get("packed", [])) > 1:
                out += b"".join(num(i) for i in f["packed"])
        out += b"\x0c"
        for f in folders:
            out += b"".join(num(s) for s in f["unpack_sizes"])
        if any(f.get("crc") is not None for f in folders):
            out += b"\x0a" + digests([f.get("crc") for f in folders])
        out += b"\x00"
    sub = si.get("sub")
    if sub is not None:
        out += b"\x08"
        if sub.get("nums") is not None:
            out += b"\x0d" + b"".join(num(n) for n in sub["nums"])
        if sub.get("sizes") is not None:
            out += b"\x09" + b"".join(num(s) for s in sub["sizes"])
        if sub.get("crcs") is not None:
            out += b"\x0a" + digests(sub["crcs"])
        out += b"\x00"
    out += b"\x00"
    return bytes(out)


def build_files_info(files, order) -> bytes:
    """files: [{"name", "empty_stream", "empty_file", "attr", "mtime"}]; order: property order, e.g.
    ["empty_stream", "empty_file", ("dummy", n), "names", "mtime", "attrs"]."""
    out = bytearray(b"\x05" + num(len(files)))
    empties = [f for f in files if f.get("empty_stream")]
    for item in order:
        if item == "empty_stream":
            body = bitvec([bool(f.get("empty_stream")) for f in files])
            out += b"\x0e" + num(len(body)) + body
        elif item == "empty_file":
            body = bitvec([bool(f.get("empty_file")) for f in empties])
            out += b"\x0f" + num(len(body)) + body
        elif item == "anti":
            body = bitvec([bool(f.get("anti")) for f in empties])
            out += b"\x10" + num(len(body)) + body
        elif item == "names":
            body = b"\x00" + b"".join(f["name"].encode("utf-16-le", "surrogatepass") + b"\x00\x00" for f in files)
            out += b"\x11" + num(len(body)) + body
        elif item == "mtime":
            ts = [f.get("mtime") for f in files]
            body = (b"\x01" if all(t is not None for t in ts) else b"\x00" + bitvec([t is not None for t in ts])) \
                + b"\x00" + b"".join(struct.pack("<Q", t) for t in ts if t is not None)
            out += b"\x14" + num(len(body)) + body
        elif item == "attrs":
            at = [f.get("attr") for f in files]
            body = (b"\x01" if all(a is not None for a in at) else b"\x00" + bitvec([a is not None for a in at])) \
                + b"\x00" + b"".join(struct.pack("<I", a) for a in at if a is not None)
            out += b"\x15" + num(len(body)) + body
        elif isinstance(item, (tuple, list)) and item[0] == "dummy":
            out += b"\x19" + num(item[1]) + b"\x00" * item[1]
        else:
            raise ValueError(item)
    out += b"\x00"
    return bytes(out)


def build_header(h) -> bytes:
    out = bytearray(b"\x01")
    if h.get("streams") is not None:
        out += b"\x04" + build_streams_info(h["streams"])
    if h.get("files") is not None:
        out += build_files_info(h["files"], h["order"])
    out += b"\x00"
    return bytes(out)


def signature_header(next_off: int, next_size: int, next_crc: int) -> bytes:
    tail = struct.pack("<QQI", next_off, next_size, next_crc)
    return MAGIC + b"\x00\x04" + struct.pack("<I", crc32(tail)) + tail


# ------------------------------------------------------------------ independent parser (validation)
class _R:
    def __init__(self, b):
        self.b, self.p = b, 0

    def u8(self):
        self.p += 1
        return self.b[self.p - 1]

    def take(self, n):
        if self.p + n > len(self.b):
            raise ValueError("short header")
        self.p += n
        return self.b[self.p - n:self.p]

    def num(self):
        first = self.u8()
        extra = 0
        while extra < 8 and first & (0x80 >> extra):
            extra += 1
        low = int.from_bytes(self.take(extra), "little")
        if extra == 8:
            return low
        return ((first & ((0x80 >> extra) - 1)) << (8 * extra)) | low

    def bits(self, n):
        raw = self.take((n + 7) // 8)
        return [bool(raw[i // 8] & (0x80 >> (i % 8))) for i in range(n)]

    def digests(self, n):
        defined = [True] * n if self.u8() else self.bits(n)
        return [struct.unpack("<I", self.take(4))[0] if d else None for d in defined]


def parse_streams_info(r: _R):
    si = {"pack": None, "folders": None, "sub": None}
    t = r.u8()
    if t == 0x06:
        pos, n = r.num(), r.num()
        pk = {"pos": pos, "sizes": [], "crcs": None}
        t = r.u8()
        if t == 0x09:
            pk["sizes"] = [r.num() for _ in range(n)]
            t = r.u8()
        if t == 0x0A:
            pk["crcs"] = r.digests(n)
            t = r.u8()
        assert t == 0, t
        si["pack"] = pk
        t = r.u8()
    if t == 0x07:
        assert r.u8() == 0x0B
        nf = r.num()
        assert r.u8() == 0
        folders = []
        for _ in range(nf):
            coders, nin_t, nout_t = [], 0, 0
            for _ in range(r.num()):
                fl = r.u8()
                c = {"id": bytes(r.take(fl & 0x0F)), "nin": 1, "nout": 1, "props": None}
                if fl & 0x10:
                    c["nin"], c["nout"] = r.num(), r.num()
                if fl & 0x20:
                    c["props"] = bytes(r.take(r.num()))
                nin_t += c["nin"]
                nout_t += c["nout"]
                coders.append(c)
            bind = [(r.num(), r.num()) for _ in range(nout_t - 1)]
            npacked = nin_t - (nout_t - 1)
            packed = [r.num() for _ in range(npacked)] if npacked > 1 else [0]
            folders.append({"coders": coders, "bind": bind, "packed": packed, "nout": nout_t, "crc": None})
        assert r.u8() == 0x0C
        for f in folders:
            f["unpack_sizes"] = [r.num() for _ in range(f["nout"])]
        t = r.u8()
        if t == 0x0A:
            for f, c in zip(folders, r.digests(nf)):
                f["crc"] = c
            t = r.u8()
        assert t == 0, t
        si["folders"] = folders
        t = r.u8()
    if t == 0x08:
        folders = si["folders"] or []
        sub = {"nums": None, "sizes": None, "crcs": None}
        t = r.u8()
        nums = [1] * len(folders)
        if t == 0x0D:
            nums = sub["nums"] = [r.num() for _ in folders]
            t = r.u8()
        if t == 0x09:
            sub["sizes"] = [r.num() for n in nums for _ in range(max(0, n - 1))]
            t = r.u8()
        if t == 0x0A:
            unknown = sum(n for f, n in zip(folders, nums) if not (n == 1 and f["crc"] is not None))
            sub["crcs"] = r.digests(unknown)
            t = r.u8()
        assert t == 0, t
        si["sub"] = sub
        t = r.u8()
    assert t == 0, t
    return si


def parse_header(b: bytes):
    r = _R(b)
    assert r.u8() == 0x01, "not a Header"
    h = {"streams": None, "files": None, "order": []}
    t = r.u8()
    if t == 0x04:
        h["streams"] = parse_streams_info(r)
        t = r.u8()
    if t == 0x05:
        n = r.num()
        files = [{"name": "", "empty_stream": False, "empty_file": False, "attr": None, "mtime": None}
                 for _ in range(n)]
        while True:
            pt = r.u8()
            if pt == 0:
                break
            size = r.num()
            end = r.p + size
            if pt == 0x0E:
                for f, bit in zip(files, r.bits(n)):
                    f["empty_stream"] = bit
                h["order"].append("empty_stream")
            elif pt == 0x0F:
                emp = [f for f in files if f["empty_stream"]]
                for f, bit in zip(emp, r.bits(len(emp))):
                    f["empty_file"] = bit
                h["order"].append("empty_file")
            elif pt == 0x10:
                emp = [f for f in files if f["empty_stream"]]
                for f, bit in zip(emp, r.bits(len(emp))):
                    f["anti"] = bit
                h["order"].append("anti")
            elif pt == 0x11:
                assert r.u8() == 0
                raw = r.take(end - r.p)
                names = raw.decode("utf-16-le", "surrogatepass").split("\x00")
                assert names[-1] == "" and len(names) == n + 1, names
                for f, nm in zip(files, names):
                    f["name"] = nm
                h["order"].append("names")
            elif pt == 0x14:
                defined = [True] * n if r.u8() else r.bits(n)
                assert r.u8() == 0
                for f, d in zip(files, defined):
                    f["mtime"] = struct.unpack("<Q", r.take(8))[0] if d else None
                h["order"].append("mtime")
            elif pt == 0x15:
                defined = [True] * n if r.u8() else r.bits(n)
                assert r.u8() == 0
                for f, d in zip(files, defined):
                    f["attr"] = struct.unpack("<I", r.take(4))[0] if d else None
                h["order"].append("attrs")
            elif pt == 0x19:
                assert r.take(size) == b"\x00" * size
                h["order"].append(("dummy", size))
            else:
                raise ValueError(f"files property {pt:#x} not handled by the validator")
            assert r.p == end, (pt, r.p, end)
        h["files"] = files
        t = r.u8()
    assert t == 0 and r.p == len(b), (t, r.p, len(b))
    return h


def read_container(data: bytes):
    """-> (header bytes (decoded if encoded), was_encoded, raw next-header bytes).  Checks both CRCs."""
    assert data[:6] == MAGIC and data[6] == 0
    start_crc, = struct.unpack("<I", data[8:12])
    assert crc32(data[12:32]) == start_crc, "start header crc"
    off, size, ncrc = struct.unpack("<QQI", data[12:32])
    raw = data[32 + off:32 + off + size]
    assert len(raw) == size and crc32(raw) == ncrc, "next header crc"
    if raw[:1] != b"\x17":
        return raw, False, raw
    r = _R(raw)
    r.u8()
    si = parse_streams_info(r)
    assert r.p == len(raw)
    f = si["folders"][0]
    assert len(f["coders"]) == 1
    pos = 32 + si["pack"]["pos"]
    packed = data[pos:pos + si["pack"]["sizes"][0]]
    hdr = decode(f["coders"][0]["id"], f["coders"][0]["props"], packed, f["unpack_sizes"][-1])
    assert len(hdr) == f["unpack_sizes"][-1]
    if f["crc"] is not None:
        assert crc32(hdr) == f["crc"], "encoded header crc"
    return hdr, True, raw


def reference_extract(data: bytes):
    """Independent extraction (format-description addressing): [(name, kind, bytes | None)] in header order."""
    hdr, _, _ = read_container(data)
    h = parse_header(hdr)
    si = h["streams"] or {"pack": None, "folders": None, "sub": None}
    folders = si["folders"] or []
    nums = (si["sub"] or {}).get("nums") or [1] * len(folders)
    sizes_rest = list((si["sub"] or {}).get("sizes") or [])
    crcs = list((si["sub"] or {}).get("crcs") or [])
    streams = []
    pack_i = 0
    pos = 32 + (si["pack"]["pos"] if si["pack"] else 0)
    for f, n in zip(folders, nums):
        assert len(f["coders"]) == 1 and len(f["packed"]) == 1
        psz = si["pack"]["sizes"][pack_i]
        raw = decode(f["coders"][0]["id"], f["coders"][0]["props"], data[pos:pos + psz], f["unpack_sizes"][-1])
        assert len(raw) == f["unpack_sizes"][-1], "folder unpack size"
        pos += psz
        pack_i += 1
        sz = [sizes_rest.pop(0) for _ in range(max(0, n - 1))]
        if n:
            sz.append(f["unpack_sizes"][-1] - sum(sz))
        o = 0
        for s in sz:
            chunk = raw[o:o + s]
            o += s
            c = f["crc"] if (n == 1 and f["crc"] is not None) else (crcs.pop(0) if crcs else None)
            if c is not None:
                assert crc32(chunk) == c, "substream crc"
            streams.append(chunk)
    out = []
    for f in h["files"] or []:
        if f["empty_stream"]:
            out.append((f["name"], "empty" if f["empty_file"] else "dir", b"" if f["empty_file"] else None))
        else:
            out.append((f["name"], "file", streams.pop(0) if streams else None))
    return out


def roundtrip_check(data: bytes) -> None:
    """The header of `data` re-serialised from its parsed structure must be byte-identical."""
    hdr, enc, raw = read_container(data)
    h = parse_header(hdr)
    again = build_header(h)
    if again != hdr:
        raise AssertionError("7z writer/validator dialect mismatch: header does not round-trip")
    if enc:
        r = _R(raw)
        r.u8()
        si = parse_streams_info(r)
        if b"\x17" + build_streams_info(si) != raw:
            raise AssertionError("encoded-header streams info does not round-trip")


# ------------------------------------------------------------------ the writer
def write_7z(entries, folders, *, coders="lzma2", encode_header=False, gap=0, dict_size=1 << 16,
             attrs=True, mtime=False, always_nums=False, corrupt=None, declared_dict=None):
    """entries: [{"name": str, "kind": "file" | "dir" | "empty" | "anti" | "nostream", "data": bytes}]
    ("anti" = anti-item: an entry without stream whose kAnti bit is set)
    folders: [[entry index, ...], ...]  (ordered partition of the "file" entries, in entry order)
    coders: one name or one per folder.  gap: junk bytes before the first pack stream (PackPos = gap).
    "nostream" entries are listed as files WITH a stream (emptyStream bit clear) but get none.
    corrupt: None | ("flip", folder_idx, rel_offset) | ("crc", stream_idx) | ("trunc", folder_idx, nbytes)
    -> (archive bytes, info) with info["pack"] = [(abs offset, size)] per folder."""
    if isinstance(coders, str):
        coders = [coders] * len(folders)
    packs, fstructs, nums, sub_sizes, crcs = [], [], [], [], []
    for fi, (idxs, coder) in enumerate(zip(folders, coders)):
        chunks = [entries[i]["data"] for i in idxs]
        raw = b"".join(chunks)
        packed, cid, props = encode(coder, raw, dict_size, declared_dict)
        if corrupt and corrupt[0] == "trunc" and corrupt[1] == fi:
            packed = packed[:max(1, len(packed) - corrupt[2])]
        if corrupt and corrupt[0] == "flip" and corrupt[1] == fi:
            b = bytearray(packed)
            b[corrupt[2] % len(b)] ^= 0x55
            packed = bytes(b)
        packs.append(packed)
        fstructs.append({"coders": [{"id": cid, "props": props, "nin": 1, "nout": 1}], "bind": [], "packed": [0],
                         "unpack_sizes": [len(raw)], "crc": None})
        nums.append(len(idxs))
        sub_sizes += [len(c) for c in chunks[:-1]]
        crcs += [crc32(c) for c in chunks]
    if corrupt and corrupt[0] == "crc":
        crcs[corrupt[1]] ^= 0xFFFFFFFF
    streams = None
    if folders:
        sub = {"nums": nums if (always_nums or any(n != 1 for n in nums)) else None,
               "sizes": sub_sizes if any(n > 1 for n in nums) else None,
               "crcs": crcs}
        streams = {"pack": {"pos": gap, "sizes": [len(p) for p in packs], "crcs": None},
                   "folders": fstructs, "sub": sub}
    files = []
    for e in entries:
        k = e["kind"]
        files.append({"name": e["name"], "empty_stream": k in ("dir", "empty", "anti"), "empty_file": k == "empty",
                      "anti": k == "anti",
                      "attr": (0x10 if k == "dir" else 0x20) if attrs else None,
                      "mtime": 132000000000000000 if mtime else None})
    order = []
    if any(f["empty_stream"] for f in files):
        order.append("empty_stream")
        if any(f["empty_file"] for f in files):
            order.append("empty_file")
        if any(f["anti"] for f in files):
            order.append("anti")
    order.append("names")
    if mtime:
        order.append("mtime")
    if attrs:
        order.append("attrs")
    header = build_header({"streams": streams, "files": files if files else None, "order": order})
    body = bytearray(b"\xa5" * gap)
    info = {"pack": []}
    for p in packs:
        info["pack"].append((32 + len(body), len(p)))
        body += p
    if encode_header:
        packed, cid, props = encode("lzma", header, 1 << 16)
        enc_si = {"pack": {"pos": len(body), "sizes": [len(packed)], "crcs": None},
                  "folders": [{"coders": [{"id": cid, "props": props, "nin": 1, "nout": 1}], "bind": [],
                               "packed": [0], "unpack_sizes": [len(header)], "crc": crc32(header)}],
                  "sub": None}
        body += packed
        nxt = b"\x17" + build_streams_info(enc_si)
    else:
        nxt = header
    data = signature_header(len(body), len(nxt), crc32(nxt)) + bytes(body) + nxt
    info["header"] = header
    return data, info


def self_check(data: bytes, entries=None) -> None:
    """Round trip + independent extraction of an archive written here (uncorrupted ones only)."""
    roundtrip_check(data)
    if entries is not None:
        ref = reference_extract(data)
        want = [(e["name"], "file" if e["kind"] in ("file", "nostream") else ("dir" if e["kind"] == "anti" else e["kind"]),
                 e["data"] if e["kind"] == "file" else (b"" if e["kind"] == "empty" else None)) for e in entries]
        if ref != want:
            raise AssertionError("7z writer: independent extraction differs from the entries written")
