"""C15 binding: hook-free observation of the PDF patch section and a deterministic thread scheduler.

Nothing here is committed to the repo.  The shared variable of specs/PatchSection.tla is the module
attribute pypdf._page.build_char_map.  We swap the *class* of that module object for a
types.ModuleType subclass whose __getattribute__/__setattr__ see every getattr/setattr that
pdf_extractor._patched_build_char_map performs on it (pypdf's own calls go through LOAD_GLOBAL on
the module dict and are not affected).

Two modes:
  * scheduled (spec -> code): worker threads park *before* every operation on the shared variable,
    before the with-body and before every lock operation of the extractor module; the controller
    grants one thread at a time, so a schedule (sequence of thread ids) is executed exactly.
    Module-level locks of the extractor are wrapped in a proxy so that "blocked" is observed
    deterministically (non-blocking acquire failed), not guessed with a timeout; a timeout (30 s, then
    3 s) remains as a fallback for unknown blocking mechanisms.
  * free (code -> spec): threads run unscheduled; the interception performs the operation and
    appends the event under one recorder lock, so the recorded order is the real order.

Events (input of specs/PatchSectionTrace.tla):
  {"a":"Probe","t":t}            hasattr(module, name) inside _get_pypdf_char_map_patcher (no effect)
  {"a":"Get","t":t,"fn":chain}   getattr(module, name): value obtained, as wrapper chain
  {"a":"Set","t":t,"fn":chain}   setattr(module, name, v): value installed, as wrapper chain
  {"a":"Body","t":t,"fn":chain,"exc":bool}   the with-body runs and sees this binding (scheduled mode)
  {"a":"Blocked","t":t}          scheduled thread could not proceed (lock held by another thread)
  {"a":"Quiescent","fn":chain}   all threads joined; the binding as read by the harness
chain: [] = pypdf's original function; [a, b] = b's wrapper around a's wrapper around the original;
0 = a function that is neither (foreign).  A wrapper is labelled with the thread that installed it.
"""
from __future__ import annotations

import queue
import sys
import threading
import types

from .tlc import MachineryError

ATTR_TIMEOUT = 30.0          # fallback only: a granted thread neither parked, finished nor reported blocked
STUCK_TIMEOUT = 3.0          # ... after that has happened once in this process (unknown blocking mechanism)
_stuck_seen = []
_LOCK_TYPES = (type(threading.Lock()), type(threading.RLock()), threading.Semaphore)   # incl. BoundedSemaphore


class _Boom(Exception):
    """raised by the harness inside the with-body (Body(t, raises = TRUE))"""


class Binding:
    """Locate the patch section of the running code; exit 2 if its shape is not the modelled one."""

    def __init__(self):
        from . import repo
        self.pe = repo.need("sharepoint2text.parsing.extractors.pdf.pdf_extractor",
                            "_patched_build_char_map", "_get_pypdf_char_map_patcher")
        targets, _mk = self.pe._get_pypdf_char_map_patcher()
        if len(targets) != 1:
            raise MachineryError(f"PatchSection models one patched attribute (pypdf < 6.6 path); code patches "
                                 f"{[(m.__name__, n) for m, n in targets]}")
        self.mod, self.attr = targets[0]
        self.original = self.mod.__dict__[self.attr]
        import pypdf._cmap as cm
        if getattr(cm, self.attr, None) is not self.original:
            raise MachineryError(f"{self.mod.__name__}.{self.attr} is not pypdf's own function at start")
        self.probe_code = self.pe._get_pypdf_char_map_patcher.__code__
        # module-level locks of the extractor package (whatever they are called)
        self.locks = []
        for mname, m in sorted(sys.modules.items()):
            if m is not None and mname.startswith("sharepoint2text.parsing.extractors.pdf"):
                for k, v in sorted(vars(m).items()):
                    if isinstance(v, _LOCK_TYPES):
                        self.locks.append((m, k, v))


class Recorder:
    """Interception of the shared module attribute + event log + wrapper-chain projection."""

    def __init__(self, b: Binding):
        self.b = b
        self.events = []
        self.rec_lock = threading.Lock()
        self.tids = {}                 # threading.get_ident() -> small int
        self.known = {}                # id(function) -> (function kept alive, owner thread, inner function)
        self.sched = None              # Scheduler in scheduled mode
        self._installed = False

    # ---- projection
    @staticmethod
    def _unwrap(f):
        clo = getattr(f, "__closure__", None)
        code = getattr(f, "__code__", None)
        if not clo or code is None:
            return None
        names = code.co_freevars
        if "original" in names:
            try:
                return clo[names.index("original")].cell_contents
            except ValueError:
                return None
        for c in clo:
            try:
                v = c.cell_contents
            except ValueError:
                continue
            if callable(v):
                return v
        return None

    def chain(self, f, setter=None):
        """wrapper chain of f, innermost first; a not yet known wrapper is attributed to `setter`."""
        out = []
        seen = 0
        while f is not self.b.original:
            seen += 1
            k = self.known.get(id(f))
            if k is None:
                inner = self._unwrap(f)
                if inner is None or setter is None or seen > 1 or not isinstance(f, types.FunctionType):
                    out.append(0)          # foreign
                    break
                self.known[id(f)] = k = (f, setter, inner)
            out.append(k[1])
            f = k[2]
            if len(out) > 64:
                out.append(0)
                break
        out.reverse()
        return out

    def current(self):
        return self.chain(self.b.mod.__dict__[self.b.attr])

    # ---- interception
    def install(self):
        rec, b = self, self.b
        MT = types.ModuleType

        class _Watched(MT):
            def __getattribute__(self, name):
                if name != b.attr:
                    return MT.__getattribute__(self, name)
                t = rec.tids.get(threading.get_ident())
                if t is None:
                    return MT.__getattribute__(self, name)
                kind = "Probe" if sys._getframe(1).f_code is b.probe_code else "Get"
                if rec.sched is not None:
                    rec.sched.park(t, (kind,))
                with rec.rec_lock:
                    v = MT.__getattribute__(self, name)
                    if kind == "Probe":
                        rec.events.append({"a": "Probe", "t": t})
                    else:
                        rec.events.append({"a": "Get", "t": t, "fn": rec.chain(v)})
                return v

            def __setattr__(self, name, value):
                if name != b.attr:
                    return MT.__setattr__(self, name, value)
                t = rec.tids.get(threading.get_ident())
                if t is None:
                    return MT.__setattr__(self, name, value)
                if rec.sched is not None:
                    rec.sched.park(t, ("Set",))
                with rec.rec_lock:
                    MT.__setattr__(self, name, value)
                    rec.events.append({"a": "Set", "t": t, "fn": rec.chain(value, setter=t)})

            def __delattr__(self, name):
                if name == b.attr and rec.tids.get(threading.get_ident()) is not None:
                    raise MachineryError("patch section deletes the attribute: not modelled")
                return MT.__delattr__(self, name)

        self._cls = _Watched
        b.mod.__class__ = _Watched
        self._installed = True

    def uninstall(self):
        if self._installed:
            self.b.mod.__class__ = types.ModuleType
            self._installed = False

    def reset_binding(self):
        """put pypdf's own function back (after a run that left residue) so the next case starts clean"""
        self.b.mod.__dict__[self.b.attr] = self.b.original

    def take(self):
        ev, self.events = self.events, []
        self.known.clear()
        return ev


class _LockProxy:
    """Stands in for a module-level lock of the extractor while a Scheduler is active."""

    def __init__(self, real, name, rec: Recorder):
        self._real, self._name, self._rec = real, name, rec

    def acquire(self, blocking=True, timeout=-1):
        rec = self._rec
        t = rec.tids.get(threading.get_ident())
        s = rec.sched
        if t is None or s is None:
            return self._real.acquire(blocking, timeout)
        s.park(t, ("Acquire", self._name))
        while True:
            if self._real.acquire(False):
                return True
            if not blocking:
                return False
            s.blocked(t)

    def release(self):
        rec = self._rec
        t = rec.tids.get(threading.get_ident())
        if t is not None and rec.sched is not None:
            rec.sched.park(t, ("Release", self._name))
        self._real.release()

    __enter__ = acquire

    def __exit__(self, *a):
        self.release()

    def locked(self):
        return self._real.locked()


class Scheduler:
    """Runs k real threads, each making `calls` passes through the real _patched_build_char_map(),
    under an explicit schedule.  One scheduling choice = one observable step of PatchSection
    (Get / Set / Body, with the silent lock operations and the Probe attached), or Blocked."""

    VISIBLE = ("Get", "Set", "Body")

    def __init__(self, rec: Recorder, k: int, calls: int, raises):
        self.rec, self.k, self.calls = rec, k, calls
        self.raises = raises                      # raises[t-1][call] -> bool
        self.go = {t: threading.Semaphore(0) for t in range(1, k + 1)}
        self.arr = {t: queue.SimpleQueue() for t in range(1, k + 1)}
        self.pending = {}                         # t -> op tuple the thread is parked before | None (running)
        self.done = set()
        self.errors = []
        self.threads = {}

    # ---- called on worker threads
    def park(self, t, op):
        self.arr[t].put(("park", op))
        self.go[t].acquire()

    def blocked(self, t):
        self.arr[t].put(("blocked",))
        self.go[t].acquire()

    def _body(self, t, c):
        self.park(t, ("Body",))
        exc = bool(self.raises[t - 1][c])
        with self.rec.rec_lock:
            self.rec.events.append({"a": "Body", "t": t, "fn": self.rec.current(), "exc": exc})
        return exc

    def _worker(self, t):
        rec = self.rec
        rec.tids[threading.get_ident()] = t
        cm = rec.b.pe._patched_build_char_map
        try:
            for c in range(self.calls):
                try:
                    with cm():
                        if self._body(t, c):
                            raise _Boom()
                except _Boom:
                    pass
        except BaseException as e:  # noqa: the harness reports it
            self.errors.append((t, repr(e)))
        finally:
            rec.tids.pop(threading.get_ident(), None)
            self.arr[t].put(("done",))

    # ---- controller side
    def _await(self, t):
        try:
            a = self.arr[t].get(timeout=STUCK_TIMEOUT if _stuck_seen else ATTR_TIMEOUT)
        except queue.Empty:
            _stuck_seen.append(t)
            return None
        if a[0] == "park":
            self.pending[t] = a[1]
        elif a[0] == "done":
            self.done.add(t)
            self.pending[t] = None
        return a

    def start(self):
        self.rec.sched = self
        for t in range(1, self.k + 1):
            th = threading.Thread(target=self._worker, args=(t,), daemon=True, name=f"c15-w{t}")
            self.threads[t] = th
            th.start()
            if self._await(t) is None:
                raise MachineryError("worker thread did not reach its first yield point")

    def step(self, t):
        """one scheduling choice; returns 'ok' | 'blocked' | 'done' | 'stuck'"""
        if t in self.done:
            return "done"
        visible = False
        while True:
            op = self.pending.get(t)
            if op is None:                                # still running from an earlier timeout
                a = self._await(t)
                if a is None:
                    self._blocked_event(t)
                    return "stuck"
                if a[0] == "done":
                    return "ok" if visible else "done"
                continue
            if visible and op[0] != "Release":
                return "ok"
            self.pending[t] = None
            self.go[t].release()
            a = self._await(t)
            if a is None:
                self._blocked_event(t)
                return "stuck"
            if a[0] == "blocked":
                self.pending[t] = op                      # still before the same Acquire
                self._blocked_event(t)
                return "blocked"
            if op[0] in self.VISIBLE:
                visible = True
            if a[0] == "done":
                return "ok" if visible else "done"

    def _blocked_event(self, t):
        with self.rec.rec_lock:
            self.rec.events.append({"a": "Blocked", "t": t})

    def drain(self):
        """after the schedule: finish every thread, lowest id first; False if they deadlock"""
        for _ in range(8 * self.k * (self.calls + 1) + 8):
            live = [t for t in range(1, self.k + 1) if t not in self.done]
            if not live:
                return True
            progressed = False
            for t in live:
                while True:
                    r = self.step(t)
                    if r == "ok":
                        progressed = True
                        continue
                    if r == "done":
                        progressed = True
                    break
                if progressed:
                    break               # restart from the lowest live id
            if not progressed:
                return False
        return False

    def finish(self):
        ok = True
        for t, th in self.threads.items():
            th.join(timeout=0.0 if t not in self.done else ATTR_TIMEOUT)
            ok = ok and not th.is_alive()
        self.rec.sched = None
        return ok


class Harness:
    """install interception (+ lock proxies in scheduled mode); run schedules; produce traces"""

    def __init__(self, scheduled: bool):
        self.b = Binding()
        self.rec = Recorder(self.b)
        self.scheduled = scheduled
        self._proxied = []

    def __enter__(self):
        self.rec.install()
        if self.scheduled:
            for m, k, v in self.b.locks:
                setattr(m, k, _LockProxy(v, f"{m.__name__.rsplit('.', 1)[-1]}.{k}", self.rec))
                self._proxied.append((m, k, v))
        return self

    def __exit__(self, *a):
        for m, k, v in self._proxied:
            setattr(m, k, v)
        self.rec.uninstall()
        self.rec.reset_binding()

    def run_schedule(self, k, calls, schedule, raises):
        """-> (events, note) ; events end with Quiescent unless the threads deadlocked"""
        rec = self.rec
        rec.take()
        s = Scheduler(rec, k, calls, raises)
        s.start()
        note = ""
        for t in schedule:
            s.step(t)               # 'stuck' (timeout fallback) has been recorded as a Blocked event
        if len(_stuck_seen) > 20:
            raise MachineryError("threads block on something this harness cannot observe deterministically "
                                 "(not a threading.Lock/RLock/Semaphore global of the pdf extractor package): "
                                 "extend mbv/c15_sched.py:_LOCK_TYPES")
        quiet = s.drain()
        if not quiet:
            note = "deadlock"
        joined = s.finish() if quiet else False
        if s.errors:
            note = "error:" + ";".join(f"{t}:{e}" for t, e in s.errors)
        if quiet and joined:
            with rec.rec_lock:
                rec.events.append({"a": "Quiescent", "fn": rec.current()})
        elif not note:
            note = "threads alive"
        if not (quiet and joined):               # stranded threads may hold a lock for ever: replace them
            for i, (m, k_, v) in enumerate(self._proxied):
                if isinstance(v, threading.Semaphore):
                    fresh = type(v)(getattr(v, "_initial_value", 1))
                else:
                    fresh = threading.RLock() if isinstance(v, type(threading.RLock())) else threading.Lock()
                setattr(m, k_, _LockProxy(fresh, k_, rec))
        ev = rec.take()
        rec.reset_binding()
        return ev, note


# =========================================================================== AES fallback objects (round 4)
class CodeHooks:
    """Hook-free yield points inside library functions: sys.monitoring events on chosen code objects
    (PY_START of nested functions, LINE of one source line).  The callback runs on the executing thread."""

    TOOL = 3

    def __init__(self):
        import sys as _s
        self.mon = _s.monitoring
        self.cbs = {}            # (code, line|None) -> callable(code)
        self._on = False

    @staticmethod
    def nested(func, name):
        out = [c for c in func.__code__.co_consts if isinstance(c, types.CodeType) and c.co_name == name]
        if len(out) != 1:
            raise MachineryError(f"binding vanished: nested function {name} in {func.__name__}")
        return out[0]

    @staticmethod
    def line_of(func, needle):
        import inspect
        lines, first = inspect.getsourcelines(func)
        hits = [first + i for i, ln in enumerate(lines) if needle in ln]
        if len(hits) != 1:
            raise MachineryError(f"binding vanished: line containing {needle!r} in {func.__name__} ({len(hits)} hits)")
        return hits[0]

    def on_start(self, code, cb):
        self.cbs[(code, None)] = cb

    def on_line(self, code, line, cb):
        self.cbs[(code, line)] = cb

    def __enter__(self):
        m = self.mon
        m.use_tool_id(self.TOOL, "c15")
        ev = m.events
        m.register_callback(self.TOOL, ev.PY_START, lambda code, off: self._fire(code, None))
        m.register_callback(self.TOOL, ev.LINE, lambda code, line: self._fire(code, line))
        per = {}
        for (code, line) in self.cbs:
            per[code] = per.get(code, 0) | (ev.PY_START if line is None else ev.LINE)
        for code, mask in per.items():
            m.set_local_events(self.TOOL, code, mask)
        self._codes = list(per)
        self._on = True
        return self

    def _fire(self, code, line):
        cb = self.cbs.get((code, line))
        if cb is not None:
            cb(code)
        return None

    def __exit__(self, *a):
        if self._on:
            m = self.mon
            for code in self._codes:
                m.set_local_events(self.TOOL, code, 0)
            m.register_callback(self.TOOL, m.events.PY_START, None)
            m.register_callback(self.TOOL, m.events.LINE, None)
            m.free_tool_id(self.TOOL)
            self._on = False


class JobScheduler(Scheduler):
    """Scheduler whose threads run arbitrary jobs (here: whole extractions); yield points are the patch-section
    operations (as before) plus whatever CodeHooks park (`aes_ops`)."""

    def __init__(self, rec, jobs, visible_extra=()):
        super().__init__(rec, len(jobs), 1, [[False]] * len(jobs))
        self.jobs = jobs
        self.results = {}
        self.VISIBLE = tuple(Scheduler.VISIBLE) + tuple(visible_extra)
        self.ops = []                               # (t, op) of the extra yield points, in execution order

    def hook_park(self, kind):
        """callback factory for CodeHooks: park the executing worker thread before `kind`"""
        def cb(_code):
            t = self.rec.tids.get(threading.get_ident())
            if t is not None and self.rec.sched is self:
                self.park(t, (kind,))
                self.ops.append((t, kind))
        return cb

    def _worker(self, t):
        rec = self.rec
        rec.tids[threading.get_ident()] = t
        try:
            self.park(t, ("Start",))
            self.results[t] = self.jobs[t - 1]()
        except BaseException as e:  # noqa
            self.errors.append((t, repr(e)))
        finally:
            rec.tids.pop(threading.get_ident(), None)
            self.arr[t].put(("done",))


class AesHarness(Harness):
    """two (or more) extractions of AES-encrypted PDFs in real threads under an explicit schedule; yield points:
    CryptAES.__init__ / CryptAES.decrypt of the library's AES fallback (the nested functions installed by
    patch_pypdf_fallback_aes) + the patch-section operations + the extractor's locks"""

    def __init__(self):
        super().__init__(scheduled=True)
        from . import repo
        self.fb = repo.need("sharepoint2text.parsing.extractors.pdf._pypdf_aes_fallback",
                            "patch_pypdf_fallback_aes", "_get_round_keys", "_ROUND_KEY_CACHE")
        self.c_init = CodeHooks.nested(self.fb.patch_pypdf_fallback_aes, "_cryptaes_init")
        self.c_dec = CodeHooks.nested(self.fb.patch_pypdf_fallback_aes, "_cryptaes_decrypt")

    def run(self, jobs, chooser, max_steps=200000):
        """chooser(step_no, live_threads, last) -> thread to step next.  -> (results, errors, events, ops, note)"""
        rec = self.rec
        rec.take()
        s = JobScheduler(rec, jobs, visible_extra=("AesInit", "AesDecrypt", "Start"))
        hooks = CodeHooks()
        hooks.on_start(self.c_init, s.hook_park("AesInit"))
        hooks.on_start(self.c_dec, s.hook_park("AesDecrypt"))
        note = ""
        with hooks:
            s.start()
            n = 0
            last = None
            blocked_round = set()
            while len(s.done) < s.k and n < max_steps:
                live = [t for t in range(1, s.k + 1) if t not in s.done]
                t = chooser(n, live, last)
                r = s.step(t)
                n += 1
                last = t
                if r in ("blocked", "stuck"):
                    blocked_round.add(t)
                    if blocked_round >= set(live):
                        note = "deadlock"
                        break
                    others = [x for x in live if x not in blocked_round]
                    s.step(others[0])
                    last = others[0]
                    blocked_round.discard(others[0])
                else:
                    blocked_round.clear()
            if not note and len(s.done) < s.k:
                note = "step budget exhausted"
            joined = s.finish() if not note else False
        if not note and joined:
            with rec.rec_lock:
                rec.events.append({"a": "Quiescent", "fn": rec.current()})
        ev = rec.take()
        rec.reset_binding()
        return s.results, s.errors, ev, s.ops, note
