#!/bin/bash
# usage: seedtest.sh <PROP> <mutout dir> <A|B|name> [extra check ids...]
# Confirms a seeded change in a scratch worktree: demo passes unchanged, fails changed; repo tests unchanged;
# then runs ./check <PROP> against the changed tree.  Stores everything under /verif/seeded/<PROP>-<name>/.
set -u
PROP=$1; OUT=$2; NAME=$3; shift 3
WT=/tmp/seedwt-$PROP-$NAME-$$
DEST=/verif/seeded/$PROP-$NAME
mkdir -p $DEST
git -C /repo worktree add -q $WT HEAD || exit 2
cp $OUT/$NAME.diff $DEST/patch.diff; cp $OUT/demo_$NAME.py $DEST/demo.py
( cd $WT && PYTHONPATH=$WT /venv/bin/python $DEST/demo.py >/tmp/seed-$$-demo0.txt 2>&1; echo $? > /tmp/seed-$$-rc0 )
git -C $WT apply $DEST/patch.diff || { echo "PATCH DOES NOT APPLY"; git -C /repo worktree remove --force $WT; exit 2; }
( cd $WT && PYTHONPATH=$WT /venv/bin/python $DEST/demo.py >/tmp/seed-$$-demo1.txt 2>&1; echo $? > /tmp/seed-$$-rc1 )
TESTS=$(cd $WT && PYTHONPATH=$WT /venv/bin/python -m pytest -q -p no:cacheprovider sharepoint2text/tests 2>&1 | tail -1)
RC0=$(cat /tmp/seed-$$-rc0); RC1=$(cat /tmp/seed-$$-rc1)
echo "demo unchanged rc=$RC0, changed rc=$RC1, tests: $TESTS"
RESULTS=""
for C in $PROP "$@"; do
  ( cd ${VROOT:-/verif} && SP2T_REPO=$WT ./check $C > /tmp/seed-$$-check-$C.txt 2>&1; echo $? > /tmp/seed-$$-crc-$C )
  CRC=$(cat /tmp/seed-$$-crc-$C)
  echo "check $C rc=$CRC: $(grep -c '^VIOLATION' /tmp/seed-$$-check-$C.txt) VIOLATION lines; $(grep -m1 'what:' /tmp/seed-$$-check-$C.txt | cut -c1-260)"
  RESULTS="$RESULTS $C:rc=$CRC"
  tail -c 3000 /tmp/seed-$$-check-$C.txt > $DEST/check-$C.out.txt
done
cat > $DEST/run.txt <<EOT
demo on unchanged tree: rc=$RC0
demo with change: rc=$RC1 ($(tail -1 /tmp/seed-$$-demo1.txt | cut -c1-300))
repo tests with change: $TESTS
checks against changed tree:$RESULTS
EOT
git -C /repo worktree remove --force $WT; rm -f /tmp/seed-$$-*
