"""C12 sandboxed workers (run as `python -m mbv.c12_worker <mode> <job.json> <out.json>`).

mode "cost":   for each hostile file of the job: fork; the child sets RLIMIT_AS / RLIMIT_CPU / RLIMIT_FSIZE,
               starts tracemalloc, runs the real extractor on the file and CONSUMES the results (without
               retaining them), and reports the deterministic peak (tracemalloc) + ru_maxrss as backstop +
               outcome class.  The parent (this process, library already imported and warmed up) enforces a
               wall timeout by SIGKILL.  Nothing hostile ever runs outside such a child.
mode "limits": the guard scenarios of part (a): read_file / read_archive size guards and the per-member
               limits, each in a forked child with the same rlimits, observed through wrappers
               (module-level `open` of sharepoint2text, SevenZipReader.__init__/_decompress_folder,
               zipfile.ZipFile.open, tarfile.TarFile.extractfile/extract*, audit hook for disk writes).
"""
from __future__ import annotations

import base64
import io
import json
import os
import resource
import signal
import sys
import time
import traceback
from pathlib import Path

AS_LIMIT = 1536 * 1024 * 1024
CPU_SOFT = 30
BUDGET = {"hit": False}
FSIZE_LIMIT = 1024 * 1024 * 1024


class CpuBudget(BaseException):
    pass


def _child_limits(as_limit=AS_LIMIT, cpu=CPU_SOFT):
    resource.setrlimit(resource.RLIMIT_AS, (as_limit, as_limit))
    resource.setrlimit(resource.RLIMIT_CPU, (cpu, cpu + 20))
    resource.setrlimit(resource.RLIMIT_FSIZE, (FSIZE_LIMIT, FSIZE_LIMIT))
    resource.setrlimit(resource.RLIMIT_CORE, (0, 0))

    def on_xcpu(signum, frame):
        BUDGET["hit"] = True        # third-party code may swallow the exception (olefile: except BaseException)
        raise CpuBudget()
    signal.signal(signal.SIGXCPU, on_xcpu)


def _fork_run(fn, wall: float):
    """Run fn() in a forked child; returns its JSON-able result or {"outcome": "Killed:..."}."""
    r, w = os.pipe()
    pid = os.fork()
    if pid == 0:
        os.close(r)
        res = {"outcome": "ChildError"}
        try:
            res = fn()
        except BaseException as e:  # noqa
            res = {"outcome": "ChildError", "err": repr(e), "tb": traceback.format_exc()[-1500:]}
        try:
            with os.fdopen(w, "w") as f:
                json.dump(res, f)
        finally:
            os._exit(0)
    os.close(w)
    t0 = time.time()
    killed = None
    while True:
        p, st = os.waitpid(pid, os.WNOHANG)
        if p:
            break
        if time.time() - t0 > wall:
            os.kill(pid, signal.SIGKILL)
            killed = "WallTimeout"
            p, st = os.waitpid(pid, 0)
            break
        time.sleep(0.01)
    with os.fdopen(r) as f:
        txt = f.read()
    if killed:
        return {"outcome": "Killed:" + killed}
    if os.WIFSIGNALED(st):
        return {"outcome": "Killed:" + signal.Signals(os.WTERMSIG(st)).name}
    try:
        return json.loads(txt)
    except Exception:
        return {"outcome": "Killed:NoReport"}


def _exc_class(e) -> str:
    """Project an exception on the outcome alphabet of Limits.tla."""
    from sharepoint2text.parsing import exceptions as X
    if isinstance(e, MemoryError):
        return "MemoryError"
    # a MemoryError / RecursionError wrapped by the library's catch-all still is resource exhaustion
    seen = set()
    c = e
    while c is not None and id(c) not in seen:
        seen.add(id(c))
        if isinstance(c, MemoryError):
            return "MemoryError"
        c = c.__cause__ or c.__context__
    if isinstance(e, X.ExtractionError):
        return "Refused:" + type(e).__name__
    return "Raised:" + type(e).__name__


# ------------------------------------------------------------------------------------------- cost mode
def _consume(gen, markers=()):
    n, expanded = 0, False
    for r in gen:
        n += 1
        # touch the documented accessors once; drop the object afterwards
        try:
            t = r.get_full_text()
            if markers:
                t = t + " " + repr(r.get_metadata())
                expanded = expanded or any(m in t for m in markers)
            del t
            it = getattr(r, "iterate_images", None)
            if it is not None:
                for img in it():
                    del img
        except CpuBudget:
            raise
        except Exception:  # the accessors are other properties' business
            pass
        del r
    return n, expanded


def _cost_case(case, data: bytes, tmpdir: str):
    import tracemalloc
    from sharepoint2text.parsing.router import get_extractor

    def run():
        os.environ["TMPDIR"] = tmpdir
        import tempfile
        tempfile.tempdir = tmpdir
        _child_limits(cpu=int(case.get("cpu") or CPU_SOFT))
        extractor = get_extractor("x." + case["ext"])
        ru0 = resource.getrusage(resource.RUSAGE_SELF).ru_maxrss
        tracemalloc.start()
        base = tracemalloc.get_traced_memory()[0]
        outcome, n, expanded = "Ok", 0, False
        t0 = time.process_time()
        try:
            n, expanded = _consume(extractor(io.BytesIO(data), "x." + case["ext"]), tuple(case.get("markers") or ()))
        except CpuBudget:
            outcome = "CpuBudget"
        except RecursionError:
            outcome = "Raised:RecursionError"
        except BaseException as e:  # noqa
            outcome = _exc_class(e)
        signal.signal(signal.SIGXCPU, signal.SIG_IGN)
        peak = tracemalloc.get_traced_memory()[1] - base
        tracemalloc.stop()
        if BUDGET["hit"]:
            outcome = "CpuBudget"
        ru1 = resource.getrusage(resource.RUSAGE_SELF).ru_maxrss
        return {"outcome": outcome, "peak": int(peak), "results": n, "expanded": bool(expanded), "rss_kb": int(ru1), "rss0_kb": int(ru0),
                "cpu_s": round(time.process_time() - t0, 3)}
    return run


def _warm():
    """Import the extractors and run one benign extraction of each family before forking."""
    import sharepoint2text  # noqa
    from sharepoint2text.parsing.router import get_extractor
    for ext in ("txt", "html", "ods", "odt", "docx", "xlsx", "pptx", "epub", "rtf", "pdf", "xls", "doc", "ppt",
                "zip", "7z", "tar.gz", "mbox", "eml", "msg"):
        try:
            ex = get_extractor("w." + ext)
            list(ex(io.BytesIO(b"not a document"), "w." + ext))
        except BaseException:  # noqa
            pass


def cost_main(job_path, out_path):
    job = json.loads(Path(job_path).read_text())
    _warm()
    out = []
    tmpdir = job["tmpdir"]
    for case in job["cases"]:
        data = base64.b64decode(case["data"]) if "data" in case else Path(case["file"]).read_bytes()
        res = _fork_run(_cost_case(case, data, tmpdir), wall=job.get("wall", 240))
        res["id"] = case["id"]
        out.append(res)
        for f in Path(tmpdir).iterdir():      # whatever a killed child left behind
            if f.is_dir():
                import shutil
                shutil.rmtree(f, ignore_errors=True)
            else:
                f.unlink(missing_ok=True)
    Path(out_path).write_text(json.dumps(out))


# ----------------------------------------------------------------------------------------- limits mode
def _need(obj, name):
    if not hasattr(obj, name):
        print(f"BINDING-VANISHED {getattr(obj, '__name__', obj)}.{name}", file=sys.stderr)
        sys.exit(3)
    return getattr(obj, name)


def _limits_case(sc, tmpdir):
    """One guard scenario (see mbv/props/c12.py for the scenario records). Returns {"ev": [...], ...}."""
    def run():
        os.environ["TMPDIR"] = tmpdir
        import tempfile
        tempfile.tempdir = tmpdir
        _child_limits(cpu=60)
        import sharepoint2text
        from sharepoint2text.parsing import exceptions as X
        from sharepoint2text.parsing.extractors import archive_extractor as AX
        from sharepoint2text.parsing.extractors.util import sevenzip as SZ
        ev = []

        def outcome_of(fn):
            try:
                n = 0
                for _ in fn():
                    n += 1
                return {"a": "End", "outcome": "Ok", "results": n}
            except X.ExtractionFileTooLargeError as e:
                return {"a": "End", "outcome": "TooLarge", "max": int(getattr(e, "max_size", -1) or -1),
                        "actual": int(getattr(e, "actual_size", -1) or -1)}
            except X.ExtractionError as e:
                return {"a": "End", "outcome": "Error:" + type(e).__name__}
            except BaseException as e:  # noqa
                return {"a": "End", "outcome": "Raised:" + type(e).__name__}

        kind = sc["scn"]
        if kind == "read_file":
            # -- observe Stat (pathlib.Path.stat / os.stat on the path), Open/Read (module-level `open`)
            path = sc["path"]
            import pathlib
            real_stat = pathlib.Path.stat

            def stat(self, *a, **k):
                if str(self) == path:
                    ev.append({"a": "Stat"})
                return real_stat(self, *a, **k)
            pathlib.Path.stat = stat
            _need(sharepoint2text, "read_file")

            class F:
                def __init__(self, f):
                    self._f = f

                def read(self, *a):
                    d = self._f.read(*a)
                    ev.append({"a": "Load", "n": len(d)})
                    return d

                def __enter__(self):
                    return self

                def __exit__(self, *a):
                    self._f.close()

                def __getattr__(self, k):
                    return getattr(self._f, k)

            import builtins

            def opn(p, mode="r", *a, **k):
                f = builtins.open(p, mode, *a, **k)
                if str(p) == path:
                    ev.append({"a": "Open"})
                    return F(f)
                return f
            sharepoint2text.open = opn          # module global shadows the builtin for read_file only
            # the extractor of the route is replaced by a recording stub when the scenario asks for it
            from sharepoint2text.parsing import router
            import importlib
            mod, fn = _need(router, "_EXTRACTOR_REGISTRY")[sc["route"]]
            real = getattr(importlib.import_module(mod), fn)

            def wrapped(stream, path=None):
                ev.append({"a": "Extract", "n": len(stream.getbuffer())})
                # big sparse files: the content is irrelevant, the extractor is not run on 100 MB of zeros
                return iter(()) if sc.get("stub") else real(stream, path)
            setattr(importlib.import_module(mod), fn, wrapped)
            kw = {} if sc["max"] is None else {"max_file_size": sc["max"]}
            ev.append(outcome_of(lambda: sharepoint2text.read_file(path, **kw)))
        elif kind == "sevenz_size":
            # -- buffer of an exact size; refusal must precede header parsing
            init = _need(SZ.SevenZipReader, "__init__")

            def winit(self, *a, **k):
                ev.append({"a": "ParseHeader"})
                return init(self, *a, **k)
            SZ.SevenZipReader.__init__ = winit
            from mbv import c12_sevenz
            base = base64.b64decode(sc["archive"])
            buf = c12_sevenz.pad_to(base, sc["size"]) if sc["valid"] else bytearray(sc["size"])
            if not sc["valid"]:
                buf[:6] = c12_sevenz.MAGIC
            bio = io.BytesIO(bytes(buf))
            del buf
            ev.append({"a": "Size", "n": len(bio.getbuffer())})
            ev.append(outcome_of(lambda: AX.read_archive(bio, "big.7z")))
        elif kind == "members":
            import tarfile
            import zipfile
            # the history of configuration calls of the scenario, through the public function only
            for kw in sc["calls"]:
                _need(AX, "configure_archive_extraction")(**kw)
            cfg = _need(AX, "_config")
            eff = int(cfg.max_memory_size)
            data = Path(sc["archive_file"]).read_bytes()
            # Entries are identified by the archive's own entry OBJECT (position in infolist() / getmembers()),
            # never by name: two entries may carry one name, and a tar link entry yields another entry's bytes.
            # zip: every decompression goes through ZipFile.open (ZipFile.read calls it)
            zopen = zipfile.ZipFile.open

            def wopen(self, name, mode="r", *a, **k):
                if mode == "r":
                    zi = name if isinstance(name, zipfile.ZipInfo) else self.getinfo(name)
                    idx = next((i for i, x in enumerate(self.infolist(), start=1) if x is zi), 0)
                    if not idx:
                        idx = next((i for i, x in enumerate(self.infolist(), start=1)
                                    if x.header_offset == zi.header_offset), 0)
                    ev.append({"a": "Decompress", "m": idx, "to": "mem"})
                return zopen(self, name, mode, *a, **k)
            zipfile.ZipFile.open = wopen
            zext = zipfile.ZipFile._extract_member

            def wext(self, member, *a, **k):
                zi = member if isinstance(member, zipfile.ZipInfo) else self.getinfo(member)
                ev.append({"a": "Write", "m": next((i for i, x in enumerate(self.infolist(), start=1) if x is zi), 0)})
                return zext(self, member, *a, **k)
            zipfile.ZipFile._extract_member = wext
            # tar: the bytes of an entry are read through TarFile.fileobject(tarfile, tarinfo) -- extractfile()
            # resolves hard / symbolic links first and hands the TARGET entry to it
            texf = _need(tarfile.TarFile, "fileobject")

            def tindex(tf, tarinfo):
                return next((i for i, x in enumerate(tf.getmembers(), start=1)
                             if x is tarinfo or x.offset == tarinfo.offset), 0)

            def wfileobject(tf, tarinfo):
                ev.append({"a": "Decompress", "m": tindex(tf, tarinfo), "to": "mem"})
                return texf(tf, tarinfo)
            tarfile.TarFile.fileobject = staticmethod(wfileobject)
            tex = tarfile.TarFile._extract_member

            def wtex(self, tarinfo, *a, **k):
                ev.append({"a": "Write", "m": tindex(self, tarinfo)})
                return tex(self, tarinfo, *a, **k)
            tarfile.TarFile._extract_member = wtex
            # 7z: folder decompression (after header parsing) and disk writes (audit hook)
            names = [m["name"] for m in sc["members"]]
            state = {"init": 0}
            if sc["kind"] == "7z":
                init = _need(SZ.SevenZipReader, "__init__")

                def winit(self, *a, **k):
                    state["init"] += 1
                    try:
                        return init(self, *a, **k)
                    finally:
                        state["init"] -= 1
                SZ.SevenZipReader.__init__ = winit
                dec = _need(SZ.SevenZipReader, "_decompress_folder")

                def wdec(self, folder, *a, **k):
                    out = dec(self, folder, *a, **k)
                    if not state["init"]:
                        fidx = next((i for i, x in enumerate(getattr(self, "_folders", []), start=1) if x is folder), 1)
                        ev.append({"a": "DecompressFolder", "f": fidx, "n": len(out)})
                    return out
                SZ.SevenZipReader._decompress_folder = wdec

                written, via_proxy = {}, {}
                import builtins

                # which ENTRY is written is read off the bytes (entry i is filled with the byte value i): the
                # module-level `open` of sevenzip.py is shadowed by a recording proxy ...
                class W:
                    def __init__(self, f):
                        self._f, self._seen = f, False

                    def write(self, data):
                        if not self._seen and len(data):
                            self._seen = True
                            ev.append({"a": "Write", "m": int(data[0])})
                        return self._f.write(data)

                    def __enter__(self):
                        return self

                    def __exit__(self, *a):
                        self._f.close()

                    def __getattr__(self, k):
                        return getattr(self._f, k)

                def sz_open(path, mode="r", *a, **k):
                    p = os.fspath(path)
                    if isinstance(p, str) and p.startswith(tmpdir) and os.path.basename(p) in names and "w" in mode:
                        via_proxy[p] = via_proxy.get(p, 0) + 1
                        return W(builtins.open(path, mode, *a, **k))
                    return builtins.open(path, mode, *a, **k)
                SZ.open = sz_open

                # ... and any other way of creating the file is still seen by the audit hook (then the k-th write of
                # a name is taken for the k-th entry of that name)
                def hook(event, args):
                    if event == "open" and isinstance(args[0], str) and args[0].startswith(tmpdir):
                        fl = args[2] if isinstance(args[2], int) else 0
                        if fl & (os.O_WRONLY | os.O_RDWR | os.O_CREAT):
                            if via_proxy.get(args[0], 0) > 0:
                                via_proxy[args[0]] -= 1
                                return
                            rel = os.path.basename(args[0])
                            if rel in names:
                                k = written.get(rel, 0)
                                written[rel] = k + 1
                                same = [i for i, nm in enumerate(names, start=1) if nm == rel]
                                ev.append({"a": "Write", "m": same[k] if k < len(same) else 0})
                sys.addaudithook(hook)
            # member extractor stub: which members reach an extractor, with how many bytes
            proc = _need(AX, "_get_file_extractor_cached")

            def wget(basename):
                def stub(stream, path=None):
                    buf = stream.getbuffer()
                    # entry i is filled with the byte value i: the bytes say which entry they came from
                    ev.append({"a": "Extract", "m": int(buf[0]) if len(buf) else 0, "n": len(buf), "as": basename})
                    return iter(())
                return stub
            AX._get_file_extractor_cached = wget
            bio = io.BytesIO(data)
            end = outcome_of(lambda: AX.read_archive(bio, "a." + sc["ext"]))
            ev.append(end)
            return {"ev": ev, "eff": eff, "consts": {"MAX_MEMORY_SIZE": int(AX.MAX_MEMORY_SIZE),
                                                     "MAX_ARCHIVE_FILE_SIZE": int(AX.MAX_ARCHIVE_FILE_SIZE),
                                                     "MAX_7Z_FILE_SIZE": int(AX.MAX_7Z_FILE_SIZE)}}
        else:
            raise ValueError(kind)
        return {"ev": ev, "consts": {"MAX_MEMORY_SIZE": int(AX.MAX_MEMORY_SIZE),
                                     "MAX_ARCHIVE_FILE_SIZE": int(AX.MAX_ARCHIVE_FILE_SIZE),
                                     "MAX_7Z_FILE_SIZE": int(AX.MAX_7Z_FILE_SIZE)}}
    return run


def limits_main(job_path, out_path):
    job = json.loads(Path(job_path).read_text())
    import sharepoint2text  # noqa
    from sharepoint2text.parsing.extractors import archive_extractor  # noqa
    out = []
    for sc in job["scenarios"]:
        res = _fork_run(_limits_case(sc, job["tmpdir"]), wall=job.get("wall", 180))
        res["id"] = sc["id"]
        out.append(res)
    Path(out_path).write_text(json.dumps(out))


if __name__ == "__main__":
    {"cost": cost_main, "limits": limits_main}[sys.argv[1]](sys.argv[2], sys.argv[3])
