"""C16 concretiser / projection (standard library only: email, mailbox, base64, quopri, zipfile).

abstract message (specs/Mail.tla, enumerated by specs/MailGen.tla)  ->  bytes of an RFC 5322 /
MIME message, plus the dictionary  real string -> token  that the projection uses to map what
the extractors return back to tokens.  A string the dictionary does not know becomes
Unknown = ["?", "?", 0], which no clause of Mail!Accept admits.

Nothing here computes an expectation: the expected observation is Mail!Expected(m), evaluated
by TLC during trace validation.
"""
from __future__ import annotations

import base64
import datetime as dt
import email.charset
import email.header
import email.utils
import io
import mailbox
import quopri
import re
import zipfile
from email import encoders, policy
from email.headerregistry import Address
from email.message import EmailMessage, Message
from email.mime.multipart import MIMEMultipart
from email.mime.nonmultipart import MIMENonMultipart

ABSENT = ["-", "-", 0]
UNKNOWN = ["?", "?", 0]

# ----------------------------------------------------------------------------- string pools
SUBJ_WORDS = {
    "ascii": [["Quarterly", "report", "attached"], ["Re:", "meeting", "minutes"], ["Invoice", "no.", "4711-B"],
              ["[list]", "a=b?", "x_y"]],
    "latin1": [["Grüße", "aus", "München"], ["Año", "façade", "déjà-vu"], ["Übergröße", "ÆØÅ", "þing"]],
    "utf8": [["Résumé", "€uro", "naïve–dash"], ["Ελληνικά", "“quoted”", "Привет"], ["Zażółć", "gęślą", "jaźń"]],
    "cjk": [["日本語", "テスト", "件名"], ["中文", "主题", "测试"], ["한국어", "제목", "시험"]],
}
# charsets an RFC 2047 word of that kind may be written in (every one can encode every pool row
# it is paired with: checked at build time, falls back to utf-8)
WORD_CHARSETS = {
    "ascii": ["us-ascii", "utf-8", "iso-8859-1"],
    "latin1": ["iso-8859-1", "utf-8", "windows-1252", "iso-8859-15"],
    "utf8": ["utf-8"],
    "cjk": ["utf-8", "iso-2022-jp", "shift_jis", "euc-jp", "gb2312", "gbk", "big5", "euc-kr"],
}
ATOM_NAMES = ["Alice Smith", "Bob", "Carol de Vries", "Dave O'Neil", "Eve-Marie Stone", "Frank", "Grace Hopper",
              "Heidi K", "Ivan", "Judy Garland", "Mallory", "Niaj", "Olivia", "Peggy Sue", "Rupert", "Sybil",
              "Trent", "Uma", "Victor", "Wendy"]
QUOTED_NAMES = ["Doe, Jane", "Smith, John Q.", "Dr. O'Neil, Sam", "Sales, EMEA (north)", "R&D, Team",
                "Miller, A.; Miller, B.", "Support @ ACME, Inc.", "Lee, Min-ho", "Name, With: colon",
                "Last, First <nick>", "Ops, 24/7", "Nguyen, T.", "Kim, J.", "a, b, c", "X, Y"]
ENC_NAMES = ["Müller, Jörg", "Straße, Änne", "García, José", "日本, 太郎", "Ivanov, Иван", "Çelik, Ayşe",
             "Dvořák, Jiří", "Ångström, Åsa", "王, 小明", "김, 민수", "Łukasz, Żak", "Ñu, Íñigo", "Øre, Søren",
             "Þór, Ægir", "Élise, Noël"]
DOMAINS = ["example.com", "mail.example.org", "sub.domain.example.net", "xn--bcher-kva.example", "example.co.uk"]
LOCALS = ["alice", "bob.smith", "c+tag", "dave_o", "e-m", "info", "first.last", "x", "o'neil", "user%rel",
          "sales.emea", "no-reply"]

PLAIN_TEXTS = {
    "ascii": ["Hello,\n\nthis is a plain body with a = b and 100% ascii.\n  indented line\nA line that is quite a "
              "bit longer than seventy-six characters so that quoted-printable needs a soft line break here.\n\n"
              "Regards,\nA."],
    "utf8": ["Héllo wörld – “unicode” body €5\n日本語の行 と 中文\n\nLong line: ünïcödé ünïcödé ünïcödé ünïcödé ünïcödé "
             "ünïcödé ünïcödé ünïcödé ünïcödé end.\nlast=line"],
    "latin1": ["Grüße aus München,\n\nça va très bien: ½ + ¼ = ¾ (déjà vu)\nÆØÅ æøå ÿ\nFußgängerübergänge sind für "
               "Fußgänger, die über Übergänge gehen möchten, äußerst nützlich.\n\nTschüß"],
    "koi8r": ["Привет, мир!\n\nЭто вторая строка письма = проверка.\nОчень длинная строка, которая заметно длиннее "
              "семидесяти шести символов, чтобы потребовался мягкий перенос.\n\nПока"],
}
FROM_LINES = ["From here on it gets harder.", "From me to you", "From the archive of 1999", "From  two spaces"]
HTML_TEXTS = {
    "ascii": "<html><head><title>t</title></head><body><p>Hello <b>html</b> body, a = b.</p>\n<p>second</p></body></html>",
    "utf8": "<html><body><p>Héllo – “html” €5 日本語</p>\n<div>ünïcödé ünïcödé ünïcödé ünïcödé ünïcödé ünïcödé ünïcödé "
            "ünïcödé line</div></body></html>",
    "latin1": "<html><body><p>Grüße aus München: ½ déjà vu</p>\n<p>Fußgängerübergänge äußerst nützlich ÆØÅ</p></body></html>",
    "koi8r": "<html><body><p>Привет, мир!</p>\n<p>Это вторая строка = проверка</p></body></html>",
}
PY_CHARSET = {"ascii": "us-ascii", "utf8": "utf-8", "latin1": "iso-8859-1", "koi8r": "koi8-r"}
INLINE_PNG = (b"\x89PNG\r\n\x1a\n\x00\x00\x00\rIHDR\x00\x00\x00\x01\x00\x00\x00\x01\x08\x06\x00\x00\x00\x1f\x15\xc4\x89"
              b"\x00\x00\x00\rIDATx\x9cc\xf8\xff\xff?\x00\x05\xfe\x02\xfe\xa75\x81\x84\x00\x00\x00\x00IEND\xaeB`\x82")

ZONES = {"utc": ("+0000", 0), "east": ("+0200", 120), "west": ("-0500", -300), "half": ("+0530", 330),
         "gmt": ("GMT", 0)}
ZONE_SHIFT_H = {"utc": 0, "east": 1, "west": 2, "half": 3, "gmt": 4}     # distinct instants per zone

KNOWN_TYPES = {"txt": "text/plain", "html": "text/html", "csv": "text/csv",
               "docx": "application/vnd.openxmlformats-officedocument.wordprocessingml.document",
               "pptx": "application/vnd.openxmlformats-officedocument.presentationml.presentation",
               "xlsx": "application/vnd.openxmlformats-officedocument.spreadsheetml.sheet",
               "odt": "application/vnd.oasis.opendocument.text", "ods": "application/vnd.oasis.opendocument.spreadsheet",
               "odp": "application/vnd.oasis.opendocument.presentation", "odg": "application/vnd.oasis.opendocument.graphics",
               "pdf": "application/pdf", "rtf": "application/rtf", "epub": "application/epub+zip"}
KNOWN_TYPES |= {"zip": "application/zip", "tgz": "application/gzip"}
EXT = {k: k for k in KNOWN_TYPES} | {"bin": "bin", "tgz": "tar.gz"}
# declared types in common use (Mail.tla a.mt); "alias"/"cross" strings are keys of the library's table at the
# pinned commit, "plausible" ones are in use but not in it
ALIAS_TYPES = {"csv": ["application/csv"], "rtf": ["text/rtf"], "html": ["application/xhtml+xml"],
               "zip": ["application/x-zip-compressed"], "tgz": ["application/x-gzip"]}
CROSS_TYPES = {"csv": ("text/plain", "txt"), "html": ("text/plain", "txt"), "docx": ("application/msword", "doc"),
               "xlsx": ("application/vnd.ms-excel", "xls"), "pptx": ("application/vnd.ms-powerpoint", "ppt")}
PLAUSIBLE_TYPES = {"txt": "text/x-log", "html": "text/x-server-parsed-html", "csv": "text/comma-separated-values",
                   "docx": "application/vnd.ms-word.document.12", "pptx": "application/x-mspowerpoint",
                   "xlsx": "application/x-msexcel", "odt": "application/x-vnd.oasis.opendocument.text",
                   "ods": "application/x-vnd.oasis.opendocument.spreadsheet",
                   "odp": "application/x-vnd.oasis.opendocument.presentation",
                   "odg": "application/x-vnd.oasis.opendocument.graphics", "pdf": "application/x-pdf",
                   "rtf": "application/x-rtf", "epub": "application/x-epub", "zip": "application/x-compressed",
                   "tgz": "application/x-compressed-tar", "bin": "application/x-binary"}
XPLAIN = {"alt2": "Alternative plain rendering (format=flowed)\nof the same message, second variant.",
          "footer": "-- \nYou receive this mail because you are subscribed to the c16-list.\nUnsubscribe: list-off@lists.example.net",
          "fwd": "Forwarded inner message body.\nIt has two lines of its own."}


def archive_bytes(kind: str, j: int) -> bytes:
    """bundle.zip / logs.tar.gz holding two small documents."""
    import tarfile
    members = [(f"inner notes {j}.txt", f"inner text document {j}\nsecond inner line\n".encode()),
               (f"inner table {j}.csv", f"k,v\narchive,{j}\n".encode())]
    buf = io.BytesIO()
    if kind == "zip":
        with zipfile.ZipFile(buf, "w", zipfile.ZIP_DEFLATED) as z:
            for name, data in members:
                z.writestr(zipfile.ZipInfo(name, date_time=(2020, 1, 1, 0, 0, 0)), data)
    else:
        import gzip
        raw = io.BytesIO()
        with tarfile.open(fileobj=raw, mode="w") as t:
            for name, data in members:
                ti = tarfile.TarInfo(name)
                ti.size, ti.mtime = len(data), 1577836800
                t.addfile(ti, io.BytesIO(data))
        with gzip.GzipFile(fileobj=buf, mode="wb", mtime=0) as gz:
            gz.write(raw.getvalue())
    return buf.getvalue()
RENDERED = ("pptx", "xlsx", "odt", "ods", "odp", "odg", "pdf", "rtf", "epub")     # written by the shared writers
FN_STEMS = {"ascii": ["notes", "page", "data_2026-Q3", "report final", "Quarterly figures"],
            "rfc2231": ["Übersicht 日本", "résumé été", "Отчёт", "naïve–file"],
            "rfc2047": ["Müller Angebot", "日本語ファイル", "año_2026"]}
# name SHAPES (Mail.tla NameShapes): how the stem is dressed up; {s} = the stem
NAME_SHAPES = {"plain": ["{s}"],
               "slash": ["2019/2020 {s}", "AC/DC {s}", "dir/sub dir/{s}"],
               "bslash": ["AC\\DC {s}", "sub\\{s}"],
               "drive": ["C:\\Users\\x\\{s}", "D:\\{s}", "C:/temp/{s}"],
               "dot": [".{s}", ".hidden {s}"],
               "updir": ["../{s}", "..\\..\\{s}", "../../etc/{s}"],
               "blank": ["{s} ", " {s}", "  {s}  "],
               "special": ["semi;colon {s}", 'quo"te {s}', "per%20cent {s}", "a=b&c {s}", "(paren) [br] {s}"]}
_RENDER_CACHE: dict = {}


def rendered_doc(fmt: str, j: int) -> bytes:
    """A small valid document of a supported type, from the writers shared with the other checks."""
    if (fmt, j) not in _RENDER_CACHE:
        from .docrun import render, rich_doc
        d = rich_doc(fmt, seed=j)
        if isinstance(d.get("props"), dict):
            d["props"] = dict(d["props"], title=f"Attachment {j} title")
        _RENDER_CACHE[(fmt, j)] = render(d, fmt)
    return _RENDER_CACHE[(fmt, j)]


def minimal_docx(words: str) -> bytes:
    """A docx with one paragraph (word/document.xml only is not enough for every reader: add the
    content-types and package rels so that it is a conforming package)."""
    doc = ('<?xml version="1.0" encoding="UTF-8" standalone="yes"?>'
           '<w:document xmlns:w="http://schemas.openxmlformats.org/wordprocessingml/2006/main"><w:body>'
           f'<w:p><w:r><w:t>{words}</w:t></w:r></w:p><w:p><w:r><w:t>second paragraph</w:t></w:r></w:p>'
           '</w:body></w:document>')
    ct = ('<?xml version="1.0" encoding="UTF-8" standalone="yes"?>'
          '<Types xmlns="http://schemas.openxmlformats.org/package/2006/content-types">'
          '<Default Extension="rels" ContentType="application/vnd.openxmlformats-package.relationships+xml"/>'
          '<Default Extension="xml" ContentType="application/xml"/>'
          '<Override PartName="/word/document.xml" ContentType="application/vnd.openxmlformats-officedocument.'
          'wordprocessingml.document.main+xml"/></Types>')
    rels = ('<?xml version="1.0" encoding="UTF-8" standalone="yes"?>'
            '<Relationships xmlns="http://schemas.openxmlformats.org/package/2006/relationships">'
            '<Relationship Id="rId1" Type="http://schemas.openxmlformats.org/officeDocument/2006/relationships/'
            'officeDocument" Target="word/document.xml"/></Relationships>')
    buf = io.BytesIO()
    with zipfile.ZipFile(buf, "w", zipfile.ZIP_DEFLATED) as z:
        for name, data in (("[Content_Types].xml", ct), ("_rels/.rels", rels), ("word/document.xml", doc)):
            zi = zipfile.ZipInfo(name, date_time=(2020, 1, 1, 0, 0, 0))
            zi.compress_type = zipfile.ZIP_DEFLATED
            z.writestr(zi, data)
    return buf.getvalue()


def payload_bytes(pl: str, j: int, fixture_docx: bytes | None) -> bytes:
    if pl == "txt":
        return f"Attachment {j} notes\nsecond line with ü and = sign\n\nlast line of {j}\n".encode("utf-8")
    if pl == "html":
        return (f"<html><head><title>Att {j}</title></head><body><h1>Heading {j}</h1><p>Paragraph of attachment "
                f"{j}.</p><script>var hidden = {j};</script></body></html>\n").encode("utf-8")
    if pl == "csv":
        return f"col1,col2,col3\n1,2,{j}\nx,\"y, z\",end{j}\n".encode("utf-8")
    if pl == "docx":
        if j == 1 and fixture_docx:
            return fixture_docx
        return minimal_docx(f"Generated docx attachment number {j}")
    if pl in RENDERED:
        return rendered_doc(pl, j)
    if pl in ("zip", "tgz"):
        return archive_bytes(pl, j)
    if pl == "bin":
        return bytes(range(256)) + b"\r\n\n\r\x00From here\n" + bytes([j]) * 7 + b"\xff\xfe"
    raise ValueError(pl)


# ----------------------------------------------------------------------------- header encoding
def _can(text: str, cs: str) -> bool:
    try:
        text.encode(cs)
        return True
    except (UnicodeEncodeError, LookupError):
        return False


def _charset(cs: str, enc: str) -> email.charset.Charset:
    c = email.charset.Charset(cs)
    c.header_encoding = email.charset.BASE64 if enc == "b" else email.charset.QP
    return c


def encode_words(text: str, cs: str, enc: str, maxline: int = 900, first: int = 9) -> str:
    """RFC 2047 form of text (stdlib email.header.Header), possibly folded with LF + SP."""
    h = email.header.Header(charset=_charset(cs, enc), maxlinelen=maxline, header_name="X" * first)
    h.append(text)
    return h.encode(linesep="\n")


class Case:
    """One abstract message made concrete."""

    def __init__(self, m: dict, rng, fixture_docx: bytes | None = None, tag: str = ""):
        self.m, self.rng, self.tag = m, rng, tag
        self.rev_word: dict[str, list] = {}
        self.rev_name: dict[str, list] = {"": ABSENT}
        self.rev_addr: dict[str, list] = {"": ABSENT}
        self.rev_id: dict[str, list] = {"": ABSENT}
        self.rev_body: dict[str, list] = {"": ABSENT}
        self.rev_fn: dict[str, list] = {}
        self.rev_type: dict[str, list] = {}
        self.rev_bytes: dict[bytes, list] = {INLINE_PNG: ["inline", "png", 0]}
        self.rev_bytes_nl: dict[bytes, list] = {}
        self.instants: dict[int, list] = {}
        self.payloads: dict[int, tuple] = {}         # j -> (pl, bytes)
        self.fixture_docx = fixture_docx
        self._choose()

    # ---- choose the real strings
    def _choose(self):
        m, rng = self.m, self.rng
        k = m["subj"]["k"]
        self.subj_words = []
        self.subj_cs = "utf-8"
        if k != "none":
            self.subj_words = rng.choice(SUBJ_WORDS[k])
            text = " ".join(self.subj_words)
            cands = [c for c in WORD_CHARSETS[k] if _can(text, c)]
            self.subj_cs = rng.choice(cands) if cands else "utf-8"
            for i, w in enumerate(self.subj_words, 1):
                self.rev_word[w] = ["w", k, i]
        atoms = rng.sample(ATOM_NAMES, len(ATOM_NAMES))
        quoted = rng.sample(QUOTED_NAMES, len(QUOTED_NAMES))
        encn = rng.sample(ENC_NAMES, len(ENC_NAMES))
        self.boxes = {}
        for h in ("from", "to", "cc", "bcc", "rt"):
            lst = []
            for j, nk in enumerate(m[h], 1):
                addr = f"{h}{j}.{rng.choice(LOCALS)}@{rng.choice(DOMAINS)}"
                name = {"none": "", "atom": atoms.pop() if nk == "atom" else "",
                        "quoted": quoted.pop() if nk == "quoted" else "",
                        "encb": encn.pop() if nk == "encb" else "",
                        "encq": encn.pop() if nk == "encq" else ""}[nk]
                lst.append((nk, name, addr))
                self.rev_addr[addr] = [h, "addr", j]
                if nk != "none":
                    self.rev_name[name] = [h, nk, j]
            self.boxes[h] = lst
        # date: a fixed local wall-clock time read in different zones = different instants
        base = dt.datetime(1995, 1, 1, 9, 26, 53) + dt.timedelta(days=rng.randrange(0, 14000),
                                                                 minutes=rng.randrange(0, 1440))
        self.date_local = base + dt.timedelta(hours=ZONE_SHIFT_H[m["date"]["z"]])
        for z, (txt, off) in ZONES.items():
            loc = base + dt.timedelta(hours=ZONE_SHIFT_H[z])
            inst = int((loc - dt.timedelta(minutes=off) - dt.datetime(1970, 1, 1)).total_seconds())
            self.instants[inst] = ["date", z, 0]
        rid = "%08x" % rng.getrandbits(32)
        long = "x".join("%04x" % rng.getrandbits(16) for _ in range(14))
        self.mid = f"<{rid}.{self.tag or 'c'}@mail.example.org>" if m["mid"] != "folded" else \
            f"<{long}.{rid}@a-rather-long-host-name.mail.example.org>"
        self.irt = f"<parent.{rid}@lists.example.net>" if m["irt"] != "folded" else \
            f"<parent.{long}.{rid}@a-rather-long-host-name.lists.example.net>"
        self.rev_id[self.mid] = ["mid", "id", 0]
        self.rev_id[self.irt] = ["irt", "id", 0]
        b = m["body"]
        self.plain = rng.choice(PLAIN_TEXTS[b["pc"]])
        if b["pf"]:
            fl = rng.choice(FROM_LINES)
            lines = self.plain.split("\n")
            pos = rng.choice([1, 2, len(lines) - 1])
            lines.insert(pos, fl)
            if rng.random() < 0.5:
                lines.insert(pos, "")            # "\n\nFrom ..." the classic mboxo position
            self.plain = "\n".join(lines)
            esc = "\n".join(">" + ln if ln.startswith("From ") else ln for ln in lines)
            self.rev_body[esc] = ["plainesc", b["pc"], 1]
        self.rev_body[self.plain] = ["plain", b["pc"], 1 if b["pf"] else 0]
        for k, t in XPLAIN.items():
            self.rev_body[t] = ["xplain", k, 0]
        self.html = HTML_TEXTS[b["hc"]]
        self.rev_body[self.html] = ["html", b["hc"], 0]
        # attachments
        self.atts = []
        j = 0
        for key in ("att1", "att2", "att3"):
            a = m[key]
            if not a["p"]:
                continue
            j += 1
            pl = a["pl"]
            data = payload_bytes(pl, j, self.fixture_docx)
            self.payloads[j] = (pl, data)
            # the declared type; its token names the STRING (Mail!ExpType), so equal strings give equal tokens
            kind = a["mt"]
            if kind == "official":
                mt, ttok = KNOWN_TYPES[pl], ["type", pl, 1]
            elif kind == "alias":
                mt, ttok = rng.choice(ALIAS_TYPES[pl]), ["type", pl, 2]
            elif kind == "cross":
                mt, ttok = CROSS_TYPES[pl][0], ["type", CROSS_TYPES[pl][1], 1]
            elif kind == "octet":
                mt, ttok = "application/octet-stream", ["type", "octet", 3]
            elif kind == "plausible":
                mt, ttok = PLAUSIBLE_TYPES[pl], ["type", pl, 5]
            else:
                mt, ttok = rng.choice([f"application/x-c16-{pl}", f"application/vnd.c16.{pl}+unknown"]), ["type", pl, 0]
            fn = None
            if a["fn"] != "none":
                stem = f"{rng.choice(FN_STEMS[a['fn']])} {j}"
                if a["fn"] == "ascii" and rng.random() < 0.5:
                    stem = stem.replace(" ", "_")
                # extension: the payload's own / none / a misleading one (plain-text family)
                ext = {"ext": "." + EXT[pl], "noext": "", "wrongext": ".csv" if pl == "txt" else ".txt"}[a["nx"]]
                fn = rng.choice(NAME_SHAPES[a["ns"]]).replace("{s}", stem + ext)
                self.rev_fn[fn.strip()] = ["fn", a["fn"], j]                      # DC9: outer blanks
            if data in self.rev_bytes:
                raise ValueError(f"payload bytes of attachment {j} ({pl}) are not unique in this message")
            self.rev_type[mt] = ttok
            self.rev_bytes[data] = ["bytes", pl, j]
            self.rev_bytes_nl[data.replace(b"\r\n", b"\n")] = ["bytesnl", pl, j]
            self.atts.append(dict(a=a, j=j, pl=pl, data=data, mt=mt, fn=fn))

    # ---- MIME body (standard library generators)
    def _cte(self, text: str, e: str) -> str:
        if e == "7bit":
            return "7bit" if text.isascii() else "8bit"
        return {"qp": "quoted-printable", "base64": "base64"}[e]

    def _body_modern(self, pol) -> EmailMessage:
        m, b = self.m, self.m["body"]
        root = EmailMessage(policy=pol)
        s = b["s"]
        pcs, hcs = PY_CHARSET[b["pc"]], PY_CHARSET[b["hc"]]
        ptxt, htxt = self.plain + "\n", self.html + "\n"
        if s == "nobody":
            # no body part at all: headers only, or a multipart/mixed of attachments only
            if self.atts:
                root.make_mixed()
        elif s in ("plain", "alt", "altrel"):
            root.set_content(ptxt, subtype="plain", charset=pcs, cte=self._cte(ptxt, b["pe"]))
            if s != "plain":
                if b["x"] == "alt2":
                    root.add_alternative(XPLAIN["alt2"] + "\n", subtype="plain", charset="utf-8",
                                         params={"format": "flowed"})
                root.add_alternative(htxt, subtype="html", charset=hcs, cte=self._cte(htxt, b["he"]))
                if s == "altrel":
                    root.get_payload()[-1].add_related(INLINE_PNG, maintype="image", subtype="png", cid="<c16img@x>")
        else:
            root.set_content(htxt, subtype="html", charset=hcs, cte=self._cte(htxt, b["he"]))
            if s == "related":
                root.add_related(INLINE_PNG, maintype="image", subtype="png", cid="<c16img@x>",
                                 **({"filename": "logo.png"} if self.rng.random() < 0.3 else {}))
        # a part need not end in a line break (the one before the boundary belongs to the boundary): when more
        # candidates follow, the message's own plain part is written without one where its CTE allows
        if b["x"] != "none" and s in ("plain", "alt", "altrel") and b["pe"] in ("qp", "base64"):
            own = root if not root.is_multipart() else root.get_payload()[0]
            raw = self.plain.encode(pcs)
            own.set_payload((base64.encodebytes(raw) if b["pe"] == "base64" else quopri.encodestring(raw)).decode("ascii"))
        # further plain-text body candidates after the body, before the attachments
        if b["x"] in ("footer", "both", "fwd"):
            root.make_mixed()
            if b["x"] in ("footer", "both"):
                f = EmailMessage(policy=pol)
                f.set_content(XPLAIN["footer"] + "\n", charset="us-ascii" if self.rng.random() < 0.5 else "utf-8",
                              **({"disposition": "inline"} if self.rng.random() < 0.5 else {}))
                del f["MIME-Version"]
                root.attach(f)
            if b["x"] in ("fwd", "both"):
                root.attach(self._forwarded(pol))
        atts = list(self.atts)
        if m["nest"] and len(atts) >= 2:
            self._add_att(root, atts[0])
            outer = EmailMessage(policy=pol)
            outer.make_mixed()
            outer.attach(root)
            for a in atts[1:]:
                self._add_att(outer, a)
            return outer
        for a in atts:
            self._add_att(root, a)
        return root

    def _forwarded(self, pol=None) -> Message:
        """message/rfc822 part (no disposition, no name) holding a message whose body is text/plain."""
        inner = EmailMessage(policy=pol) if pol is not None else EmailMessage()
        inner["From"] = "Inner Sender <inner.sender@fwd.example.org>"
        inner["To"] = "inner.rcpt@fwd.example.org"
        inner["Subject"] = "Inner forwarded subject"
        inner["Date"] = "Mon, 02 Jan 2006 15:04:05 -0700"
        inner["Message-ID"] = "<inner.1@fwd.example.org>"
        inner.set_content(XPLAIN["fwd"] + "\n")
        part = Message() if pol is None else EmailMessage(policy=pol)
        part["Content-Type"] = "message/rfc822"
        part.set_payload([inner])
        return part

    def _add_att(self, msg: EmailMessage, a: dict):
        pl, cte = a["pl"], a["a"]["cte"]
        maintype, subtype = a["mt"].split("/", 1)
        kw = {}
        if a["fn"] is not None:
            kw["filename"] = a["fn"]
            if a["a"]["fn"] == "rfc2047":
                # the non-standard but ubiquitous form filename="=?utf-8?B?...?=": the modern policy would
                # re-encode it as RFC 2231, so a placeholder is written and replaced in the final bytes
                kw["filename"] = f"C16PH{a['j']}.bin"
        aa = a["a"]
        if aa["disp"] == "inline":
            kw["disposition"] = "inline"
        if aa["cid"]:
            kw["cid"] = f"<att{a['j']}.c16@mail.example.org>"
        hdrs = []
        if aa["desc"]:
            hdrs.append(f"Content-Description: document number {a['j']}")
        if aa["xid"]:
            hdrs.append(f"X-Attachment-Id: f_c16att{a['j']}")
        if aa["loc"]:
            hdrs.append(f"Content-Location: att{a['j']}.dat")
        if hdrs:
            kw["headers"] = hdrs
        if cte == "qp" and pl in ("txt", "html", "csv") and maintype == "text":
            # textual route: the content manager canonicalises line ends (DC8)
            msg.add_attachment(a["data"].decode("utf-8"), subtype=subtype, charset="utf-8",
                               cte="quoted-printable", **kw)
        else:
            msg.add_attachment(a["data"], maintype=maintype, subtype=subtype,
                               cte="quoted-printable" if cte == "qp" else "base64", **kw)
        if aa["disp"] == "absent":
            # no Content-Disposition at all: the name travels as Content-Type name= (old Outlook / Eudora)
            part = msg.get_payload()[-1]
            del part["Content-Disposition"]
            part.set_param("name", kw["filename"])

    def _body_legacy(self) -> Message:
        """compat32 classes (MIMEMultipart / MIMENonMultipart + email.encoders)."""
        m, b = self.m, self.m["body"]

        def text_part(text, subtype, cs, e):
            p = MIMENonMultipart("text", subtype, charset=cs)
            raw = (text + "\n").encode(cs)
            if e in ("base64", "qp") and b["x"] != "none" and subtype == "plain":
                raw = text.encode(cs)                    # no final line break (see _body_modern)
            if e == "base64":
                p.set_payload(raw)
                encoders.encode_base64(p)
            elif e == "qp":
                p.set_payload(raw)
                encoders.encode_quopri(p)
            else:
                p.set_payload(raw.decode("ascii", "surrogateescape"))
                p["Content-Transfer-Encoding"] = "7bit" if raw.isascii() else "8bit"
            return p

        def att_part(a):
            maintype, subtype = a["mt"].split("/", 1)
            p = MIMENonMultipart(maintype, subtype)
            p.set_payload(a["data"])
            if a["a"]["cte"] == "qp":
                encoders.encode_quopri(p)
            else:
                encoders.encode_base64(p)
            aa = a["a"]
            disp = aa["disp"]
            if a["fn"] is None:
                p.add_header("Content-Disposition", "attachment")
            elif disp == "absent":            # the name only as Content-Type name=
                if aa["fn"] == "rfc2047":
                    p.set_param("name", encode_words(a["fn"], "utf-8", "b"))
                elif aa["fn"] == "rfc2231":
                    p.set_param("name", a["fn"], charset="utf-8")
                else:
                    p.set_param("name", a["fn"])
            elif aa["fn"] == "rfc2047":
                p["Content-Disposition"] = '%s; filename="%s"' % (disp, encode_words(a["fn"], "utf-8", "b"))
            elif aa["fn"] == "rfc2231":
                p.add_header("Content-Disposition", disp, filename=("utf-8", "", a["fn"]))
            else:
                p.add_header("Content-Disposition", disp, filename=a["fn"])
            if aa["cid"]:
                p["Content-ID"] = f"<att{a['j']}.c16@mail.example.org>"
            if aa["desc"]:
                p["Content-Description"] = f"document number {a['j']}"
            if aa["xid"]:
                p["X-Attachment-Id"] = f"f_c16att{a['j']}"
            if aa["loc"]:
                p["Content-Location"] = f"att{a['j']}.dat"
            return p

        def img_part():
            p = MIMENonMultipart("image", "png")
            p.set_payload(INLINE_PNG)
            encoders.encode_base64(p)
            p["Content-ID"] = "<c16img@x>"
            p["Content-Disposition"] = "inline"
            return p
        s = b["s"]
        pp = text_part(self.plain, "plain", PY_CHARSET[b["pc"]], b["pe"])
        hp = text_part(self.html, "html", PY_CHARSET[b["hc"]], b["he"])
        alt2 = [text_part(XPLAIN["alt2"], "plain", "utf-8", "7bit")] if b["x"] == "alt2" else []
        if s == "nobody":
            body = None
        elif s == "plain":
            body = pp
        elif s == "html":
            body = hp
        elif s == "alt":
            body = MIMEMultipart("alternative", _subparts=[pp] + alt2 + [hp])
        elif s == "related":
            body = MIMEMultipart("related", _subparts=[hp, img_part()])
        else:
            body = MIMEMultipart("alternative", _subparts=[pp] + alt2 + [MIMEMultipart("related", _subparts=[hp, img_part()])])
        extras = []
        if b["x"] in ("footer", "both"):
            extras.append(text_part(XPLAIN["footer"], "plain", "us-ascii", "7bit"))
        if b["x"] in ("fwd", "both"):
            extras.append(self._forwarded(None))
        atts = list(self.atts)
        if body is None:
            return MIMEMultipart("mixed", _subparts=[att_part(a) for a in atts]) if atts else Message()
        if not atts and not extras:
            return body
        if m["nest"] and len(atts) >= 2:
            inner = MIMEMultipart("mixed", _subparts=[body] + extras + [att_part(atts[0])])
            return MIMEMultipart("mixed", _subparts=[inner] + [att_part(a) for a in atts[1:]])
        return MIMEMultipart("mixed", _subparts=[body] + extras + [att_part(a) for a in atts])

    # ---- headers
    def _date_text(self) -> str:
        d = self.m["date"]
        ztxt = ZONES[d["z"]][0]
        loc = self.date_local
        core = "%d %s %04d %02d:%02d:%02d %s" % (
            loc.day, ["Jan", "Feb", "Mar", "Apr", "May", "Jun", "Jul", "Aug", "Sep", "Oct", "Nov", "Dec"][loc.month - 1],
            loc.year, loc.hour, loc.minute, loc.second, ztxt)
        if d["wd"]:
            core = ["Mon", "Tue", "Wed", "Thu", "Fri", "Sat", "Sun"][loc.weekday()] + ", " + core
        return core

    def _mailbox_text(self, nk, name, addr, hand=True) -> str:
        if nk == "none":
            return addr if self.rng.random() < 0.5 else f"<{addr}>"
        if nk == "atom":
            return f"{name} <{addr}>"
        if nk == "quoted":
            return '"%s" <%s>' % (name.replace("\\", "\\\\").replace('"', '\\"'), addr)
        cs = "utf-8" if not _can(name, "iso-8859-1") or self.rng.random() < 0.5 else "iso-8859-1"
        return f"{encode_words(name, cs, 'b' if nk == 'encb' else 'q')} <{addr}>"

    def _hand_headers(self) -> list[str]:
        """Header lines written by hand (continuation lines joined with LF + WSP)."""
        m, rng = self.m, self.rng
        out = []
        for h, label in (("from", "From"), ("to", "To"), ("cc", "Cc"), ("bcc", "Bcc"), ("rt", "Reply-To")):
            boxes = self.boxes[h]
            if not boxes:
                continue
            parts = [self._mailbox_text(*b) for b in boxes]
            sep = ",\n " if (len(parts) > 1 and rng.random() < 0.5) else ", "
            if rng.random() < 0.2:
                label = rng.choice([label.upper(), label.lower()])
            out.append(f"{label}: " + sep.join(parts))
        k, e = m["subj"]["k"], m["subj"]["e"]
        if k != "none":
            text = " ".join(self.subj_words)
            cs = self.subj_cs
            if e == "raw":
                v = text
            elif e in ("b", "q"):
                v = encode_words(text, cs, e)
            elif k == "ascii":                      # folded, no encoding: fold before a space
                w = self.subj_words
                v = w[0] + "\n " + w[1] + ("\n\t" if rng.random() < 0.5 else "\n ") + w[2]
            else:                                   # folded: adjacent encoded-words on continuation lines
                v = encode_words(text, cs, rng.choice(["b", "q"]), maxline=rng.choice([28, 36, 44]))
                if "\n" not in v:
                    v = encode_words(text, cs, "b", maxline=24)
            out.append("Subject: " + v)
        if m["date"]["p"]:
            out.append("Date: " + self._date_text())
        if m["mid"] != "none":
            out.append("Message-ID:" + ("\n " if m["mid"] == "folded" else " ") + self.mid)
        if m["irt"] != "none":
            out.append("In-Reply-To:" + ("\n " if m["irt"] == "folded" else " ") + self.irt)
        out.append("X-C16-Case: " + (self.tag or "c"))
        rng.shuffle(out)
        return out

    def _api_headers(self, msg, legacy: bool):
        m = self.m
        for h, label in (("from", "From"), ("to", "To"), ("cc", "Cc"), ("bcc", "Bcc"), ("rt", "Reply-To")):
            boxes = self.boxes[h]
            if not boxes:
                continue
            if legacy:
                msg[label] = ", ".join(email.utils.formataddr((name, addr), charset="utf-8") for _, name, addr in boxes)
            else:
                msg[label] = [Address(display_name=name, addr_spec=addr) for _, name, addr in boxes]
        k, e = m["subj"]["k"], m["subj"]["e"]
        if k != "none":
            text = " ".join(self.subj_words)
            if legacy:
                if text.isascii() and e in ("raw", "folded"):
                    msg["Subject"] = text
                else:
                    h = email.header.Header(charset=_charset(self.subj_cs, "q" if e == "q" else "b"),
                                            maxlinelen=40 if e == "folded" else 76, header_name="Subject")
                    h.append(text)
                    msg["Subject"] = h
            else:
                msg["Subject"] = text
        if m["date"]["p"]:
            msg["Date"] = self._date_text()
        if m["mid"] != "none":
            msg["Message-ID"] = self.mid
        if m["irt"] != "none":
            msg["In-Reply-To"] = self.irt
        msg["X-C16-Case"] = self.tag or "c"

    # ---- the message
    def to_bytes(self) -> bytes:
        b = self._to_bytes()
        self.writer_fallback = False
        if self.m["ser"] in ("smtp", "smtputf8", "compat32") and not self._writer_ok(b):
            # the generator produced a header that does not say what it was given (CPython 3.12.1 encodes
            # the list-separating comma of a refolded address header as =?utf-8?q?=2C?=): not a conforming
            # message, so not a test case -- the same abstract message is written by hand instead
            self.writer_fallback = True
            self.m = dict(self.m, ser="handcrlf")
            try:
                b = self._to_bytes()
            finally:
                self.m = dict(self.m, ser=self._orig_ser)
        for a in self.atts:
            if a["fn"] is not None and a["a"]["fn"] == "rfc2047":
                ew = encode_words(a["fn"], "utf-8", self.rng.choice(["b", "q"])).encode("ascii")
                ph = re.compile(rb'(filename|name)="?C16PH%d\.bin"?' % a["j"])
                b = ph.sub(lambda mo: mo.group(1) + b'="' + ew + b'"', b)
        return b

    def _writer_ok(self, b: bytes) -> bool:
        """Writer self-test with the standard library's *modern* parser (policy.default; neither extractor
        uses it): the address headers and the subject read back must be the ones written."""
        self._orig_ser = self.m["ser"]
        try:
            chk = email.message_from_bytes(b, policy=policy.default)
            for h, label in (("from", "From"), ("to", "To"), ("cc", "Cc"), ("bcc", "Bcc"), ("rt", "Reply-To")):
                want = [(name, addr) for _, name, addr in self.boxes[h]]
                # raw UTF-8 headers (smtputf8) are read from bytes with surrogate escapes: undo
                got = [(a.display_name.encode("utf-8", "surrogateescape").decode("utf-8", "replace"), a.addr_spec)
                       for a in chk[label].addresses] if chk[label] is not None else []
                if want != got:
                    return False
            if self.subj_words and str(chk["Subject"]).encode("utf-8", "surrogateescape").decode("utf-8", "replace").split() \
                    != self.subj_words:
                return False
            return True
        except Exception:
            return False

    def _to_bytes(self) -> bytes:
        ser = self.m["ser"]
        if ser in ("hand", "handcrlf"):
            nl = "\r\n" if ser == "handcrlf" else "\n"
            body = self._body_modern(policy.default.clone(linesep=nl, max_line_length=78))
            bb = body.as_bytes()
            head = nl.join(ln.replace("\n", nl) for ln in self._hand_headers()) + nl
            return head.encode("utf-8") + bb
        if ser == "smtp":
            msg = self._body_modern(policy.SMTP)
            self._api_headers(msg, legacy=False)
            return msg.as_bytes(policy=policy.SMTP)
        if ser == "smtputf8":
            # RFC 6532 message headers (raw UTF-8, written by the stdlib under policy SMTPUTF8) over a body
            # generated under policy SMTP: MIME *parameters* stay RFC 2231 (raw 8-bit parameter values are
            # outside the universe; the standard library's own parser does not decode them)
            hdr = EmailMessage(policy=policy.SMTPUTF8)
            self._api_headers(hdr, legacy=False)
            hb = hdr.as_bytes()
            hb = hb[:hb.index(b"\r\n\r\n") + 2]
            return hb + self._body_modern(policy.SMTP).as_bytes()
        if ser == "compat32":
            msg = self._body_legacy()
            self._api_headers(msg, legacy=True)
            return msg.as_bytes()
        raise ValueError(ser)

    # ---- projection of an EmailContent
    def project(self, c, supp_fn=None) -> dict:
        def box(b):
            return {"n": self.rev_name.get(b.name, UNKNOWN), "a": self.rev_addr.get(b.address, UNKNOWN)}

        def body(s):
            s = (s or "").replace("\r\n", "\n").strip()                       # DC3
            return self.rev_body.get(s, UNKNOWN)

        def body_seq(s):
            """A plain body / full text as the sequence of known texts it consists of (separated by white
            space only); [] for the empty string, [Unknown] if it is anything else."""
            s = (s or "").replace("\r\n", "\n").strip()
            out, seps = [], []
            texts = sorted(((t, tok) for t, tok in self.rev_body.items() if t), key=lambda kv: -len(kv[0]))
            while s:
                for t, tok in texts:
                    if s.startswith(t):
                        out.append(tok)
                        rest = s[len(t):]
                        if rest:
                            seps.append(rest[0].isspace())      # are consecutive texts kept apart?
                        s = rest.lstrip()
                        break
                else:
                    return [UNKNOWN], []
            return out, seps
        subj = c.subject or ""
        words = [self.rev_word.get(w, UNKNOWN) for w in re.split(r"[ \t]+", subj) if w != ""]   # DC2
        atts, singles = [], []
        for idx, a in enumerate(c.attachments):
            data = a.data.getvalue()
            bt = self.rev_bytes.get(data) or self.rev_bytes_nl.get(data.replace(b"\r\n", b"\n")) or UNKNOWN
            atts.append({"name": self.rev_fn.get((a.filename or "").strip(), UNKNOWN),
                         "type": self.rev_type.get(a.mime_type, UNKNOWN),
                         "bytes": bt, "sup": bool(a.is_supported_mime_type),
                         "supp": ABSENT, "pos": a.data.tell()})
            if supp_fn:
                atts[-1]["supp"], rs = supp_fn(c, idx, bt)
                singles.append(rs)
        # ONE call on the whole message: its result list must be the concatenation, in order, of the lists the
        # attachments yield one by one; suppall = the supp tokens of the attachments found in it
        suppall = []
        if supp_fn:
            try:
                whole = [(type(r).__name__, r.get_full_text()) for r in c.iterate_supported_attachments()]
            except Exception:
                whole = None
            if whole is None:
                suppall = [["exc", "?", 0]]
            else:
                pos = 0
                for k, rs in enumerate(singles):
                    if rs and whole[pos:pos + len(rs)] == rs:
                        suppall.append(atts[k]["supp"])
                        pos += len(rs)
                if pos != len(whole):
                    suppall.append(UNKNOWN)
        units = list(c.iterate_units())
        full = c.get_full_text()
        # the join law of C03, exactly as mbv/docrun.py observe() states it
        joinok = bool(full == "\n".join(u.get_text() for u in units).strip())
        utype = getattr(units[0].get_metadata(), "body_type", "?") if units else "none"
        (pseq, psep), (fseq, fsep) = body_seq(c.body_plain), body_seq(full)
        return {"nunits": len(units), "utype": str(utype), "full": fseq, "fullsep": fsep, "joinok": joinok,
                "utext": body_seq(units[0].get_text())[0] if len(units) == 1 else [UNKNOWN],
                "plainsep": psep, "suppall": suppall,
                "subj": words, "from": box(c.from_email),
                "to": [box(b) for b in c.to_emails], "cc": [box(b) for b in c.to_cc],
                "bcc": [box(b) for b in c.to_bcc], "rt": [box(b) for b in c.reply_to],
                "date": self.project_date(c.metadata.date), "mid": self.rev_id.get(c.metadata.message_id, UNKNOWN),
                "irt": self.rev_id.get(c.in_reply_to, UNKNOWN),
                "plain": pseq, "html": body(c.body_html), "atts": atts}

    def project_date(self, s: str):
        if not s:
            return ABSENT
        try:
            d = dt.datetime.fromisoformat(s)
        except ValueError:
            return UNKNOWN
        if d.tzinfo is None:
            return UNKNOWN
        inst = int((d - dt.datetime(1970, 1, 1, tzinfo=dt.timezone.utc)).total_seconds())   # DC1
        return self.instants.get(inst, UNKNOWN)


# ----------------------------------------------------------------------------- mailboxes
FROM_SENDERS = ["MAILER-DAEMON", "alice@example.com", "-", "bob.smith@mail.example.org", "nobody"]


def from_line(rng, sender: str | None = None) -> bytes:
    t = dt.datetime(1990, 1, 1) + dt.timedelta(seconds=rng.randrange(0, 1_400_000_000))
    asc = t.strftime("%a %b ") + ("%2d" % t.day) + t.strftime(" %H:%M:%S %Y")
    return f"From {sender or rng.choice(FROM_SENDERS)} {asc}".encode("ascii")


def write_mbox(path, messages: list[bytes], eol: str, rng) -> bytes:
    """mailbox.mbox writes the file (From_ lines, '>From ' escaping, blank line after each message).
    eol: 'asis' (messages as serialised, From_ lines LF), 'lf' (messages converted to LF first),
    'crlf' (the LF mailbox converted to CRLF as a whole); suffixes '-noblank' (no empty line before the
    From_ separators: body lines starting with "From " are escaped, so "\n\nFrom " occurs at separators
    only) and '-nofinal' (no newline at the end of the file)."""
    mode = eol
    eol = mode.split("-")[0]
    import os
    if os.path.exists(path):
        os.unlink(path)
    mb = mailbox.mbox(str(path), create=True)
    try:
        for b in messages:
            if eol in ("lf", "crlf"):
                b = b.replace(b"\r\n", b"\n")
            mb.add(from_line(rng) + b"\n" + b)
        mb.flush()
    finally:
        mb.close()
    data = open(path, "rb").read()
    if "noblank" in mode and eol != "asis":
        data = data.replace(b"\n\nFrom ", b"\nFrom ")
    if "nofinal" in mode:
        data = data.rstrip(b"\n")
    if eol == "crlf":
        data = data.replace(b"\n", b"\r\n")
    return data


# ----------------------------------------------------------------------------- line-class mailboxes
def concretise_lines(classes: list[str], fin: bool, eol: str, rng) -> bytes:
    """Mbox.tla line-class sequence -> bytes; every line carries the unique token zq<i>x."""
    nl = b"\r\n" if eol == "CRLF" else b"\n"
    lines = []
    for i, c in enumerate(classes, 1):
        tok = f"zq{i:03d}x"
        if c == "Sep":
            ln = from_line(rng, rng.choice([tok, f"{tok}@example.com", f"MAILER-{tok}"]))
        elif c == "Esc":
            ln = rng.choice([f">From {tok} Sat Oct  3 12:00:00 2026", f">From {tok} me to you 1999",
                             f">From {tok}@example.com Mon Jan  1 00:00:00 2024"]).encode()
        elif c == "FromLike":
            ln = rng.choice([f"From {tok} here on it gets harder.", f"From {tok}", f"From {tok} 2026 onwards",
                             f"From {tok}@example.com Mon Jan  1 00:00:00 2024 (copy)",
                             f"From {tok} 123"]).encode()
        elif c == "Hdr":
            ln = f"Subject: {tok}".encode()
        elif c == "Blank":
            ln = b""
        else:
            ln = rng.choice([f"body line {tok}", f" indented {tok} text", f"{tok}", f"Fromage {tok} 2026",
                             f"from {tok} lower case 2026", f" From {tok} Sat Oct  3 12:00:00 2026",
                             f"X{tok}: not a header 1999"]).encode()
        lines.append(ln)
    data = nl.join(lines) + (nl if (fin and lines) else b"")
    return data


TOK_RE = re.compile(r"zq(\d{3})x")


def project_split(data: bytes, blocks: list[bytes], eol: str) -> list[list[int]]:
    """Each block returned by _split_mbox_messages -> the indices (1-based) of the input lines it is made
    of; [-1] when the block is not a run of whole input lines (the line tokens make blocks unique)."""
    nl = b"\r\n" if eol == "CRLF" else b"\n"
    out = []
    for b in blocks:
        off = data.find(b)
        if off < 0 or data.count(b) != 1 or not (off == 0 or data[:off].endswith(nl)):
            out.append([-1])
            continue
        end = off + len(b)
        if not (end == len(data) or data[end:end + len(nl)] == nl):
            out.append([-1])
            continue
        first = data[:off].count(nl) + 1
        out.append(list(range(first, first + b.count(nl) + 1)))
    return out


def project_tokens(*texts: str) -> list[int]:
    return sorted({int(x) for t in texts for x in TOK_RE.findall(t or "")})
