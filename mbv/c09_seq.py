"""C09 history independence: sequences of archives processed by ONE interpreter vs each archive alone.

Worker process = a *zygote*: it imports the library (and the extractor modules) but never processes an
archive itself.  Every observation is made in a forked child:
  * isolated run: one child per distinct archive  -> obs_iso(archive)          (fresh, import-only state)
  * sequence run: one child per sequence, which processes the archives one after another -> obs_seq(i)
An observation is the sha256 of [(filename, file_path, digest of to_json)..., how the generator ended].
The traces (ids: equal id <=> equal sha256) are validated by TLC against specs/ArchiveSeqTrace.tla.
"""
from __future__ import annotations

import hashlib
import io
import json
import os
import random
import sys
import zlib
from pathlib import Path

from . import c09_lib as L


def build(arch, seed):
    """arch = {"fmt", "kinds"} -> (bytes, apath).  Deterministic in (arch, seed): every worker builds the same bytes."""
    key = json.dumps(arch, sort_keys=True)
    rng = random.Random(seed * 1000003 + zlib.crc32(key.encode()))
    members = []
    tokn = 1
    for j, k in enumerate(arch["kinds"], start=1):
        ext = rng.choice(L.TEXT_FMTS)
        if k == "doc":
            data = L.make_doc(ext, range(tokn, tokn + 2))
            tokn += 2
            members.append({"name": f"e{j}.{ext}", "kind": "doc", "data": data, "tar": None, "link": ""})
        elif k == "emptyFile":
            members.append({"name": f"e{j}.{rng.choice(L.EMPTY_OK)}", "kind": "emptyFile", "data": b"", "tar": None, "link": ""})
        else:       # dir, anti
            members.append({"name": f"e{j}", "kind": k, "data": b"", "tar": None, "link": ""})
    fmt = arch["fmt"]
    if fmt == "zip":
        return L.build_zip([dict(m, kind="dir") if m["kind"] == "anti" else m for m in members],
                           rng.choice(["stored", "deflated"])), "S.zip"
    if fmt == "tar":
        comp = rng.choice(["", "gz"])
        return L.build_tar(members, comp), "S.tar" + ("." + comp if comp else "")
    entries, data_idx = [], []
    for i, m in enumerate(members):
        ek = {"doc": "file", "emptyFile": "empty", "dir": "dir", "anti": "anti"}[m["kind"]]
        if ek == "file":
            data_idx.append(i)
        entries.append({"name": m["name"], "kind": ek, "data": m["data"]})
    folders = [data_idx] if (data_idx and rng.random() < 0.5) else [[i] for i in data_idx]
    data, _ = L.sz.write_7z(entries, folders, coders=rng.choice(["copy", "lzma", "lzma2"]), encode_header=rng.random() < 0.4)
    return data, "S.7z"


def observe(read_archive, data, apath) -> str:
    out = []
    try:
        for r in read_archive(io.BytesIO(data), apath):
            md = r.get_metadata()
            blob = json.dumps(r.to_json(), sort_keys=True, default=repr)
            out.append([getattr(md, "filename", None), getattr(md, "file_path", None),
                        hashlib.sha256(blob.encode("utf-8", "surrogatepass")).hexdigest()])
        out.append("stop")
    except BaseException as e:  # noqa
        out.append("raise:" + type(e).__name__)
    return hashlib.sha256(json.dumps(out).encode()).hexdigest()


def in_child(fn):
    """Run fn() in a forked child, return its JSON result (None if the child died)."""
    r, w = os.pipe()
    pid = os.fork()
    if pid == 0:
        code = 0
        try:
            os.close(r)
            with os.fdopen(w, "w") as f:
                json.dump(fn(), f)
        except BaseException:  # noqa
            code = 3
        finally:
            os._exit(code)
    os.close(w)
    with os.fdopen(r) as f:
        txt = f.read()
    _, status = os.waitpid(pid, 0)
    if status != 0 or not txt:
        return None
    return json.loads(txt)


def worker_main(job_file, out_file):
    from .repo import activate
    from .tlc import MachineryError
    activate()
    import importlib
    import logging
    import tempfile
    import warnings
    warnings.simplefilter("ignore")
    logging.disable(logging.CRITICAL)
    job = json.loads(Path(job_file).read_text())
    os.makedirs(job["wroot"], exist_ok=True)
    tempfile.tempdir = job["wroot"]
    from sharepoint2text.parsing.extractors import archive_extractor as ae
    if not hasattr(ae, "read_archive"):
        raise MachineryError("binding vanished: archive_extractor.read_archive")
    try:        # import-only warm-up: load the extractor modules, process nothing
        from sharepoint2text.parsing import router
        for mod, _ in getattr(router, "_EXTRACTOR_REGISTRY", {}).values():
            importlib.import_module(mod)
    except Exception:
        pass
    L.make_doc("txt", [1])
    seed = job["seed"]
    built, iso = {}, {}

    def get(arch):
        k = json.dumps(arch, sort_keys=True)
        if k not in built:
            built[k] = build(arch, seed)
            d, ap = built[k]
            iso[k] = in_child(lambda: observe(ae.read_archive, d, ap))
            if iso[k] is None:
                raise MachineryError(f"isolated run of {k} died")
        return k
    traces = []
    for s in job["seqs"]:
        keys = [get(a) for a in s["seq"]]

        def run_all():
            return [observe(ae.read_archive, *built[k]) for k in keys]
        obs = in_child(run_all)
        if obs is None:
            obs = ["<child died>"] * len(keys)
        ids = {}
        for h in [iso[k] for k in keys] + obs:
            ids.setdefault(h, len(ids) + 1)
        traces.append({"id": s["id"],
                       "hdr": {"seq": [{"fmt": a["fmt"], "kinds": a["kinds"], "iso": ids[iso[k]]} for a, k in zip(s["seq"], keys)]},
                       "ev": [{"a": "Run", "i": i, "obs": ids[o]} for i, o in enumerate(obs, start=1)]})
    Path(out_file).write_text(json.dumps(traces))


if __name__ == "__main__":
    worker_main(sys.argv[1], sys.argv[2])
