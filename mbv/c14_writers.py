"""C14 writers: concrete image-bearing packages for every format, built on the shared writers.

The shared writers (mbv/writers/*) are not modified; what they cannot express (TargetMode External in a
DOCX, re-used / duplicated relationship ids, a chosen relationship order, XLSX anchor types and extents,
EPUB <img> references, RTF \\pict) is added by patching the ZIP they produce or by a small own writer.

A concrete case (see specs/Images.tla for the abstract one, this is the same value with real names):
  {"fmt", "base": [seg..], "nunits": n,
   "media":   [{"part": [seg..], "kind": "png", "w", "h", "data": bytes}],
   "anchors": [{"unit", "cands": [T..], "link": "own" | "reuse" | "dup", "fw", "fh", "atype", "ext"}],
   "order":   [anchor index (1-based) ..]}          container order of the relationships / manifest items
  T = {"mode": "embed" | "external" | "inline", "abs": bool, "segs": [..], "to": k}
"""
from __future__ import annotations

import io
import zipfile
from xml.sax.saxutils import escape

from .docmodel import word
from .writers import docx as wdocx, misc, odf, pptx as wpptx, web, xlsx as wxlsx
from .writers.images import MAKERS

# ----------------------------------------------------------------------------- image files: header variants
# The shared encoders (writers/images.py) write one header layout per kind.  Real encoders legally write others;
# every variant declares the pixel size (w, h) the caller asked for (BMP: |height|).
IMAGE_VARIANTS = {
    "jpeg": ["baseline", "dht-before-sof", "dht-dqt-sof", "exif-before-jfif", "progressive-sof2", "comment", "dri",
             "fill1", "multi-app-odd", "fill2", "restart", "fill3"],
    "png": ["plain", "ancillary-before-idat", "srgb-split-idat"],
    "gif": ["gif89a", "gif87a", "gif89a-extensions"],
    "bmp": ["info-bottom-up", "info-top-down", "v4", "v5-top-down"],
}


def _jpeg_variant(w, h, seed, variant):
    import struct

    def seg(marker, payload):
        return b"\xff" + bytes([marker]) + struct.pack(">H", len(payload) + 2) + payload
    app0 = seg(0xE0, b"JFIF\x00\x01\x01\x00\x00\x01\x00\x01\x00\x00")
    dqt = seg(0xDB, b"\x00" + bytes([16 + (seed % 8)] * 64))
    frame = struct.pack(">BHHB", 8, h, w, 1) + b"\x01\x11\x00"
    sof = seg(0xC2 if variant == "progressive-sof2" else 0xC0, frame)
    # Huffman tables whose code-length counts start with 5, 1 / 0, 5: read as a frame header they give a
    # different size (that is what a sniffer taking DHT for a frame header would report)
    dht1, dht2 = seg(0xC4, b"\x00" + bytes([0, 5, 1] + [0] * 13) + bytes(range(6))), seg(0xC4, b"\x10" + bytes([1] + [0] * 15) + b"\x00")
    dht = dht1 + dht2
    sos = seg(0xDA, b"\x01\x01\x00" + b"\x00\x3f\x00")
    scan = bytes([seed & 0x7F] + [0x00] * max(1, (2 * ((w + 7) // 8) * ((h + 7) // 8) + 7) // 8))
    if variant == "baseline" or variant == "progressive-sof2":
        body = app0 + dqt + sof + dht
    elif variant == "dht-before-sof":
        body = app0 + dqt + dht + sof
    elif variant == "dht-dqt-sof":
        body = app0 + dht + dqt + sof
    elif variant == "exif-before-jfif":
        # Exif APP1 in front of JFIF, holding a thumbnail JPEG with a frame header of its own (8 x 8)
        thumb = b"\xff\xd8" + seg(0xC0, struct.pack(">BHHB", 8, 8, 8, 1) + b"\x01\x11\x00") + b"\xff\xd9"
        tiff = b"II*\x00\x08\x00\x00\x00" + b"\x00\x00" + b"\x00\x00\x00\x00"
        body = seg(0xE1, b"Exif\x00\x00" + tiff + thumb) + app0 + dqt + sof + dht
    elif variant == "comment":
        body = app0 + seg(0xFE, b"made by c14 \xc0\xc4 test encoder") + dqt + dht + sof
    elif variant == "dri":
        body = app0 + dqt + seg(0xDD, struct.pack(">H", 4)) + sof + dht
    elif variant in ("fill1", "fill2", "fill3"):
        # T.81 B.1.1.2: any marker may be preceded by any number of 0xFF fill bytes
        fill = b"\xff" * int(variant[-1])
        return (b"\xff\xd8" + b"".join(fill + x for x in (app0, dqt, dht1, dht2, sof, sos)) + scan
                + fill + b"\xff\xd9")
    elif variant == "multi-app-odd":
        # several APPn / COM segments with odd payload lengths in front of the tables
        body = (app0 + seg(0xE2, b"ICC_PROFILE\x00\x01\x01" + bytes(range(1, 12))) + seg(0xED, b"Photoshop 3.0\x008BIM\x04\x04\x00")
                + seg(0xFE, b"odd") + seg(0xEE, b"Adobe\x00d\x00\x00\x00\x00\x00") + seg(0xFE, b"second comment.") + dqt + sof + dht)
    elif variant == "restart":
        # restart interval + RSTn markers inside the entropy-coded data
        body = app0 + dqt + sof + dht + seg(0xDD, struct.pack(">H", 1))
        scan = scan[:1] + b"\xff\xd0" + scan[1:2] + b"\xff\xd1" + scan[2:] + b"\xff\xd2" + b"\x00"
    else:
        raise ValueError(variant)
    return b"\xff\xd8" + body + sos + scan + b"\xff\xd9"


def _png_variant(w, h, seed, variant):
    import struct
    import zlib

    def chunk(t, d):
        return struct.pack(">I", len(d)) + t + d + struct.pack(">I", zlib.crc32(t + d) & 0xFFFFFFFF)
    raw = b"".join(b"\x00" + b"".join(bytes(((x * 7 + y * 13 + seed) & 0xFF, (x + seed) & 0xFF, (y * 3) & 0xFF))
                                        for x in range(w)) for y in range(h))
    z = zlib.compress(raw)
    head = b"\x89PNG\r\n\x1a\n" + chunk(b"IHDR", struct.pack(">IIBBBBB", w, h, 8, 2, 0, 0, 0))
    if variant == "plain":
        mid, idat = b"", chunk(b"IDAT", z)
    elif variant == "ancillary-before-idat":
        mid = (chunk(b"gAMA", struct.pack(">I", 45455)) + chunk(b"pHYs", struct.pack(">IIB", 2835, 2835, 1))
               + chunk(b"tEXt", b"Software\x00c14 test encoder"))
        idat = chunk(b"IDAT", z)
    elif variant == "srgb-split-idat":
        mid = chunk(b"sRGB", b"\x00") + chunk(b"tIME", struct.pack(">HBBBBB", 2024, 1, 1, 0, 0, 0))
        k = max(1, len(z) // 2)
        idat = chunk(b"IDAT", z[:k]) + chunk(b"IDAT", z[k:])
    else:
        raise ValueError(variant)
    return head + mid + idat + chunk(b"IEND", b"")


def _gif_variant(w, h, seed, variant):
    import struct
    sig = b"GIF87a" if variant == "gif87a" else b"GIF89a"
    ext = b""
    if variant == "gif89a-extensions":
        ext = (b"\x21\xfe" + bytes([8]) + b"c14 test" + b"\x00"                      # comment extension
               + b"\x21\xf9\x04\x00\x0a\x00\x00\x00")                               # graphic control extension
    return (sig + struct.pack("<HH", w, h) + b"\x80\x00\x00" + bytes((seed & 0xFF, (seed >> 8) & 0xFF, 0, 255, 255, 255)) + ext
            + b"\x2c" + struct.pack("<HHHH", 0, 0, w, h) + b"\x00" + b"\x02\x02\x44\x01\x00" + b"\x3b")


def _bmp_variant(w, h, seed, variant):
    import struct
    row = b"".join(bytes(((x + seed) & 0xFF, (seed >> 8) & 0xFF, 0x80)) for x in range(w))
    data = (row + b"\x00" * ((-len(row)) % 4)) * h
    hsize = {"info-bottom-up": 40, "info-top-down": 40, "v4": 108, "v5-top-down": 124}[variant]
    stored_h = -h if variant in ("info-top-down", "v5-top-down") else h
    hdr = struct.pack("<IiiHHIIiiII", hsize, w, stored_h, 1, 24, 0, len(data), 2835, 2835, 0, 0)
    if hsize >= 108:      # V4: colour masks, colour space type "sRGB", endpoints, gamma; V5: + intent, profile, reserved
        hdr += struct.pack("<IIII", 0, 0, 0, 0) + b"BGRs" + b"\x00" * 36 + struct.pack("<III", 0, 0, 0)
    if hsize == 124:
        hdr += struct.pack("<IIII", 4, 0, 0, 0)
    assert len(hdr) == hsize
    return b"BM" + struct.pack("<IHHI", 14 + hsize + len(data), 0, 0, 14 + hsize) + hdr + data


def make_image(kind: str, w: int, h: int, seed: int = 0, variant: str | None = None) -> bytes:
    """An image file of the kind with the declared pixel size (w, h) in the chosen header variant."""
    kind = "jpeg" if kind == "jpg" else kind
    variant = variant or IMAGE_VARIANTS[kind][0]
    return {"jpeg": _jpeg_variant, "png": _png_variant, "gif": _gif_variant, "bmp": _bmp_variant}[kind](w, h, seed, variant)


REL_IMAGE = "http://schemas.openxmlformats.org/officeDocument/2006/relationships/image"


def target_string(t: dict, k: int = 0) -> str:
    if t["mode"] == "external":
        return f"https://example.invalid/pics/ext{k}.png"
    return ("/" if t["abs"] else "") + "/".join(t["segs"])


def own_target(a: dict):
    """The relationship this anchor adds to the container (None for a re-used id)."""
    if a["link"] == "reuse":
        return None
    return a["cands"][-1] if a["link"] == "dup" else a["cands"][0]


def zip_patch(data: bytes, add: dict | None = None, edit: dict | None = None) -> bytes:
    """Copy a ZIP, replacing members through edit[name](old bytes) and adding new members."""
    add = dict(add or {})
    src = zipfile.ZipFile(io.BytesIO(data))
    buf = io.BytesIO()
    with zipfile.ZipFile(buf, "w") as z:
        for info in src.infolist():
            body = src.read(info.filename)
            if edit and info.filename in edit:
                body = edit[info.filename](body)
            if info.filename in add:
                body = add.pop(info.filename)
            z.writestr(zipfile.ZipInfo(info.filename), body,
                       zipfile.ZIP_STORED if info.filename == "mimetype" else zipfile.ZIP_DEFLATED)
        for name, body in add.items():
            z.writestr(name, body, zipfile.ZIP_DEFLATED)
    return buf.getvalue()


def media_files(conc) -> dict:
    return {"/".join(m["part"]): m["data"] for m in conc["media"]}


def _rids(conc, scope_by_unit: bool):
    """Relationship id of every anchor: a fresh one for 'own', the previous anchor's for reuse / dup."""
    rids, n = [], 0
    for i, a in enumerate(conc["anchors"]):
        if a["link"] == "own":
            n += 1
            rids.append(f"rIdImg{n}")
        else:
            rids.append(rids[i - 1])
    return rids


def _unit_text(k):
    return [["r", 900 + k]]


# ----------------------------------------------------------------------------- grouping constructs
# a["nest"]: the construct the picture anchor is wrapped in ("" = directly on the page / in the body)
NESTS = {
    "odt": ["", "g", "gg"], "odp": ["", "g", "gg"], "ods": ["", "g", "gg"], "odg": ["", "g", "gg"],
    "pptx": ["", "grp", "grp2"], "xlsx": ["", "grp"], "docx": ["", "tc", "sdt", "tbx", "wpg"],
    "epub": ["", "figure", "a", "td"], "rtf": ["", "shp", "cell"], "pdf": [""],
}


def _replace_nth(text: str, pattern: str, wrap) -> str:
    """Rewrite the matches of pattern in order: wrap(k, matched text) for the k-th match (0-based)."""
    import re
    k = [-1]

    def sub(m):
        k[0] += 1
        return wrap(k[0], m.group(0))
    return re.sub(pattern, sub, text, flags=re.S)


# ----------------------------------------------------------------------------- DOCX
def _docx_drawing(k, rid, nest=""):
    pic = (f'<pic:pic><pic:nvPicPr><pic:cNvPr id="{k}" name="img{k}"/><pic:cNvPicPr/></pic:nvPicPr>'
           f'<pic:blipFill><a:blip r:embed="{rid}"/></pic:blipFill><pic:spPr/></pic:pic>')
    inline = (f'<w:drawing><wp:inline><wp:extent cx="100" cy="100"/><wp:docPr id="{k}" name="Picture {k}"/>'
              '<a:graphic><a:graphicData uri="http://schemas.openxmlformats.org/drawingml/2006/picture">'
              f'{pic}</a:graphicData></a:graphic></wp:inline></w:drawing>')
    para = f"<w:p><w:r>{inline}</w:r></w:p>"
    if nest == "tc":           # picture in a table cell
        return ('<w:tbl><w:tblPr><w:tblW w:w="0" w:type="auto"/></w:tblPr><w:tblGrid><w:gridCol w:w="2000"/></w:tblGrid>'
                f'<w:tr><w:tc><w:tcPr><w:tcW w:w="2000" w:type="dxa"/></w:tcPr>{para}</w:tc></w:tr></w:tbl>')
    if nest == "sdt":          # picture in a block-level content control
        return f'<w:sdt><w:sdtPr><w:alias w:val="pic"/></w:sdtPr><w:sdtContent>{para}</w:sdtContent></w:sdt>'
    if nest == "tbx":          # picture in a text box (a drawing inside a drawing)
        return ('<w:p><w:r><mc:AlternateContent><mc:Choice Requires="wps"><w:drawing><wp:anchor>'
                f'<wp:docPr id="{500 + k}" name="Text Box {k}"/>'
                '<a:graphic><a:graphicData uri="http://schemas.microsoft.com/office/word/2010/wordprocessingShape">'
                f'<wps:wsp><wps:txbx><w:txbxContent>{para}</w:txbxContent></wps:txbx></wps:wsp>'
                '</a:graphicData></a:graphic></wp:anchor></w:drawing></mc:Choice></mc:AlternateContent></w:r></w:p>')
    if nest == "wpg":          # picture in a drawing group
        return (f'<w:p><w:r><w:drawing><wp:inline><wp:extent cx="100" cy="100"/><wp:docPr id="{k}" name="Group {k}"/>'
                '<a:graphic><a:graphicData uri="http://schemas.microsoft.com/office/word/2010/wordprocessingGroup">'
                '<wpg:wgp xmlns:wpg="http://schemas.microsoft.com/office/word/2010/wordprocessingGroup"><wpg:cNvGrpSpPr/>'
                f'<wpg:grpSpPr/>{pic}</wpg:wgp></a:graphicData></a:graphic></wp:inline></w:drawing></w:r></w:p>')
    return para


def _rel_xml(rid, t, k):
    ext = ' TargetMode="External"' if t["mode"] == "external" else ""
    return f'<Relationship Id="{rid}" Type="{REL_IMAGE}" Target="{escape(target_string(t, k))}"{ext}/>'


def build_docx(conc) -> bytes:
    doc = {"kind": "flow", "blocks": [["p", _unit_text(1)], ["p", [["r", 950]]]], "header": [], "footer": [], "props": {}}
    base = wdocx.write_docx(doc)
    rids = _rids(conc, False)
    body = "".join(_docx_drawing(i + 1, rids[i], a.get("nest", "")) for i, a in enumerate(conc["anchors"]))
    rels = ""
    for i in conc["order"]:
        a = conc["anchors"][i - 1]
        t = own_target(a)
        if t is not None:
            rels += _rel_xml(rids[i - 1], t, i)

    def ed_doc(b):
        s = b.decode()
        assert "<w:sectPr>" in s
        return s.replace("<w:sectPr>", body + "<w:sectPr>", 1).encode()

    def ed_rels(b):
        s = b.decode()
        # image relationships first or last relative to the others must not matter: put them first
        return s.replace('<Relationship ', rels + '<Relationship ', 1).encode()
    return zip_patch(base, add=media_files(conc), edit={"word/document.xml": ed_doc, "word/_rels/document.xml.rels": ed_rels})


# ----------------------------------------------------------------------------- PPTX
def build_pptx(conc) -> bytes:
    rids = _rids(conc, True)
    slides = []
    for u in range(1, conc["nunits"] + 1):
        imgs = []
        for i, a in enumerate(conc["anchors"]):
            if a["unit"] != u:
                continue
            t = own_target(a)
            imgs.append({"target": target_string(t, i + 1) if t else "", "part": None, "data": None,
                         "external": bool(t and t["mode"] == "external"), "rid": rids[i], "norel": t is None})
        slides.append({"shapes": [["title", _unit_text(u)]], "notes": [], "images": imgs})
    base = wpptx.write_pptx({"kind": "deck", "slides": slides})
    edit = {}
    parts = _pptx_slide_parts(base)
    for u in range(1, conc["nunits"] + 1):
        nests = [a.get("nest", "") for a in conc["anchors"] if a["unit"] == u]
        if any(nests):
            def wrap(k, pic, nests=nests):
                for d in range({"": 0, "grp": 1, "grp2": 2}[nests[k]]):
                    pic = (f'<p:grpSp><p:nvGrpSpPr><p:cNvPr id="{700 + 10 * k + d}" name="Group {k}.{d}"/><p:cNvGrpSpPr/><p:nvPr/>'
                           f'</p:nvGrpSpPr><p:grpSpPr/>{pic}</p:grpSp>')
                return pic
            edit[parts[u - 1]] = lambda b, wrap=wrap: _replace_nth(b.decode(), r"<p:pic>.*?</p:pic>", wrap).encode()
    return zip_patch(base, add=media_files(conc), edit=edit)


def _pptx_slide_parts(data: bytes) -> list:
    """Slide part of every slide in PRESENTATION order (p:sldIdLst + relationships; file numbers mean nothing)."""
    import posixpath
    import re
    z = zipfile.ZipFile(io.BytesIO(data))
    rels = dict(re.findall(r'<Relationship Id="([^"]+)" Type="[^"]+" Target="([^"]+)"', z.read("ppt/_rels/presentation.xml.rels").decode()))
    return [posixpath.normpath("ppt/" + rels[rid]) for rid in re.findall(r'<p:sldId [^>]*r:id="([^"]+)"', z.read("ppt/presentation.xml").decode())]


# ----------------------------------------------------------------------------- XLSX
def _xlsx_anchor(m, a, rid):
    pic = (f'<xdr:pic><xdr:nvPicPr><xdr:cNvPr id="{m}" name="Picture {m}"/><xdr:cNvPicPr/></xdr:nvPicPr>'
           f'<xdr:blipFill><a:blip r:embed="{rid}"/></xdr:blipFill><xdr:spPr/></xdr:pic><xdr:clientData/>')
    frm = f'<xdr:from><xdr:col>1</xdr:col><xdr:colOff>0</xdr:colOff><xdr:row>{m}</xdr:row><xdr:rowOff>0</xdr:rowOff></xdr:from>'
    if a.get("nest") == "grp":      # the picture sits in a shape group inside the anchor
        pic = (f'<xdr:grpSp><xdr:nvGrpSpPr><xdr:cNvPr id="{700 + m}" name="Group {m}"/><xdr:cNvGrpSpPr/></xdr:nvGrpSpPr><xdr:grpSpPr/>'
               + pic.replace("<xdr:clientData/>", "") + "</xdr:grpSp><xdr:clientData/>")
    cx, cy = a.get("ext") or (100, 100)
    if a.get("atype") == "two":
        to = f'<xdr:to><xdr:col>3</xdr:col><xdr:colOff>0</xdr:colOff><xdr:row>{m + 2}</xdr:row><xdr:rowOff>0</xdr:rowOff></xdr:to>'
        return f"<xdr:twoCellAnchor>{frm}{to}{pic}</xdr:twoCellAnchor>"
    if a.get("atype") == "abs":
        return f'<xdr:absoluteAnchor><xdr:pos x="0" y="{m * 1000}"/><xdr:ext cx="{cx}" cy="{cy}"/>{pic}</xdr:absoluteAnchor>'
    return f'<xdr:oneCellAnchor>{frm}<xdr:ext cx="{cx}" cy="{cy}"/>{pic}</xdr:oneCellAnchor>'


def _xlsx_drawing_parts(data: bytes) -> list:
    """Drawing part of every sheet in WORKBOOK order (None = the sheet has no drawing), read from the package
    the shared writer produced: workbook.xml -> workbook relationships -> sheet relationships.  The numbers in
    the part names mean nothing (the shared writer numbers the files in reverse on purpose)."""
    import posixpath
    import re
    z = zipfile.ZipFile(io.BytesIO(data))
    wb = z.read("xl/workbook.xml").decode()
    rels = dict(re.findall(r'<Relationship Id="([^"]+)" Type="[^"]+" Target="([^"]+)"', z.read("xl/_rels/workbook.xml.rels").decode()))
    out = []
    for rid in re.findall(r'<sheet [^>]*r:id="([^"]+)"', wb):
        sheet = posixpath.normpath("xl/" + rels[rid])
        rp = posixpath.dirname(sheet) + "/_rels/" + posixpath.basename(sheet) + ".rels"
        if rp not in z.namelist():
            out.append((sheet, rp, None))
            continue
        m = re.search(r'Type="[^"]+/drawing" Target="([^"]+)"', z.read(rp).decode())
        out.append((sheet, rp, posixpath.normpath(posixpath.dirname(sheet) + "/" + m.group(1)) if m else None))
    return out


# Non-picture relationships a worksheet part commonly owns (cell comments: vmlDrawing + comments; page setup:
# printerSettings; a table).  Their order relative to the drawing relationship is the producer's business.
XLSX_EXTRA_RELS = {
    "vmlDrawing": ("vmlDrawing", "../drawings/vmlDrawing{n}.vml", "xl/drawings/vmlDrawing{n}.vml"),
    "comments": ("comments", "../comments{n}.xml", "xl/comments{n}.xml"),
    "printerSettings": ("printerSettings", "../printerSettings/printerSettings{n}.bin", "xl/printerSettings/printerSettings{n}.bin"),
    "table": ("table", "../tables/table{n}.xml", "xl/tables/table{n}.xml"),
}
_VML = ('<xml xmlns:v="urn:schemas-microsoft-com:vml" xmlns:o="urn:schemas-microsoft-com:office:office" '
        'xmlns:x="urn:schemas-microsoft-com:office:excel"><o:shapelayout v:ext="edit"><o:idmap v:ext="edit" data="1"/>'
        '</o:shapelayout><v:shapetype id="_x0000_t202" coordsize="21600,21600" o:spt="202" path="m,l,21600r21600,l21600,xe">'
        '<v:stroke joinstyle="miter"/><v:path gradientshapeok="t" o:connecttype="rect"/></v:shapetype>'
        '<v:shape id="_x0000_s1025" type="#_x0000_t202" style="position:absolute;visibility:hidden" fillcolor="#ffffe1">'
        '<v:textbox/><x:ClientData ObjectType="Note"><x:Row>0</x:Row><x:Column>0</x:Column></x:ClientData></v:shape></xml>')


def _xlsx_extra_part(kind: str, n: int) -> bytes:
    main = wxlsx.MAIN
    if kind == "vmlDrawing":
        return _VML.encode()
    if kind == "comments":
        return (f'<?xml version="1.0"?><comments xmlns="{main}"><authors><author>rev</author></authors><commentList>'
                '<comment ref="A1" authorId="0"><text><r><t>note</t></r></text></comment></commentList></comments>').encode()
    if kind == "table":
        return (f'<?xml version="1.0"?><table xmlns="{main}" id="{n}" name="T{n}" displayName="T{n}" ref="A1:A1" '
                'totalsRowShown="0"><tableColumns count="1"><tableColumn id="1" name="c"/></tableColumns></table>').encode()
    return b"\x00\x01printer-settings-devmode\x00"


def _xlsx_sheet_rels(order, n, drawing_target) -> bytes:
    """Relationship part of a worksheet: the entries of `order` ("drawing" = the picture drawing) in that order."""
    out = ""
    for k, kind in enumerate(order, start=1):
        if kind == "drawing":
            out += f'<Relationship Id="rIdD" Type="{wxlsx.REL}/drawing" Target="{drawing_target}"/>'
        else:
            typ, target, _ = XLSX_EXTRA_RELS[kind]
            out += f'<Relationship Id="rIdX{k}" Type="{wxlsx.REL}/{typ}" Target="{target.format(n=n)}"/>'
    return ('<?xml version="1.0"?><Relationships xmlns="http://schemas.openxmlformats.org/package/2006/relationships">'
            f"{out}</Relationships>").encode()


def build_xlsx(conc) -> bytes:
    rids = _rids(conc, True)
    sheets, add = [], media_files(conc)
    per_unit = {}
    for u in range(1, conc["nunits"] + 1):
        mine = [(i, a) for i, a in enumerate(conc["anchors"]) if a["unit"] == u]
        per_unit[u] = mine
        sheets.append({"name": word(900 + u), "name_id": 900 + u, "rows": [[["s", 910 + u]]],
                       "images": [{"target": "placeholder", "part": None, "data": None}] if mine else []})
    base = wxlsx.write_xlsx({"kind": "book", "sheets": sheets})
    parts = _xlsx_drawing_parts(base)
    edit, ctypes = {}, ""
    for u, mine in per_unit.items():
        sheet, relpart, dpart = parts[u - 1]
        order = list((conc.get("sheetrels") or {}).get(u) or (["drawing"] if mine else []))
        if mine and "drawing" not in order:
            order.append("drawing")
        if not mine:
            order = [k for k in order if k != "drawing"]
        extras = [k for k in order if k != "drawing"]
        if extras:
            # the sheet's relationship part lists the extra relationships around the drawing one, in this order
            dtarget = "../drawings/" + dpart.rsplit("/", 1)[1] if dpart else ""
            add[relpart] = _xlsx_sheet_rels(order, u, dtarget)
            for kind in extras:
                add[XLSX_EXTRA_RELS[kind][2].format(n=u)] = _xlsx_extra_part(kind, u)
                if kind == "comments":
                    ctypes += (f'<Override PartName="/xl/comments{u}.xml" ContentType="application/vnd.openxmlformats-'
                               'officedocument.spreadsheetml.comments+xml"/>')
                if kind == "table":
                    ctypes += (f'<Override PartName="/xl/tables/table{u}.xml" ContentType="application/vnd.openxmlformats-'
                               'officedocument.spreadsheetml.table+xml"/>')
            if "vmlDrawing" in extras:       # cell comments: the sheet points at its legacy drawing
                rid = f"rIdX{order.index('vmlDrawing') + 1}"
                edit[sheet] = (lambda b, rid=rid: b.decode().replace("</worksheet>", f'<legacyDrawing r:id="{rid}"/></worksheet>').encode())
        if not mine:
            continue
        if dpart is None or not dpart.startswith("xl/drawings/"):
            raise ValueError(f"shared xlsx writer: no drawing part for sheet {u}")
        anchors = "".join(_xlsx_anchor(m, a, rids[i]) for m, (i, a) in enumerate(mine, start=1))
        rels = "".join(_rel_xml(rids[i], own_target(a), i + 1) for i, a in mine if own_target(a) is not None)
        add[dpart] = (
            '<?xml version="1.0"?><xdr:wsDr xmlns:xdr="http://schemas.openxmlformats.org/drawingml/2006/'
            'spreadsheetDrawing" xmlns:a="http://schemas.openxmlformats.org/drawingml/2006/main" '
            f'xmlns:r="{wxlsx.REL}">{anchors}</xdr:wsDr>').encode()
        add["xl/drawings/_rels/" + dpart.rsplit("/", 1)[1] + ".rels"] = (
            '<?xml version="1.0"?><Relationships xmlns="http://schemas.openxmlformats.org/package/2006/relationships">'
            f"{rels}</Relationships>").encode()
    if ctypes or edit:
        edit["[Content_Types].xml"] = lambda b: b.decode().replace("</Types>", (
            '<Default Extension="vml" ContentType="application/vnd.openxmlformats-officedocument.vmlDrawing"/>'
            '<Default Extension="bin" ContentType="application/vnd.openxmlformats-officedocument.spreadsheetml.printerSettings"/>'
            + ctypes + "</Types>")).encode()
    return zip_patch(base, add=add, edit=edit)


# ----------------------------------------------------------------------------- ODF
def _odf_images(conc, unit):
    out = []
    for i, a in enumerate(conc["anchors"]):
        if a["unit"] == unit:
            out.append({"target": target_string(a["cands"][0], i + 1), "part": None, "data": None})
    return out


def build_odf(conc) -> bytes:
    data = _build_odf_flat(conc)
    nests = [a.get("nest", "") for a in conc["anchors"]]
    if not any(nests):
        return data

    def wrap(k, frame):          # the k-th image frame of content.xml belongs to the k-th anchor (document order)
        for d in range({"": 0, "g": 1, "gg": 2}[nests[k]]):
            frame = f'<draw:g draw:name="Group{k}.{d}">{frame}</draw:g>'
        return frame
    pat = r'<draw:frame draw:name="Image\d+"[^>]*><draw:image [^>]*/></draw:frame>'
    return zip_patch(data, edit={"content.xml": lambda b: _replace_nth(b.decode(), pat, wrap).encode()})


def _build_odf_flat(conc) -> bytes:
    fmt = conc["fmt"]
    add = media_files(conc)
    if fmt == "odt":
        doc = {"kind": "flow", "blocks": [["p", _unit_text(1)]], "header": [], "footer": [], "props": {},
               "images": _odf_images(conc, 1)}
        return zip_patch(odf.write_odt(doc), add=add)
    if fmt in ("odp", "odg"):
        slides = [{"shapes": [["title", _unit_text(u)]], "notes": [],
                   "images": _odf_images(conc, u) if fmt == "odp" else []} for u in range(1, conc["nunits"] + 1)]
        if fmt == "odg":      # a drawing: all anchors, page by page
            for a_u in range(1, conc["nunits"] + 1):
                slides[a_u - 1]["images"] = _odf_images(conc, a_u)
        return zip_patch({"odp": odf.write_odp, "odg": odf.write_odg}[fmt]({"kind": "deck", "slides": slides}), add=add)
    if fmt == "ods":
        sheets = [{"name": word(900 + u), "name_id": 900 + u, "rows": [[["s", 910 + u]]], "images": _odf_images(conc, u)}
                  for u in range(1, conc["nunits"] + 1)]
        return zip_patch(odf.write_ods({"kind": "book", "sheets": sheets}), add=add)
    raise ValueError(fmt)


# ----------------------------------------------------------------------------- EPUB
def build_epub(conc) -> bytes:
    def place(i, a):
        img = f'<img src="{escape(target_string(a["cands"][0], i + 1))}" alt="i{i + 1}"/>'
        return {"": f"<p>{img}</p>", "figure": f"<figure>{img}<figcaption>{word(960 + i)}</figcaption></figure>",
                "a": f'<p><a href="https://example.invalid/">{img}</a></p>',
                "td": f"<table><tr><td>{img}</td><td>{word(960 + i)}</td></tr></table>"}[a.get("nest", "")]
    imgs = "".join(place(i, a) for i, a in enumerate(conc["anchors"]))
    chapter = ('<?xml version="1.0" encoding="utf-8"?><html xmlns="http://www.w3.org/1999/xhtml"><head><title>c</title></head>'
               f"<body><p>{word(901)}</p>{imgs}<p>{word(950)}</p></body></html>").encode()
    manifest, listed = [], set()
    ctype = {k: v[1] for k, v in MAKERS.items()}
    for i in conc["order"]:
        a = conc["anchors"][i - 1]
        t = a["cands"][0]
        if t["mode"] != "embed":
            continue                      # a remote image is not a publication resource here
        href = target_string(t)
        if href in listed:                # one manifest item per resource: anchors with the same href share it
            continue
        listed.add(href)
        kind = conc["media"][t["to"] - 1]["kind"] if t["to"] else "png"      # declared by the package, not by the name
        manifest.append({"part": "unused", "data": None, "href": href, "media": ctype[kind]})
    # parts that are in the package but referenced by no <img>: listed in the manifest (as EPUB requires)
    anchored = {t["to"] for a in conc["anchors"] for t in a["cands"] if t["mode"] == "embed"}
    for k, m in enumerate(conc["media"], start=1):
        if k not in anchored:
            rel = m["part"][len(conc["base"]):] if m["part"][:len(conc["base"])] == conc["base"] else [".."] + m["part"]
            manifest.append({"part": "unused", "data": None, "href": "/".join(rel), "media": ctype[m["kind"]]})
    book = {"chapters": [{"kind": "flow", "blocks": [["p", _unit_text(1)]]}], "props": {"title": "T"},
            "images": manifest, "extra_files": {"OEBPS/ch1.xhtml": chapter}}
    return zip_patch(web.write_epub(book), add=media_files(conc))


# ----------------------------------------------------------------------------- PDF
# /Filter forms a PDF writer may legally use for an image XObject (ISO 32000-1, 7.4.1: a name or an array of
# names applied in order).  The LAST filter is the one that says what the decoded data is.
PDF_FILTERS = {
    "jpeg": ["/DCTDecode", "[/DCTDecode]", "[/FlateDecode /DCTDecode]", "[/ASCIIHexDecode /DCTDecode]",
             "[/ASCII85Decode /DCTDecode]"],
    "raw": ["/FlateDecode", "[/FlateDecode]", "[/ASCII85Decode /FlateDecode]", "[/ASCIIHexDecode /FlateDecode]"],
}


def pdf_encode(data: bytes, form: str) -> bytes:
    """Stream payload for a filter form: the encoders are applied in reverse order of the decode chain."""
    import base64
    import zlib
    names = form.strip("[]").split()
    for name in reversed(names):
        if name == "/FlateDecode":
            data = zlib.compress(data)
        elif name == "/ASCIIHexDecode":
            data = data.hex().encode() + b">"
        elif name == "/ASCII85Decode":
            data = base64.a85encode(data) + b"~>"
        elif name != "/DCTDecode":            # the JPEG file is the DCT-encoded data
            raise ValueError(name)
    return data


def build_pdf(conc) -> bytes:
    """Own variant of writers.misc.write_pdf: one Helvetica line per page and image XObjects whose /Filter entry
    takes the form chosen per anchor (a["pfilter"]; default: the single name)."""
    objs: list[bytes] = []

    def add(b: bytes) -> int:
        objs.append(b)
        return len(objs)
    font = add(b"<< /Type /Font /Subtype /Type1 /BaseFont /Helvetica /Encoding /WinAnsiEncoding >>")
    pages_id = add(b"")
    kids = []
    for u in range(1, conc["nunits"] + 1):
        content = [b"BT /F1 12 Tf 14 TL 72 760 Td (" + word(900 + u).encode() + b") Tj T* ET"]
        xobjs = b""
        k = 0
        for a in conc["anchors"]:
            if a["unit"] != u:
                continue
            k += 1
            m = conc["media"][a["cands"][0]["to"] - 1]
            kind = "jpeg" if m["kind"] == "jpeg" else "raw"
            form = a.get("pfilter") or PDF_FILTERS[kind][0]
            payload = pdf_encode(m["data"], form)
            io_ = add(b"<< /Type /XObject /Subtype /Image /Width %d /Height %d /ColorSpace /DeviceRGB /BitsPerComponent 8 "
                      b"/Filter %s /Length %d >>\nstream\n" % (m["w"], m["h"], form.encode(), len(payload)) + payload + b"\nendstream")
            xobjs += b"/Im%d %d 0 R " % (k, io_)
            content.append(b"q 50 0 0 50 72 %d cm /Im%d Do Q" % (100 + 60 * k, k))
        stream = b"\n".join(content)
        cid = add(b"<< /Length %d >>\nstream\n" % len(stream) + stream + b"\nendstream")
        res = b"<< /Font << /F1 %d 0 R >> " % font + (b"/XObject << " + xobjs + b">> " if xobjs else b"") + b">>"
        kids.append(add(b"<< /Type /Page /Parent %d 0 R /MediaBox [0 0 612 792] /Contents %d 0 R /Resources " % (pages_id, cid)
                        + res + b" >>"))
    objs[pages_id - 1] = b"<< /Type /Pages /Count %d /Kids [" % len(kids) + b" ".join(b"%d 0 R" % x for x in kids) + b"] >>"
    cat = add(b"<< /Type /Catalog /Pages %d 0 R >>" % pages_id)
    out = bytearray(b"%PDF-1.4\n%\xe2\xe3\xcf\xd3\n")
    offs = []
    for n, o in enumerate(objs, start=1):
        offs.append(len(out))
        out += b"%d 0 obj\n" % n + o + b"\nendobj\n"
    xref = len(out)
    out += b"xref\n0 %d\n0000000000 65535 f \n" % (len(objs) + 1)
    for o in offs:
        out += b"%010d 00000 n \n" % o
    out += b"trailer\n<< /Size %d /Root %d 0 R >>\nstartxref\n%d\n%%%%EOF\n" % (len(objs) + 1, cat, xref)
    return bytes(out)


# ----------------------------------------------------------------------------- RTF
def rtf_pict(m, wrap: int = 0, blipuid: bool = False, crop: bool = False, scale: bool = False, eol: str = "\n") -> str:
    """{\\pict ...}: header control words as word processors write them (pixel size, goal size in twips, optional
    scaling, optional cropping with NEGATIVE values = added margin, optional {\\*\\blipuid} destination), then the
    hex dump on one line or wrapped at `wrap` columns with LF or CRLF."""
    blip = {"png": "\\pngblip", "jpeg": "\\jpegblip"}[m["kind"]]
    hexd = m["data"].hex()
    if wrap:
        hexd = eol.join(hexd[k:k + wrap] for k in range(0, len(hexd), wrap))
    head = f"\\picw{m['w']}\\pich{m['h']}\\picwgoal{m['w'] * 15}\\pichgoal{m['h'] * 15}"
    if scale:
        head = "\\picscalex87\\picscaley113" + head
    if crop:
        head += "\\piccropl-120\\piccropr0\\piccropt-5\\piccropb30"
    uid = "{\\*\\blipuid " + "0123456789abcdef" * 2 + "}" if blipuid else ""
    return "{\\pict" + blip + head + uid + eol + hexd + "}"


def build_rtf(conc) -> bytes:
    head = "{\\rtf1\\ansi\\ansicpg1252\\deff0{\\fonttbl{\\f0\\fswiss Helvetica;}}\n"
    pages = []
    for u in range(1, conc["nunits"] + 1):
        body = "\\pard\\plain " + word(900 + u) + "\\par\n"
        for a in conc["anchors"]:
            if a["unit"] == u:
                m = conc["media"][a["cands"][0]["to"] - 1]
                pict = rtf_pict(m, a.get("wrap", 0), a.get("blipuid", False), a.get("crop", False), a.get("scale", False),
                                a.get("eol", "\n"))
                if a.get("nest") == "shp":        # the picture is the fill ("pib") of a drawing shape
                    body += ("\\pard\\plain {\\shp{\\*\\shpinst\\shpleft0\\shptop0\\shpright1500\\shpbottom1500\\shpwr3"
                             "{\\sp{\\sn shapeType}{\\sv 75}}{\\sp{\\sn pib}{\\sv " + pict + "}}}}\\par\n")
                elif a.get("nest") == "cell":     # the picture sits in a table cell
                    body += "\\trowd\\cellx4000\\pard\\intbl " + pict + "\\cell\\row\n\\pard\\par\n"
                else:
                    body += "\\pard\\plain " + pict + "\\par\n"
        pages.append(body)
    return (head + "\\page\n".join(pages) + "}").encode("ascii")


BUILDERS = {"docx": build_docx, "pptx": build_pptx, "xlsx": build_xlsx, "odt": build_odf, "odp": build_odf,
            "ods": build_odf, "odg": build_odf, "epub": build_epub, "pdf": build_pdf, "rtf": build_rtf}


def build(conc) -> bytes:
    return BUILDERS[conc["fmt"]](conc)
