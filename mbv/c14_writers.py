"""C14 writers: concrete image-bearing packages for every format, built on the shared writers.

The shared writers (mbv/writers/*) are not modified; what they cannot express (TargetMode External in a
DOCX, re-used / duplicated relationship ids, a chosen relationship order, XLSX anchor types and extents,
EPUB <img> references, RTF \\pict) is added by patching the ZIP they produce or by a small own writer.

A concrete case (see specs/Images.tla for the abstract one, this is the same value with real names):
  {"fmt", "base": [seg..], "nunits": n,
   "media":   [{"part": [seg..], "kind": "png", "w", "h", "data": bytes}],
   "anchors": [{"unit", "cands": [T..], "link": "own" | "reuse" | "dup", "fw", "fh", "atype", "ext"}],
   "order":   [anchor index (1-based) ..]}          container order of the relationships / manifest items
  T = {"mode": "embed" | "external" | "inline", "abs": bool, "segs": [..], "to": k}
"""
from __future__ import annotations

import io
import zipfile
from xml.sax.saxutils import escape

from .docmodel import word
from .writers import docx as wdocx, misc, odf, pptx as wpptx, web, xlsx as wxlsx
from .writers.images import MAKERS

REL_IMAGE = "http://schemas.openxmlformats.org/officeDocument/2006/relationships/image"


def target_string(t: dict, k: int = 0) -> str:
    if t["mode"] == "external":
        return f"https://example.invalid/pics/ext{k}.png"
    return ("/" if t["abs"] else "") + "/".join(t["segs"])


def own_target(a: dict):
    """The relationship this anchor adds to the container (None for a re-used id)."""
    if a["link"] == "reuse":
        return None
    return a["cands"][-1] if a["link"] == "dup" else a["cands"][0]


def zip_patch(data: bytes, add: dict | None = None, edit: dict | None = None) -> bytes:
    """Copy a ZIP, replacing members through edit[name](old bytes) and adding new members."""
    add = dict(add or {})
    src = zipfile.ZipFile(io.BytesIO(data))
    buf = io.BytesIO()
    with zipfile.ZipFile(buf, "w") as z:
        for info in src.infolist():
            body = src.read(info.filename)
            if edit and info.filename in edit:
                body = edit[info.filename](body)
            if info.filename in add:
                body = add.pop(info.filename)
            z.writestr(zipfile.ZipInfo(info.filename), body,
                       zipfile.ZIP_STORED if info.filename == "mimetype" else zipfile.ZIP_DEFLATED)
        for name, body in add.items():
            z.writestr(name, body, zipfile.ZIP_DEFLATED)
    return buf.getvalue()


def media_files(conc) -> dict:
    return {"/".join(m["part"]): m["data"] for m in conc["media"]}


def _rids(conc, scope_by_unit: bool):
    """Relationship id of every anchor: a fresh one for 'own', the previous anchor's for reuse / dup."""
    rids, n = [], 0
    for i, a in enumerate(conc["anchors"]):
        if a["link"] == "own":
            n += 1
            rids.append(f"rIdImg{n}")
        else:
            rids.append(rids[i - 1])
    return rids


def _unit_text(k):
    return [["r", 900 + k]]


# ----------------------------------------------------------------------------- DOCX
def _docx_drawing(k, rid):
    return (f'<w:p><w:r><w:drawing><wp:inline><wp:extent cx="100" cy="100"/><wp:docPr id="{k}" name="Picture {k}"/>'
            '<a:graphic><a:graphicData uri="http://schemas.openxmlformats.org/drawingml/2006/picture">'
            f'<pic:pic><pic:nvPicPr><pic:cNvPr id="{k}" name="img{k}"/><pic:cNvPicPr/></pic:nvPicPr>'
            f'<pic:blipFill><a:blip r:embed="{rid}"/></pic:blipFill><pic:spPr/></pic:pic>'
            '</a:graphicData></a:graphic></wp:inline></w:drawing></w:r></w:p>')


def _rel_xml(rid, t, k):
    ext = ' TargetMode="External"' if t["mode"] == "external" else ""
    return f'<Relationship Id="{rid}" Type="{REL_IMAGE}" Target="{escape(target_string(t, k))}"{ext}/>'


def build_docx(conc) -> bytes:
    doc = {"kind": "flow", "blocks": [["p", _unit_text(1)], ["p", [["r", 950]]]], "header": [], "footer": [], "props": {}}
    base = wdocx.write_docx(doc)
    rids = _rids(conc, False)
    body = "".join(_docx_drawing(i + 1, rids[i]) for i in range(len(conc["anchors"])))
    rels = ""
    for i in conc["order"]:
        a = conc["anchors"][i - 1]
        t = own_target(a)
        if t is not None:
            rels += _rel_xml(rids[i - 1], t, i)

    def ed_doc(b):
        s = b.decode()
        assert "<w:sectPr>" in s
        return s.replace("<w:sectPr>", body + "<w:sectPr>", 1).encode()

    def ed_rels(b):
        s = b.decode()
        # image relationships first or last relative to the others must not matter: put them first
        return s.replace('<Relationship ', rels + '<Relationship ', 1).encode()
    return zip_patch(base, add=media_files(conc), edit={"word/document.xml": ed_doc, "word/_rels/document.xml.rels": ed_rels})


# ----------------------------------------------------------------------------- PPTX
def build_pptx(conc) -> bytes:
    rids = _rids(conc, True)
    slides = []
    for u in range(1, conc["nunits"] + 1):
        imgs = []
        for i, a in enumerate(conc["anchors"]):
            if a["unit"] != u:
                continue
            t = own_target(a)
            imgs.append({"target": target_string(t, i + 1) if t else "", "part": None, "data": None,
                         "external": bool(t and t["mode"] == "external"), "rid": rids[i], "norel": t is None})
        slides.append({"shapes": [["title", _unit_text(u)]], "notes": [], "images": imgs})
    return zip_patch(wpptx.write_pptx({"kind": "deck", "slides": slides}), add=media_files(conc))


# ----------------------------------------------------------------------------- XLSX
def _xlsx_anchor(m, a, rid):
    pic = (f'<xdr:pic><xdr:nvPicPr><xdr:cNvPr id="{m}" name="Picture {m}"/><xdr:cNvPicPr/></xdr:nvPicPr>'
           f'<xdr:blipFill><a:blip r:embed="{rid}"/></xdr:blipFill><xdr:spPr/></xdr:pic><xdr:clientData/>')
    frm = f'<xdr:from><xdr:col>1</xdr:col><xdr:colOff>0</xdr:colOff><xdr:row>{m}</xdr:row><xdr:rowOff>0</xdr:rowOff></xdr:from>'
    cx, cy = a.get("ext") or (100, 100)
    if a.get("atype") == "two":
        to = f'<xdr:to><xdr:col>3</xdr:col><xdr:colOff>0</xdr:colOff><xdr:row>{m + 2}</xdr:row><xdr:rowOff>0</xdr:rowOff></xdr:to>'
        return f"<xdr:twoCellAnchor>{frm}{to}{pic}</xdr:twoCellAnchor>"
    if a.get("atype") == "abs":
        return f'<xdr:absoluteAnchor><xdr:pos x="0" y="{m * 1000}"/><xdr:ext cx="{cx}" cy="{cy}"/>{pic}</xdr:absoluteAnchor>'
    return f'<xdr:oneCellAnchor>{frm}<xdr:ext cx="{cx}" cy="{cy}"/>{pic}</xdr:oneCellAnchor>'


def _xlsx_drawing_parts(data: bytes) -> list:
    """Drawing part of every sheet in WORKBOOK order (None = the sheet has no drawing), read from the package
    the shared writer produced: workbook.xml -> workbook relationships -> sheet relationships.  The numbers in
    the part names mean nothing (the shared writer numbers the files in reverse on purpose)."""
    import posixpath
    import re
    z = zipfile.ZipFile(io.BytesIO(data))
    wb = z.read("xl/workbook.xml").decode()
    rels = dict(re.findall(r'<Relationship Id="([^"]+)" Type="[^"]+" Target="([^"]+)"', z.read("xl/_rels/workbook.xml.rels").decode()))
    out = []
    for rid in re.findall(r'<sheet [^>]*r:id="([^"]+)"', wb):
        sheet = posixpath.normpath("xl/" + rels[rid])
        rp = posixpath.dirname(sheet) + "/_rels/" + posixpath.basename(sheet) + ".rels"
        if rp not in z.namelist():
            out.append(None)
            continue
        m = re.search(r'Type="[^"]+/drawing" Target="([^"]+)"', z.read(rp).decode())
        out.append(posixpath.normpath(posixpath.dirname(sheet) + "/" + m.group(1)) if m else None)
    return out


def build_xlsx(conc) -> bytes:
    rids = _rids(conc, True)
    sheets, add = [], media_files(conc)
    per_unit = {}
    for u in range(1, conc["nunits"] + 1):
        mine = [(i, a) for i, a in enumerate(conc["anchors"]) if a["unit"] == u]
        per_unit[u] = mine
        sheets.append({"name": word(900 + u), "name_id": 900 + u, "rows": [[["s", 910 + u]]],
                       "images": [{"target": "placeholder", "part": None, "data": None}] if mine else []})
    base = wxlsx.write_xlsx({"kind": "book", "sheets": sheets})
    drawings = _xlsx_drawing_parts(base)
    for u, mine in per_unit.items():
        if not mine:
            continue
        dpart = drawings[u - 1]
        if dpart is None or not dpart.startswith("xl/drawings/"):
            raise ValueError(f"shared xlsx writer: no drawing part for sheet {u}")
        anchors = "".join(_xlsx_anchor(m, a, rids[i]) for m, (i, a) in enumerate(mine, start=1))
        rels = "".join(_rel_xml(rids[i], own_target(a), i + 1) for i, a in mine if own_target(a) is not None)
        add[dpart] = (
            '<?xml version="1.0"?><xdr:wsDr xmlns:xdr="http://schemas.openxmlformats.org/drawingml/2006/'
            'spreadsheetDrawing" xmlns:a="http://schemas.openxmlformats.org/drawingml/2006/main" '
            f'xmlns:r="{wxlsx.REL}">{anchors}</xdr:wsDr>').encode()
        add["xl/drawings/_rels/" + dpart.rsplit("/", 1)[1] + ".rels"] = (
            '<?xml version="1.0"?><Relationships xmlns="http://schemas.openxmlformats.org/package/2006/relationships">'
            f"{rels}</Relationships>").encode()
    return zip_patch(base, add=add)


# ----------------------------------------------------------------------------- ODF
def _odf_images(conc, unit):
    out = []
    for i, a in enumerate(conc["anchors"]):
        if a["unit"] == unit:
            out.append({"target": target_string(a["cands"][0], i + 1), "part": None, "data": None})
    return out


def build_odf(conc) -> bytes:
    fmt = conc["fmt"]
    add = media_files(conc)
    if fmt == "odt":
        doc = {"kind": "flow", "blocks": [["p", _unit_text(1)]], "header": [], "footer": [], "props": {},
               "images": _odf_images(conc, 1)}
        return zip_patch(odf.write_odt(doc), add=add)
    if fmt in ("odp", "odg"):
        slides = [{"shapes": [["title", _unit_text(u)]], "notes": [],
                   "images": _odf_images(conc, u) if fmt == "odp" else []} for u in range(1, conc["nunits"] + 1)]
        if fmt == "odg":      # a drawing: all anchors, page by page
            for a_u in range(1, conc["nunits"] + 1):
                slides[a_u - 1]["images"] = _odf_images(conc, a_u)
        return zip_patch({"odp": odf.write_odp, "odg": odf.write_odg}[fmt]({"kind": "deck", "slides": slides}), add=add)
    if fmt == "ods":
        sheets = [{"name": word(900 + u), "name_id": 900 + u, "rows": [[["s", 910 + u]]], "images": _odf_images(conc, u)}
                  for u in range(1, conc["nunits"] + 1)]
        return zip_patch(odf.write_ods({"kind": "book", "sheets": sheets}), add=add)
    raise ValueError(fmt)


# ----------------------------------------------------------------------------- EPUB
def build_epub(conc) -> bytes:
    imgs = "".join(f'<p><img src="{escape(target_string(a["cands"][0], i + 1))}" alt="i{i + 1}"/></p>'
                   for i, a in enumerate(conc["anchors"]))
    chapter = ('<?xml version="1.0" encoding="utf-8"?><html xmlns="http://www.w3.org/1999/xhtml"><head><title>c</title></head>'
               f"<body><p>{word(901)}</p>{imgs}<p>{word(950)}</p></body></html>").encode()
    manifest = []
    ctype = {k: v[1] for k, v in MAKERS.items()}
    for i in conc["order"]:
        a = conc["anchors"][i - 1]
        t = a["cands"][0]
        if t["mode"] != "embed":
            continue                      # a remote image is not a publication resource here
        ext = t["segs"][-1].rsplit(".", 1)[-1] if "." in t["segs"][-1] else "png"
        manifest.append({"part": "unused", "data": None, "href": target_string(t), "media": ctype.get(ext, "image/png")})
    # parts that are in the package but referenced by no <img>: listed in the manifest (as EPUB requires)
    anchored = {tuple(t["segs"][-1:]) for a in conc["anchors"] for t in a["cands"] if t["mode"] == "embed"}
    for m in conc["media"]:
        if (m["part"][-1],) not in anchored:
            rel = m["part"][len(conc["base"]):] if m["part"][:len(conc["base"])] == conc["base"] else [".."] + m["part"]
            manifest.append({"part": "unused", "data": None, "href": "/".join(rel), "media": ctype[m["kind"]]})
    book = {"chapters": [{"kind": "flow", "blocks": [["p", _unit_text(1)]]}], "props": {"title": "T"},
            "images": manifest, "extra_files": {"OEBPS/ch1.xhtml": chapter}}
    return zip_patch(web.write_epub(book), add=media_files(conc))


# ----------------------------------------------------------------------------- PDF
# /Filter forms a PDF writer may legally use for an image XObject (ISO 32000-1, 7.4.1: a name or an array of
# names applied in order).  The LAST filter is the one that says what the decoded data is.
PDF_FILTERS = {
    "jpeg": ["/DCTDecode", "[/DCTDecode]", "[/FlateDecode /DCTDecode]", "[/ASCIIHexDecode /DCTDecode]",
             "[/ASCII85Decode /DCTDecode]"],
    "raw": ["/FlateDecode", "[/FlateDecode]", "[/ASCII85Decode /FlateDecode]", "[/ASCIIHexDecode /FlateDecode]"],
}


def pdf_encode(data: bytes, form: str) -> bytes:
    """Stream payload for a filter form: the encoders are applied in reverse order of the decode chain."""
    import base64
    import zlib
    names = form.strip("[]").split()
    for name in reversed(names):
        if name == "/FlateDecode":
            data = zlib.compress(data)
        elif name == "/ASCIIHexDecode":
            data = data.hex().encode() + b">"
        elif name == "/ASCII85Decode":
            data = base64.a85encode(data) + b"~>"
        elif name != "/DCTDecode":            # the JPEG file is the DCT-encoded data
            raise ValueError(name)
    return data


def build_pdf(conc) -> bytes:
    """Own variant of writers.misc.write_pdf: one Helvetica line per page and image XObjects whose /Filter entry
    takes the form chosen per anchor (a["pfilter"]; default: the single name)."""
    objs: list[bytes] = []

    def add(b: bytes) -> int:
        objs.append(b)
        return len(objs)
    font = add(b"<< /Type /Font /Subtype /Type1 /BaseFont /Helvetica /Encoding /WinAnsiEncoding >>")
    pages_id = add(b"")
    kids = []
    for u in range(1, conc["nunits"] + 1):
        content = [b"BT /F1 12 Tf 14 TL 72 760 Td (" + word(900 + u).encode() + b") Tj T* ET"]
        xobjs = b""
        k = 0
        for a in conc["anchors"]:
            if a["unit"] != u:
                continue
            k += 1
            m = conc["media"][a["cands"][0]["to"] - 1]
            kind = "jpeg" if m["kind"] == "jpeg" else "raw"
            form = a.get("pfilter") or PDF_FILTERS[kind][0]
            payload = pdf_encode(m["data"], form)
            io_ = add(b"<< /Type /XObject /Subtype /Image /Width %d /Height %d /ColorSpace /DeviceRGB /BitsPerComponent 8 "
                      b"/Filter %s /Length %d >>\nstream\n" % (m["w"], m["h"], form.encode(), len(payload)) + payload + b"\nendstream")
            xobjs += b"/Im%d %d 0 R " % (k, io_)
            content.append(b"q 50 0 0 50 72 %d cm /Im%d Do Q" % (100 + 60 * k, k))
        stream = b"\n".join(content)
        cid = add(b"<< /Length %d >>\nstream\n" % len(stream) + stream + b"\nendstream")
        res = b"<< /Font << /F1 %d 0 R >> " % font + (b"/XObject << " + xobjs + b">> " if xobjs else b"") + b">>"
        kids.append(add(b"<< /Type /Page /Parent %d 0 R /MediaBox [0 0 612 792] /Contents %d 0 R /Resources " % (pages_id, cid)
                        + res + b" >>"))
    objs[pages_id - 1] = b"<< /Type /Pages /Count %d /Kids [" % len(kids) + b" ".join(b"%d 0 R" % x for x in kids) + b"] >>"
    cat = add(b"<< /Type /Catalog /Pages %d 0 R >>" % pages_id)
    out = bytearray(b"%PDF-1.4\n%\xe2\xe3\xcf\xd3\n")
    offs = []
    for n, o in enumerate(objs, start=1):
        offs.append(len(out))
        out += b"%d 0 obj\n" % n + o + b"\nendobj\n"
    xref = len(out)
    out += b"xref\n0 %d\n0000000000 65535 f \n" % (len(objs) + 1)
    for o in offs:
        out += b"%010d 00000 n \n" % o
    out += b"trailer\n<< /Size %d /Root %d 0 R >>\nstartxref\n%d\n%%%%EOF\n" % (len(objs) + 1, cat, xref)
    return bytes(out)


# ----------------------------------------------------------------------------- RTF
def rtf_pict(m, wrap: int = 0, blipuid: bool = False) -> str:
    blip = {"png": "\\pngblip", "jpeg": "\\jpegblip"}[m["kind"]]
    hexd = m["data"].hex()
    if wrap:
        hexd = "\n".join(hexd[k:k + wrap] for k in range(0, len(hexd), wrap))
    uid = "{\\*\\blipuid " + "0123456789abcdef" * 2 + "}" if blipuid else ""
    return ("{\\pict" + blip + f"\\picw{m['w']}\\pich{m['h']}\\picwgoal{m['w'] * 15}\\pichgoal{m['h'] * 15}"
            + uid + "\n" + hexd + "}")


def build_rtf(conc) -> bytes:
    head = "{\\rtf1\\ansi\\ansicpg1252\\deff0{\\fonttbl{\\f0\\fswiss Helvetica;}}\n"
    pages = []
    for u in range(1, conc["nunits"] + 1):
        body = "\\pard\\plain " + word(900 + u) + "\\par\n"
        for a in conc["anchors"]:
            if a["unit"] == u:
                m = conc["media"][a["cands"][0]["to"] - 1]
                body += "\\pard\\plain " + rtf_pict(m, a.get("wrap", 0), a.get("blipuid", False)) + "\\par\n"
        pages.append(body)
    return (head + "\\page\n".join(pages) + "}").encode("ascii")


BUILDERS = {"docx": build_docx, "pptx": build_pptx, "xlsx": build_xlsx, "odt": build_odf, "odp": build_odf,
            "ods": build_odf, "odg": build_odf, "epub": build_epub, "pdf": build_pdf, "rtf": build_rtf}


def build(conc) -> bytes:
    return BUILDERS[conc["fmt"]](conc)
