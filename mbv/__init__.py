"""mbv -- model-based verification support for sharepoint-to-text.

Layout (see /verif/DESIGN.md and /verif/BUILDING.md):
  tlc.py       run TLC, parse its summary / coverage / printed values
  tlaval.py    parser for TLA+ values printed by TLC (dumps, PrintT, simulate files)
  traces.py    batch trace validation (code -> spec) through a *Trace.tla module
  repo.py      import the library under verification from $SP2T_REPO (default /repo)
  findings.py  verdict bookkeeping, KNOWN-FINDING / VIOLATION lines, replay files
  evidence.py  evidence/<id>.json writer (validated against the schema)
  props/cNN.py one driver per property:  run(ctx) -> None
"""
import os
from pathlib import Path

VERIF = Path(__file__).resolve().parent.parent
SPECS = VERIF / "specs"
SCRATCH_ROOT = VERIF / ".scratch"
CACHE = VERIF / ".cache"
REPO = Path(os.environ.get("SP2T_REPO", "/repo"))
PY = "/venv/bin/python"
