"""Evidence writer: /verif/evidence/<id>.json per /root/.vp/EVIDENCE.schema.json."""
from __future__ import annotations

import json
import time
from pathlib import Path

from . import VERIF


class Evidence:
    def __init__(self, prop: str, tier: str, seed: int, level: str = "model_checking"):
        self.prop, self.tier, self.seed, self.level = prop, tier, seed, level
        self.t0 = time.time()
        self.cov = {"states": 0, "transitions": 0, "traces_validated_against_impl": 0, "samples": [],
                    "evaluations": 0, "distinct_nontrivial": 0, "rule": "", "exhaustive": False,
                    "tlc_runs": [], "constants": {}}
        self.assumptions: list[str] = []
        self._nontrivial = set()

    # --- TLC side
    def tlc(self, name: str, r, note: str = ""):
        """Account one TLC run (summary numbers parsed from TLC's own output)."""
        self.cov["states"] += r.distinct
        self.cov["transitions"] += r.generated
        self.cov["tlc_runs"].append({"name": name, "distinct": r.distinct, "generated": r.generated,
                                     "depth": r.depth, "wall_s": round(r.wall_s, 2),
                                     "result": r.violated or "ok", "note": note,
                                     **({"coverage": {k: list(v) for k, v in r.coverage.items()}}
                                        if r.coverage else {})})

    def tlc_counts(self, name: str, distinct: int, generated: int, wall_s: float = 0.0, note: str = ""):
        self.cov["states"] += distinct
        self.cov["transitions"] += generated
        self.cov["tlc_runs"].append({"name": name, "distinct": distinct, "generated": generated,
                                     "wall_s": round(wall_s, 2), "note": note})

    # --- implementation side
    def replayed(self, n: int = 1):
        """n spec behaviours / cases pushed through the real code, or recorded traces validated."""
        self.cov["traces_validated_against_impl"] += n
        self.cov["evaluations"] += n

    def nontrivial(self, key):
        self._nontrivial.add(key if isinstance(key, (str, int, tuple)) else repr(key))

    def sample(self, s, cap: int = 8):
        if len(self.cov["samples"]) < cap:
            self.cov["samples"].append(s)

    def set(self, **kw):
        self.cov.update(kw)

    def assume(self, *a: str):
        self.assumptions.extend(a)

    def write(self, violations: int, known: int = 0):
        self.cov["distinct_nontrivial"] = len(self._nontrivial)
        if not self.cov["samples"]:
            self.cov["samples"].append("(no case reached the sampler)")
        doc = {"property_id": self.prop, "tier": self.tier, "seed": self.seed, "level": self.level,
               "coverage": self.cov, "assumptions": self.assumptions,
               "wall_s": round(time.time() - self.t0, 2), "violations": violations,
               "known_finding_hits": known}
        _check(doc)
        # evidence describes /repo itself: a run against another checkout (seeded change, pre-fix tree; SP2T_REPO)
        # writes its evidence next to its scratch data instead
        from . import REPO, SCRATCH_ROOT
        d = VERIF / "evidence" if str(REPO) == "/repo" else SCRATCH_ROOT / "evidence-other-tree"
        d.mkdir(parents=True, exist_ok=True)
        (d / f"{self.prop}.json").write_text(json.dumps(doc, indent=1, default=repr))


def _check(doc):
    for k in ("property_id", "tier", "seed", "level", "coverage", "wall_s"):
        assert k in doc, k
    c = doc["coverage"]
    if doc["level"] == "model_checking":
        assert c["states"] >= 1 and c["transitions"] >= 1, "model_checking evidence needs TLC states"
        assert isinstance(c["samples"], list) and c["samples"]
    assert isinstance(doc["seed"], int)
