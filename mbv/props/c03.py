"""C03 -- units mirror pages / slides / sheets / chapters.  Spec: Doc.tla (Units, PagedUnits, FlowUnits,
JoinFormats) validated through DocTrace.tla on the shared document suite (see c02.py / docsuite.py).
Each trace carries the projected iterate_units() observation: unit numbers, per-unit token
sequences, heading-path tokens, tokens in unit tables, and whether get_full_text() equals the trimmed
newline-join of the unit texts."""
from __future__ import annotations

import json
import random

from ..docsuite import FLOW_FORMATS, MULTI, build_jobs, heading_jobs, run_suite, validate_with_findings

FINDING_DEV = {
    "KF-C03-01": "Rtf!EmptyPageDropped",
    "KF-C03-11": "Ppt!EmptySlideDropped",
    "KF-C03-12": "Ppt!RawFallback",
    "KF-C03-03": "Docx!UnitsRepeatTextbox",
    "KF-C03-04": "Odt!UnitsIncludeHidden",
    "KF-C03-05": "Odt!UnitsRepeatNested",
    "KF-C03-06": "Xlsx!UnnamedHeaderPlaceholder",
    "KF-C03-07": "Rtf!DeletedLeaks",
    "KF-C03-08": "Docx!PreambleLost",
    "KF-C03-09": "Odt!EmptyHeadingDropped",
    "KF-C03-10": "Docx!UnitsBlockSdtLost",
}


def _events(j, o):
    us = [{"n": u["n"], "obs": u["obs"], "sep": u["sep"], "residue": u["residue"], "heads": u["heads"], "tbl": u["tbl"]}
          for u in o["units"]]
    return [{"a": "Units", "units": us, "full": o["text"]["obs"], "joinok": o["joinok"]}]


def run(ctx):
    ev = ctx.ev
    rng = random.Random(ctx.seed)
    jobs, ndocs = build_jobs(ctx, rng, two_block_sample=900)
    hjobs, nh = heading_jobs(ctx, rng)
    jobs += hjobs
    ndocs += nh
    # a deck with pictures that carry alternative text (the join law also holds with include_image_captions=True)
    from ..docrun import rich_doc
    for s_ in (0, 1, 2):
        jobs.append({"doc": rich_doc("pptx", ctx.seed + s_), "fmt": "pptx"})
    ndocs += 3
    ctx.log(f"{ndocs} documents, {len(jobs)} (document, format) extractions")
    traces = run_suite(ctx, jobs, _events, "units")
    for t in traces:
        if len(t["hdr"]["doc"]["units"]) > 1 or any(u["obs"] for u in t["ev"][0]["units"]):
            ev.nontrivial((t["hdr"]["fmt"], json.dumps(t["hdr"]["doc"]["units"])))
    multi = [t for t in traces if len(t["hdr"]["doc"]["units"]) > 1]
    for t in (multi or traces)[:: max(1, len(multi or traces) // 6)]:
        ev.sample({"fmt": t["hdr"]["fmt"], "source_units": [u["blocks"] for u in t["hdr"]["doc"]["units"]],
                   "observed_units": [{"n": u["n"], "tokens": u["obs"]} for u in t["ev"][0]["units"]],
                   "join_law": t["ev"][0]["joinok"]})

    def describe(t, e):
        return (f"iterate_units() of a generated {t['hdr']['fmt']} document does not mirror the source units: "
                f"observed {[(u['n'], u['obs'], u['heads'], u['tbl']) for u in e.get('units', [])]} joinok={e.get('joinok')}; "
                f"source units {json.dumps([u['blocks'] for u in t['hdr']['doc']['units']])[:300]}")

    validate_with_findings(ctx, "DocTrace", traces, FINDING_DEV, describe,
                           lambda t: f"data_types.py iterate_units / get_full_text of the {t['hdr']['fmt']} result type")
    ev.replayed(len(traces))
    ev.set(rule="same TLC-enumerated document suite as C02 (flow documents incl. headings; decks / workbooks / paged "
                "documents of 1..3 units incl. empty units) x formats; non-trivial = multi-unit or non-empty unit text",
           exhaustive=bool(ctx.thorough), constants={"flow_formats": FLOW_FORMATS, "multi_unit_formats": MULTI,
                                                     "documents": ndocs})
    ev.assume("writers are the trusted base", "heading text may live in the heading path, cell text in the unit's tables",
              "mbox / eml units are covered by C16; ppt / xls / doc / msg have no writer")
