"""C03 -- units mirror pages / slides / sheets / chapters.  Spec: Doc.tla (Units, PagedUnits, FlowUnits,
JoinFormats) validated through DocTrace.tla on the shared document suite (see c02.py / docsuite.py).
Each trace carries the projected iterate_units() observation: unit numbers, per-unit token
sequences, heading-path tokens, tokens in unit tables, and whether get_full_text() equals the trimmed
newline-join of the unit texts."""
from __future__ import annotations

import json
import random

from ..docsuite import FLOW_FORMATS, MULTI, build_jobs, heading_jobs, run_suite, validate_with_findings

FINDING_DEV = {
    "KF-C03-01": "Rtf!EmptyPageDropped",
    "KF-C03-11": "Ppt!EmptySlideDropped",
    "KF-C03-12": "Ppt!RawFallback",
    "KF-C03-03": "Docx!UnitsRepeatTextbox",
    "KF-C03-04": "Odt!UnitsIncludeHidden",
    "KF-C03-05": "Odt!UnitsRepeatNested",
    "KF-C03-06": "Xlsx!UnnamedHeaderPlaceholder",
    "KF-C03-07": "Rtf!DeletedLeaks",
    "KF-C03-08": "Docx!PreambleLost",
    "KF-C03-09": "Odt!EmptyHeadingDropped",
    "KF-C03-10": "Docx!UnitsBlockSdtLost",
    "KF-C03-13": "Odp!TextBoxesAfterBody",
    "KF-C03-14": "Ppt!TextBoxesAfterBody",
}


def _events(j, o):
    us = [{"n": u["n"], "obs": u["obs"], "sep": u["sep"], "residue": u["residue"], "heads": u["heads"], "tbl": u["tbl"]}
          for u in o["units"]]
    return [{"a": "Units", "units": us, "full": o["text"]["obs"], "joinok": o["joinok"]}]


# ----------------------------------------------------------------------------- heading sections: algorithm model
def _sections_job(cases):
    """cases: [(flavour, base, paras)] -> observed units of OdtContent / DocxContent objects built from the paragraph list."""
    from ..repo import activate
    activate()
    import warnings
    warnings.simplefilter("ignore")
    from sharepoint2text.parsing.extractors import data_types as dt
    from ..docmodel import TOKEN_RE, word

    def ident(s_):
        m = TOKEN_RE.fullmatch(s_.strip())
        return int(m.group(1) or m.group(2) or m.group(3)) if m else 999
    out = []
    for flavour, base, paras in cases:
        texts = [(word(p[2]) if p[2] else "") if p[0] == "h" else (word(p[1]) if p[1] else "") for p in paras]
        body = "\n".join(t for p, t in zip(paras, texts) if p[0] == "p" and t)
        title = word(base[0]) if base else ""
        try:
            if flavour == "odt":
                obj = dt.OdtContent(metadata=dt.OpenDocumentMetadata(title=title), full_text=body,
                                    paragraphs=[dt.OdtParagraph(text=t, outline_level=p[1] if p[0] == "h" else None)
                                                for p, t in zip(paras, texts)])
            else:
                obj = dt.DocxContent(metadata=dt.DocxMetadata(title=title), full_text=body,
                                     paragraphs=[dt.DocxParagraph(text=t, style=f"Heading {p[1]}" if p[0] == "h" else "Normal")
                                                 for p, t in zip(paras, texts)])
            units = []
            for u in obj.iterate_units():
                txt = u.get_text()
                units.append({"n": u.unit_number, "level": u.heading_level or 0, "path": [ident(x) for x in u.heading_path],
                              "lines": [ident(x) for x in txt.split("\n") if x.strip()]})
            out.append({"units": units})
        except Exception as e:
            out.append({"exc": f"{type(e).__name__}: {e}"[:200]})
    return out


def sections_model(ctx):
    """Sections.tla: theorems on all paragraph lists up to MaxLen, sensitivity runs, and the binding of
    OdtContent.iterate_units / DocxContent.iterate_units to the machine's function."""
    from concurrent.futures import ProcessPoolExecutor
    from ..docrun import from_tla
    from ..tlaval import iter_dump, to_tla
    from ..tlc import MachineryError, run_tlc
    n = 5 if ctx.thorough else 4
    invs = "".join(f"INVARIANT {i}\n" for i in ("Inv_StepAgreesWithFunction", "Inv_EveryParagraphOnce", "Inv_PathIsOpenChain",
                                                  "Inv_Numbered", "Inv_HeadingTextKept"))
    cfg = f"SPECIFICATION Spec\nCONSTANTS WalkDev = {{}}\n MaxLen = {n}\n{invs}PROPERTY Prop_Terminates\n"
    from ..tlc import run_tlc_many
    sdevs = ("Docx!PreambleLost", "Odt!EmptyHeadingDropped")
    dump = ctx.scratch / "secgen.dump"
    res = run_tlc_many(
        [("Sections", cfg, dict(scratch=ctx.scratch, expect_fail=True, heap="10g", workers=8, timeout=3000))]
        + [("Sections", cfg.replace("WalkDev = {}", f'WalkDev = {{"{dv}"}}').replace(f"MaxLen = {n}", "MaxLen = 3"),
            dict(scratch=ctx.scratch, expect_fail=True, heap="4g", workers=4)) for dv in sdevs]
        + [("Sections", "SPECIFICATION GenSpec\nCONSTANTS WalkDev = {}\n MaxLen = 4\n", dict(scratch=ctx.scratch, dump=dump, heap="6g", workers=4))])
    r, rg = res[0], res[-1]
    ctx.ev.tlc(f"Sections MaxLen={n}: every paragraph in exactly one unit, path = chain of open headings, heading text kept", r)
    if r.violated:
        ctx.v.violation(what=f"Sections.tla: the strict section model violates {r.violated}", observed=r.output[-1500:])
    for dv, rs in zip(sdevs, res[1:-1]):
        ctx.ev.tlc(f"Sections sensitivity: as-built step {dv} must violate a theorem", rs, note="expected violation")
        if not rs.violated:
            raise MachineryError(f"Sections sensitivity run for {dv} did not fail")
    ctx.ev.tlc("Sections GenSpec MaxLen=4: paragraph lists x flavour x title", rg)
    cases = sorted(((str(st["flavour"]), from_tla(st["base"]), from_tla(st["paras"])) for st in iter_dump(dump)),
                   key=lambda c: json.dumps(c))
    if len(cases) != rg.distinct:
        raise MachineryError(f"Sections dump {len(cases)} != {rg.distinct}")
    if not ctx.thorough:
        rng = random.Random(ctx.seed)
        small = [c for c in cases if len(c[2]) <= 3]
        rest = [c for c in cases if len(c[2]) > 3]
        rng.shuffle(rest)
        cases = small + rest[:12000]
    chunks = [cases[k:k + 1000] for k in range(0, len(cases), 1000)]
    with ProcessPoolExecutor(16) as ex:
        obs = list(ex.map(_sections_job, chunks))
    traces = []
    for ch, o in zip(chunks, obs):
        for (flavour, base, paras), ob in zip(ch, o):
            if "exc" in ob:
                ctx.v.violation(what=f"{flavour} iterate_units() raised on a paragraph list {paras}: {ob['exc']}",
                                case={"flavour": flavour, "paras": paras}, where="data_types.py iterate_units")
                continue
            traces.append({"id": f"sections:{len(traces)}", "hdr": {"fmt": flavour, "doc": {"paras": paras, "base": base}},
                           "raw": json.dumps(ob["units"])[:300],
                           "ev": [{"a": "Sections", "flavour": flavour, "base": base, "paras": paras, "units": ob["units"]}]})

    def cfgfn(dev):
        return f"SPECIFICATION TraceSpec\nCONSTANTS WalkDev = {to_tla(set(dev))}\nCONSTRAINT TraceAccept\n"
    validate_with_findings(ctx, "SectionsTrace", traces, {"KF-C03-08": "Docx!PreambleLost", "KF-C03-09": "Odt!EmptyHeadingDropped"},
                           lambda t, e: f"{e['flavour']} iterate_units() differs from the section model Sections.tla: paragraphs "
                                        f"{json.dumps(e['paras'])[:200]} title {e['base']} -> units {json.dumps(e['units'])[:300]}",
                           lambda t: "data_types.py: OdtContent.iterate_units / DocxContent.iterate_units", cfg=cfgfn)
    ctx.ev.replayed(len(traces))
    for t in traces[:: max(1, len(traces) // 300)]:
        ctx.ev.nontrivial(("sections", t["raw"]))


# ----------------------------------------------------------------------------- PPT slide list: record-level model
def _ppt_slides_job(cases):
    import struct
    from ..repo import activate
    activate()
    import warnings
    warnings.simplefilter("ignore")
    from sharepoint2text.parsing.extractors.ms_legacy import ppt_extractor as mod
    from sharepoint2text.parsing.extractors import data_types as dt
    from ..docmodel import TOKEN_RE, word
    parse, build = getattr(mod, "_parse_slide_list_container", None), getattr(mod, "_build_slides_from_text_blocks", None)
    if parse is None or build is None:
        return {"skip": "ppt_extractor._parse_slide_list_container / _build_slides_from_text_blocks not found"}

    def rec(ver, inst, rtype, data):
        return struct.pack("<HHI", (inst << 4) | ver, rtype, len(data)) + data

    def ids(texts):
        out = []
        for t in texts:
            m = TOKEN_RE.fullmatch(t.strip())
            out.append(int(m.group(1) or m.group(2) or m.group(3)) if m else 999)
        return out
    res = []
    for recs in cases:
        data = b""
        for n, r in enumerate(recs):
            if r[0] == "P":
                data += rec(0, 0, 0x03F3, struct.pack("<IIiII", n + 1, 0, 1, 256 + n, 0))
            else:
                text = word(r[2]) if r[2] else "\x01\x02"       # control characters only: empty after cleaning
                data += rec(0, 0, 0x0F9F, struct.pack("<I", r[1]))
                data += (rec(0, 0, 0x0FA8, text.encode("latin-1")) if n % 2 else rec(0, 0, 0x0FA0, text.encode("utf-16-le")))
        try:
            content = dt.PptContent()
            build(content, parse(data))
            res.append({"slides": [{"title": ids([sl.title] if sl.title else []), "body": ids(sl.body_text), "other": ids(sl.other_text),
                                    "notes": ids(sl.notes)} for sl in content.slides]})
        except Exception as e:
            res.append({"exc": f"{type(e).__name__}: {e}"[:200]})
    return {"obs": res}


def ppt_slides_model(ctx):
    """PptSlides.tla: theorems on all record sequences, sensitivity run for the as-built empty-slide rule, binding of the
    real container pass + slide builder to the machine's function."""
    from concurrent.futures import ProcessPoolExecutor
    from ..docrun import from_tla
    from ..tlaval import iter_dump, to_tla
    from ..tlc import MachineryError, run_tlc_many
    n = 7 if ctx.thorough else 6
    invs = "".join(f"INVARIANT {i}\n" for i in ("Inv_StepAgreesWithFunction", "Inv_OneSlidePerPersistAtom", "Inv_TextsOnTheirSlide",
                                                  "Inv_TitleIsFirstTitle"))
    cfg = f"SPECIFICATION Spec\nCONSTANTS WalkDev = {{}}\n MaxRecs = {n}\n{invs}PROPERTY Prop_Terminates\n"
    dump = ctx.scratch / "pptslides.dump"
    r, rs, rg = run_tlc_many([
        ("PptSlides", cfg, dict(scratch=ctx.scratch, expect_fail=True, heap="6g", workers=6)),
        ("PptSlides", cfg.replace("WalkDev = {}", 'WalkDev = {"Ppt!EmptySlideDropped"}').replace(f"MaxRecs = {n}", "MaxRecs = 5"),
         dict(scratch=ctx.scratch, expect_fail=True, workers=4)),
        ("PptSlides", f"SPECIFICATION GenSpec\nCONSTANTS WalkDev = {{}}\n MaxRecs = {n}\n", dict(scratch=ctx.scratch, dump=dump, workers=4))])
    ctx.ev.tlc(f"PptSlides MaxRecs={n}: one slide per persist atom, texts on their slide, first title is the title", r)
    if r.violated:
        ctx.v.violation(what=f"PptSlides.tla: the strict model violates {r.violated}", observed=r.output[-1500:])
    ctx.ev.tlc("PptSlides sensitivity: the as-built empty-slide rule must violate OneSlidePerPersistAtom", rs, note="expected violation")
    if not rs.violated:
        raise MachineryError("PptSlides sensitivity run did not fail")
    ctx.ev.tlc("PptSlides GenSpec: record sequences", rg)
    cases = sorted((from_tla(st["recs"]) for st in iter_dump(dump)), key=lambda c: json.dumps(c))
    if len(cases) != rg.distinct:
        raise MachineryError(f"PptSlides dump {len(cases)} != {rg.distinct}")
    chunks = [cases[k:k + 1500] for k in range(0, len(cases), 1500)]
    with ProcessPoolExecutor(8) as ex:
        obs = list(ex.map(_ppt_slides_job, chunks))
    traces = []
    for ch, o in zip(chunks, obs):
        if "skip" in o:
            ctx.log("ppt-slides binding skipped: " + o["skip"])
            return
        for recs, x in zip(ch, o["obs"]):
            if "exc" in x:
                ctx.v.violation(what=f"ppt slide list parse raised on {recs}: {x['exc']}", case={"recs": recs})
                continue
            traces.append({"id": f"pptslides:{len(traces)}", "hdr": {"fmt": "ppt", "doc": {"recs": recs}}, "raw": json.dumps(x["slides"])[:300],
                           "ev": [{"a": "Slides", "recs": recs, "slides": x["slides"]}]})

    def cfgfn(dev):
        return f"SPECIFICATION TraceSpec\nCONSTANTS WalkDev = {to_tla(set(dev))}\nCONSTRAINT TraceAccept\n"
    validate_with_findings(ctx, "PptSlidesTrace", traces, {"KF-C03-11": "Ppt!EmptySlideDropped"},
                           lambda t, e: f"ppt slide list differs from PptSlides.tla: records {json.dumps(e['recs'])[:200]} -> slides {t['raw']}",
                           lambda t: "ppt_extractor.py:_parse_slide_list_container / _build_slides_from_text_blocks", cfg=cfgfn)
    ctx.ev.replayed(len(traces))
    for t in traces[:: max(1, len(traces) // 200)]:
        ctx.ev.nontrivial(("pptslides", t["raw"]))


def _odp_slide_job(cases):
    """Build a draw:page element from the model's frames and hand it to the real _extract_slide."""
    from xml.etree import ElementTree as ET
    from ..repo import activate
    activate()
    import warnings
    warnings.simplefilter("ignore")
    from sharepoint2text.parsing.extractors.open_office import odp_extractor as mod
    from ..docmodel import TOKEN_RE, word
    fn = getattr(mod, "_extract_slide", None)
    if fn is None:
        return {"skip": "odp_extractor._extract_slide not found"}
    NS = mod.NS

    def q(pfx, tag):
        return f"{{{NS[pfx]}}}{tag}"
    # rank -> spelling; equal ranks are spelt alike (exact ties), different ranks in different units:
    # y: absent (0 px) < 2cm (75.6 px) < 1in (96 px);  x: 5mm (18.9 px) < 1cm (37.8 px)
    YS, XS = {0: None, 1: "2cm", 2: "1in"}, {0: "5mm", 1: "1cm"}
    STYLES = {"T": ("TitleText", "MyTitleStyle"), "B": ("BodyText", "OutlineBody2"), "O": ("P1", None)}

    class Ctx:                      # the package: every picture exists
        def exists(self, name):
            return True

        def read_bytes(self, name):
            return b"\x89PNG\r\n\x1a\n" + name.encode()

    def ids(texts):
        out = []
        for t in texts:
            m = TOKEN_RE.fullmatch((t or "").strip())
            out.append(int(m.group(1) or m.group(2) or m.group(3)) if m else 999)
        return out
    res = []
    for case in cases:
        frames, n0 = case["frames"], case["n0"]
        page = ET.Element(q("draw", "page"), {q("draw", "name"): "page1"})
        for k, f in enumerate(frames):
            parent = page
            for d in range(f["g"]):
                parent = ET.SubElement(parent, q("draw", "g"))
            at = {q("svg", "x"): XS[f["x"]]}
            if YS[f["y"]] is not None:
                at[q("svg", "y")] = YS[f["y"]]
            fr = ET.SubElement(parent, q("draw", "frame"), at)
            if f["kind"] == "txt":
                tb = ET.SubElement(fr, q("draw", "text-box"))
                for m, (cls, pid) in enumerate(f["paras"]):
                    st = STYLES[cls][(k + m) % 2]
                    pe = ET.SubElement(tb, q("text", "p"), {q("text", "style-name"): st} if st else {})
                    pe.text = word(pid) if pid else ("  " if (k + m) % 2 else None)
            elif f["kind"] == "tbl":
                tbl = ET.SubElement(fr, q("table", "table"))
                cell = ET.SubElement(ET.SubElement(tbl, q("table", "table-row")), q("table", "table-cell"))
                ET.SubElement(cell, q("text", "p")).text = word(f["id"])
            else:
                ET.SubElement(fr, q("draw", "image"), {q("xlink", "href"): f"Pictures/{f['id']}.png"})
        try:
            slide, counter = fn(Ctx(), page, 1, n0)
            obs = {"title": ids([slide.title])[0] if slide.title else 0, "body": ids(slide.body_text), "other": ids(slide.other_text),
                   "tables": [ids([c for row in t for c in row])[0] if t and t[0] else 999 for t in slide.tables],
                   "images": [[im.image_index, int(im.href.split("/")[-1].split(".")[0])] for im in slide.images],
                   "combined": ids(slide.text_combined.split("\n")) if slide.text_combined else []}
            if counter != n0 + len(slide.images):
                obs["images"].append([counter, -1])
            res.append({"slide": obs})
        except Exception as e:
            res.append({"exc": f"{type(e).__name__}: {e}"[:200]})
    return {"obs": res}


def odp_slide_model(ctx):
    """OdpSlide.tla: theorems on all pages of the bounded universe, four sensitivity runs, binding of the real
    _extract_slide (+ OdpSlide.text_combined) to the machine's function."""
    from concurrent.futures import ProcessPoolExecutor
    from ..docrun import from_tla
    from ..tlaval import iter_dump, to_tla
    from ..tlc import MachineryError, run_tlc_many
    invs = "".join(f"INVARIANT {i}\n" for i in ("Inv_StepAgreesWithFunction", "Inv_EveryParagraphOnce", "Inv_ClassOrder",
                                                  "Inv_ReadingOrder", "Inv_TablesInOrder", "Inv_ImagesNumbered"))
    consts = "MaxFrames = 3\n MaxY = 1\n MaxG = 1\n" if ctx.thorough else "MaxFrames = 2\n MaxY = 2\n MaxG = 1\n"
    small = "MaxFrames = 2\n MaxY = 2\n MaxG = 1\n"
    cfg = f"SPECIFICATION Spec\nCONSTANTS WalkDev = {{}}\n {consts}{invs}PROPERTY Prop_Terminates\n"
    devs = ["Odp!TextBoxesAfterBody", "Odp!GroupedFrameSkipped", "Odp!XmlOrder", "Odp!NumbersCompared"]
    dump = ctx.scratch / "odpslide.dump"
    gen = "MaxFrames = 2\n MaxY = 2\n MaxG = 2\n"
    runs = run_tlc_many(
        [("OdpSlide", cfg, dict(scratch=ctx.scratch, expect_fail=True, heap="6g", workers=6))]
        + [("OdpSlide", f"SPECIFICATION Spec\nCONSTANTS WalkDev = {{\"{d}\"}}\n {small}{invs}", dict(scratch=ctx.scratch, expect_fail=True, workers=3))
           for d in devs]
        + [("OdpSlide", f"SPECIFICATION GenSpec\nCONSTANTS WalkDev = {{}}\n {gen}", dict(scratch=ctx.scratch, dump=dump, workers=4))])
    r, rg = runs[0], runs[-1]
    ctx.ev.tlc("OdpSlide: every paragraph once, classes and slide text in reading order, tables / pictures in reading order", r)
    if r.violated:
        ctx.v.violation(what=f"OdpSlide.tla: the strict model violates {r.violated}", observed=r.output[-1500:])
    for d, rs in zip(devs, runs[1:-1]):
        ctx.ev.tlc(f"OdpSlide sensitivity: {d} must violate a theorem", rs, note="expected violation")
        if not rs.violated:
            raise MachineryError(f"OdpSlide sensitivity run {d} did not fail")
    ctx.ev.tlc("OdpSlide GenSpec: pages", rg)
    cases = sorted(({"frames": from_tla(st["frames"]), "n0": from_tla(st["n0"])} for st in iter_dump(dump)), key=lambda c: json.dumps(c))
    if len(cases) != rg.distinct:
        raise MachineryError(f"OdpSlide dump {len(cases)} != {rg.distinct}")
    limit = 40000 if ctx.thorough else 9000
    if len(cases) > limit:          # all pages of <= 1 frame, a seeded sample of the two-frame pages
        rng = random.Random(ctx.seed)
        small_cases = [c for c in cases if len(c["frames"]) <= 1]
        cases = small_cases + rng.sample([c for c in cases if len(c["frames"]) > 1], limit - len(small_cases))
    chunks = [cases[k:k + 1500] for k in range(0, len(cases), 1500)]
    with ProcessPoolExecutor(8) as ex:
        obs = list(ex.map(_odp_slide_job, chunks))
    traces = []
    for ch, o in zip(chunks, obs):
        if "skip" in o:
            ctx.log("odp-slide binding skipped: " + o["skip"])
            return
        for case, x in zip(ch, o["obs"]):
            if "exc" in x:
                ctx.v.violation(what=f"_extract_slide raised on {json.dumps(case)[:300]}: {x['exc']}", case=case)
                continue
            traces.append({"id": f"odpslide:{len(traces)}", "hdr": {"fmt": "odp", "doc": case}, "raw": json.dumps(x["slide"])[:300],
                           "ev": [{"a": "Slide", "frames": case["frames"], "n0": case["n0"], "slide": x["slide"]}]})

    def cfgfn(dev):
        return f"SPECIFICATION TraceSpec\nCONSTANTS WalkDev = {to_tla(set(dev))}\nCONSTRAINT TraceAccept\n"
    validate_with_findings(ctx, "OdpSlideTrace", traces, {"KF-C03-13": "Odp!TextBoxesAfterBody"},
                           lambda t, e: f"odp slide differs from OdpSlide.tla: frames {json.dumps(e['frames'])[:300]} -> {t['raw']}",
                           lambda t: "odp_extractor.py:_extract_slide / data_types.py:OdpSlide.text_combined", cfg=cfgfn)
    ctx.ev.replayed(len(traces))
    for t in traces[:: max(1, len(traces) // 200)]:
        ctx.ev.nontrivial(("odpslide", t["raw"]))


def _pptx_slide_job(cases):
    """Build a p:sld element from the model's shapes and hand it to the real _process_slide_from_context."""
    import struct
    import zlib
    from xml.etree import ElementTree as ET
    from ..repo import activate
    activate()
    import warnings
    warnings.simplefilter("ignore")
    from sharepoint2text.parsing.extractors.ms_modern import pptx_extractor as mod
    from ..docmodel import TOKEN_RE, word
    fn = getattr(mod, "_process_slide_from_context", None)
    if fn is None:
        return {"skip": "pptx_extractor._process_slide_from_context not found"}
    P, A, R = mod.P_NS, mod.A_NS, mod.R_NS

    def png(n):
        def chunk(t, d):
            return struct.pack(">I", len(d)) + t + d + struct.pack(">I", zlib.crc32(t + d))
        return (b"\x89PNG\r\n\x1a\n" + chunk(b"IHDR", struct.pack(">IIBBBBB", 1, 1, 8, 0, 0, 0, 0))
                + chunk(b"IDAT", zlib.compress(b"\x00" + bytes([n % 256]))) + chunk(b"IEND", b""))

    class Ctx:
        def __init__(self, root, rels, blobs):
            self.root, self.rels, self.blobs = root, rels, blobs

        def get_slide_relationships(self, path):
            return self.rels

        def get_slide_root(self, path):
            return self.root

        def get_comment_root(self, n):
            return None

        def get_image_data(self, path):
            return self.blobs.get(path)

    def ids(texts):
        out = []
        for t in texts:
            m = TOKEN_RE.fullmatch((t or "").strip())
            if m:
                out.append(int(m.group(1) or m.group(2) or m.group(3)))
                continue
            m = TOKEN_RE.fullmatch((t or "").strip()[len("[Image: "):-1]) if (t or "").startswith("[Image: ") else None
            out.append(int(m.group(1) or m.group(2) or m.group(3)) if m else 999)
        return out

    def xfrm(parent, tag, s):
        if s["has"]:
            x = ET.SubElement(parent, tag)
            ET.SubElement(x, A + "off", {"x": str(s["x"]), "y": str(s["y"])})
            ET.SubElement(x, A + "ext", {"cx": "100", "cy": "100"})
    res = []
    for case in cases:
        shapes, n0 = case["shapes"], case["n0"]
        root = ET.Element(P + "sld")
        tree = ET.SubElement(ET.SubElement(root, P + "cSld"), P + "spTree")
        rels, blobs = {}, {}
        for k, s in enumerate(shapes, start=1):
            parent = tree
            for d in range(s["g"]):
                parent = ET.SubElement(parent, P + "grpSp")
                ET.SubElement(parent, P + "nvGrpSpPr")
                ET.SubElement(parent, P + "grpSpPr")
            if s["kind"] == "sp":
                sp = ET.SubElement(parent, P + "sp")
                nv = ET.SubElement(sp, P + "nvSpPr")
                ET.SubElement(nv, P + "cNvPr", {"id": str(k + 1), "name": f"Shape {k}"})
                ET.SubElement(nv, P + "cNvSpPr")
                nvpr = ET.SubElement(nv, P + "nvPr")
                if s["ph"] != "none":
                    at = {}
                    if s["ph"] not in ("idx",):
                        at["type"] = s["ph"]
                    if s["idx"]:
                        at["idx"] = str(s["idx"])
                    ET.SubElement(nvpr, P + "ph", at)
                xfrm(ET.SubElement(sp, P + "spPr"), A + "xfrm", s)
                tb = ET.SubElement(sp, P + "txBody")
                ET.SubElement(tb, A + "bodyPr")
                pe = ET.SubElement(tb, A + "p")
                if s["id"]:
                    ET.SubElement(ET.SubElement(pe, A + "r"), A + "t").text = word(s["id"])
                elif k % 2:
                    ET.SubElement(ET.SubElement(pe, A + "r"), A + "t").text = "  "
            elif s["kind"] == "gf":
                gf = ET.SubElement(parent, P + "graphicFrame")
                nv = ET.SubElement(gf, P + "nvGraphicFramePr")
                ET.SubElement(nv, P + "cNvPr", {"id": str(k + 1), "name": f"Frame {k}"})
                xfrm(gf, P + "xfrm", s)
                gd = ET.SubElement(ET.SubElement(gf, A + "graphic"), A + "graphicData",
                                   {"uri": mod.TABLE_URI if s["id"] else "http://schemas.openxmlformats.org/drawingml/2006/chart"})
                if s["id"]:
                    tc = ET.SubElement(ET.SubElement(ET.SubElement(gd, A + "tbl"), A + "tr"), A + "tc")
                    ET.SubElement(ET.SubElement(ET.SubElement(ET.SubElement(tc, A + "txBody"), A + "p"), A + "r"), A + "t").text = word(s["id"])
            else:
                pic = ET.SubElement(parent, P + "pic")
                nv = ET.SubElement(pic, P + "nvPicPr")
                at = {"id": str(k + 1), "name": f"Picture {k}"}
                if s["alt"]:
                    at["descr"] = word(s["alt"])
                ET.SubElement(nv, P + "cNvPr", at)
                bf = ET.SubElement(pic, P + "blipFill")
                if s["id"]:
                    ET.SubElement(bf, A + "blip", {R + "embed": f"rId{k}"})
                    rels[f"rId{k}"] = {"type": "http://schemas.openxmlformats.org/officeDocument/2006/relationships/image",
                                       "target": f"../media/image{s['id']}.png"}
                    blobs[f"ppt/media/image{s['id']}.png"] = png(s["id"])
                else:
                    ET.SubElement(bf, A + "blip")
                xfrm(ET.SubElement(pic, P + "spPr"), A + "xfrm", s)
        try:
            sl = fn(Ctx(root, rels, blobs), "ppt/slides/slide1.xml", 1, n0)
            by_len = {len(b): int(p_.rsplit("image", 1)[1].split(".")[0]) for p_, b in blobs.items()}
            by_blob = {b: int(p_.rsplit("image", 1)[1].split(".")[0]) for p_, b in blobs.items()}
            obs = {"title": ids([sl.title])[0] if sl.title else 0, "footer": ids([sl.footer])[0] if sl.footer else 0,
                   "content": ids(sl.content_placeholders), "other": ids(sl.other_textboxes),
                   "tables": [ids([c for row in t for c in row])[0] if t and t[0] else 999 for t in sl.tables],
                   "images": [[im.image_index, by_blob.get(im.blob, 999)] for im in sl.images],
                   "text": ids(sl.text.split("\n")) if sl.text else [], "base": ids(sl.base_text.split("\n")) if sl.base_text else []}
            res.append({"slide": obs})
        except Exception as e:
            res.append({"exc": f"{type(e).__name__}: {e}"[:200]})
    return {"obs": res}


def pptx_slide_model(ctx):
    """PptxSlide.tla: theorems on all shape trees of the bounded universe, two sensitivity runs, binding of the real
    _process_slide_from_context (+ _get_shape_position) to the machine's function."""
    from concurrent.futures import ProcessPoolExecutor
    from ..docrun import from_tla
    from ..tlaval import iter_dump, to_tla
    from ..tlc import MachineryError, run_tlc_many
    invs = "".join(f"INVARIANT {i}\n" for i in ("Inv_StepAgreesWithFunction", "Inv_EveryContentOnce", "Inv_ReadingOrder", "Inv_Lists",
                                                  "Inv_TablesInOrder", "Inv_ImagesNumbered"))
    consts = "MaxShapes = 2\n MaxG = 1\n"
    cfg = f"SPECIFICATION Spec\nCONSTANTS WalkDev = {{}}\n {consts}{invs}PROPERTY Prop_Terminates\n"
    devs = ["Pptx!XmlOrder", "Pptx!GroupSkipped"]
    dump = ctx.scratch / "pptxslide.dump"
    runs = run_tlc_many(
        [("PptxSlide", cfg, dict(scratch=ctx.scratch, expect_fail=True, heap="6g", workers=6))]
        + [("PptxSlide", f"SPECIFICATION Spec\nCONSTANTS WalkDev = {{\"{d}\"}}\n MaxShapes = 2\n MaxG = 1\n{invs}",
            dict(scratch=ctx.scratch, expect_fail=True, workers=3)) for d in devs]
        + [("PptxSlide", f"SPECIFICATION GenSpec\nCONSTANTS WalkDev = {{}}\n {consts}", dict(scratch=ctx.scratch, dump=dump, workers=4))])
    r, rg = runs[0], runs[-1]
    ctx.ev.tlc("PptxSlide: every text / table once, slide text in reading order, role lists, tables / pictures in reading order", r)
    if r.violated:
        ctx.v.violation(what=f"PptxSlide.tla: the strict model violates {r.violated}", observed=r.output[-1500:])
    for d, rs in zip(devs, runs[1:-1]):
        ctx.ev.tlc(f"PptxSlide sensitivity: {d} must violate a theorem", rs, note="expected violation")
        if not rs.violated:
            raise MachineryError(f"PptxSlide sensitivity run {d} did not fail")
    ctx.ev.tlc("PptxSlide GenSpec: shape trees", rg)
    cases = sorted(({"shapes": from_tla(st["shapes"]), "n0": from_tla(st["n0"])} for st in iter_dump(dump)), key=lambda c: json.dumps(c))
    if len(cases) != rg.distinct:
        raise MachineryError(f"PptxSlide dump {len(cases)} != {rg.distinct}")
    limit = 40000 if ctx.thorough else 9000
    if len(cases) > limit:
        rng = random.Random(ctx.seed)
        small_cases = [c for c in cases if len(c["shapes"]) <= 1]
        cases = small_cases + rng.sample([c for c in cases if len(c["shapes"]) > 1], limit - len(small_cases))
    chunks = [cases[k:k + 1500] for k in range(0, len(cases), 1500)]
    with ProcessPoolExecutor(8) as ex:
        obs = list(ex.map(_pptx_slide_job, chunks))
    traces = []
    for ch, o in zip(chunks, obs):
        if "skip" in o:
            ctx.log("pptx-slide binding skipped: " + o["skip"])
            return
        for case, x in zip(ch, o["obs"]):
            if "exc" in x:
                ctx.v.violation(what=f"_process_slide_from_context raised on {json.dumps(case)[:300]}: {x['exc']}", case=case)
                continue
            traces.append({"id": f"pptxslide:{len(traces)}", "hdr": {"fmt": "pptx", "doc": case}, "raw": json.dumps(x["slide"])[:300],
                           "ev": [{"a": "Slide", "shapes": case["shapes"], "n0": case["n0"], "slide": x["slide"]}]})

    def cfgfn(dev):
        return f"SPECIFICATION TraceSpec\nCONSTANTS WalkDev = {to_tla(set(dev))}\nCONSTRAINT TraceAccept\n"
    validate_with_findings(ctx, "PptxSlideTrace", traces, {},
                           lambda t, e: f"pptx slide differs from PptxSlide.tla: shapes {json.dumps(e['shapes'])[:400]} -> {t['raw']}",
                           lambda t: "pptx_extractor.py:_process_slide_from_context / _get_shape_position", cfg=cfgfn)
    ctx.ev.replayed(len(traces))
    for t in traces[:: max(1, len(traces) // 200)]:
        ctx.ev.nontrivial(("pptxslide", t["raw"]))


def run(ctx):
    ev = ctx.ev
    rng = random.Random(ctx.seed)
    jobs, ndocs = build_jobs(ctx, rng, two_block_sample=900)
    hjobs, nh = heading_jobs(ctx, rng)
    jobs += hjobs
    ndocs += nh
    # a deck with pictures that carry alternative text (the join law also holds with include_image_captions=True)
    from ..docrun import rich_doc
    for s_ in (0, 1, 2):
        jobs.append({"doc": rich_doc("pptx", ctx.seed + s_), "fmt": "pptx"})
    ndocs += 3
    ctx.log(f"{ndocs} documents, {len(jobs)} (document, format) extractions")
    traces = run_suite(ctx, jobs, _events, "units")
    for t in traces:
        if len(t["hdr"]["doc"]["units"]) > 1 or any(u["obs"] for u in t["ev"][0]["units"]):
            ev.nontrivial((t["hdr"]["fmt"], json.dumps(t["hdr"]["doc"]["units"])))
    multi = [t for t in traces if len(t["hdr"]["doc"]["units"]) > 1]
    for t in (multi or traces)[:: max(1, len(multi or traces) // 6)]:
        ev.sample({"fmt": t["hdr"]["fmt"], "source_units": [u["blocks"] for u in t["hdr"]["doc"]["units"]],
                   "observed_units": [{"n": u["n"], "tokens": u["obs"]} for u in t["ev"][0]["units"]],
                   "join_law": t["ev"][0]["joinok"]})

    def describe(t, e):
        return (f"iterate_units() of a generated {t['hdr']['fmt']} document does not mirror the source units: "
                f"observed {[(u['n'], u['obs'], u['heads'], u['tbl']) for u in e.get('units', [])]} joinok={e.get('joinok')}; "
                f"source units {json.dumps([u['blocks'] for u in t['hdr']['doc']['units']])[:300]}")

    validate_with_findings(ctx, "DocTrace", traces, FINDING_DEV, describe,
                           lambda t: f"data_types.py iterate_units / get_full_text of the {t['hdr']['fmt']} result type")
    ev.replayed(len(traces))
    sections_model(ctx)
    ppt_slides_model(ctx)
    odp_slide_model(ctx)
    pptx_slide_model(ctx)
    ev.set(rule="same TLC-enumerated document suite as C02 (flow documents incl. headings; decks / workbooks / paged "
                "documents of 1..3 units incl. empty units) x formats; non-trivial = multi-unit or non-empty unit text",
           exhaustive=bool(ctx.thorough), constants={"flow_formats": FLOW_FORMATS, "multi_unit_formats": MULTI,
                                                     "documents": ndocs})
    ev.assume("writers are the trusted base", "heading text may live in the heading path, cell text in the unit's tables",
              "mbox / eml units are covered by C16; ppt / xls / doc / msg have no writer")
