"""C05 -- to_json is JSON-serialisable and from_json restores the same object.
Spec: specs/Serial.tla (+ SerialGen, SerialTrace, generated SerialSchema).

1. TLC proves on SerialGen (Mode = "meta": a two-class schema with one field per SHAPE of type hint that
   occurs in the registry) that the reference design satisfies the law on every well-typed value of the
   bounded universe (strings / dict keys / type names from the marker vocabulary); sensitivity runs show
   the counterexamples of the as-built steps (named deviations).
2. The dataclass registry schema is read reflectively from the running code and written as the generated
   module SerialSchema (GenShapes = distinct hint shapes); TLC (Mode = "templates") enumerates the value
   templates per shape; for EVERY registered class instances are built with every field populated from
   its hint by each template, pushed through to_json / json.dumps / from_json /
   serialize_extraction(include_binary=False); the observations are validated by TLC (SerialTrace).
3. Real extractions (repo fixtures + generated XLSX with typed cells) are round-tripped the same way
   (results and units) and the CLI (--json / --json-unit, with / without --binary) is run in-process, and
   again in worker processes whose stdout has the encoding of several environments (CLI_ENVS) on documents
   and file names with non-ASCII / non-BMP / undecodable characters.
"""
from __future__ import annotations

import json
import os
import shutil
import subprocess
import sys
import time
from concurrent.futures import ThreadPoolExecutor
from pathlib import Path

from .. import PY, REPO, SPECS, VERIF
from ..repo import child_env
from ..c05_lib import payload_sizes
from ..tlaval import iter_dump, to_tla
from ..tlc import MachineryError, run_tlc
from ..traces import validate

KF = "KF-C05-01"
ASBUILT_AFTER_FIXES = '{"NoMarkerEscape"}'
KEYSEQ = ["_type", "_bytes", "_bytesio", "text"]
NWORKERS = 12
NODE_CAP = 1500          # abstract nodes (v + j + out + nb) per TLC-validated fixture event before lists are cut


# --------------------------------------------------------------------------- plumbing
def _plain(x):
    """tlaval FD/tuple/frozenset -> plain JSON-able python."""
    if isinstance(x, dict):
        return {k: _plain(v) for k, v in x.items()}
    if isinstance(x, (tuple, list)):
        return [_plain(v) for v in x]
    return x


def _worker(mode, job, scratch, tag, extra_env=None):
    inp = scratch / f"job-{tag}.json"
    out = scratch / f"out-{tag}.json"
    inp.write_text(json.dumps(job))
    return out, subprocess.Popen([PY, "-m", "mbv.props.c05", "worker", mode, str(inp), str(out)],
                                 env=_env(extra_env), cwd=str(VERIF),
                                 stdout=subprocess.PIPE, stderr=subprocess.PIPE, text=True)


def _env(extra):
    e = child_env({"PYTHONHASHSEED": "0"})
    for k, val in (extra or {}).items():
        if val == "":
            e.pop(k, None)
        else:
            e[k] = val
    return e


def _collect(procs, what):
    res = []
    for out, p in procs:
        so, se = p.communicate(timeout=1500)
        if p.returncode != 0:
            raise MachineryError(f"C05 worker ({what}) failed:\n{se[-3000:]}")
        res.append(json.loads(out.read_text()))
    return res


def _hdr(events, schema):
    classes, enc, dec = set(), {}, {}
    for e in events:
        classes.update(e.get("_classes", ()))
        enc.update(e.get("_enc", {}))
        dec.update(e.get("_dec", {}))
    for c in sorted(classes):
        if c in schema:
            enc.update(schema[c].get("enc", {}))
            dec.update(schema[c].get("dec", {}))
    return {"schema": [[c, schema[c]["fields"]] for c in sorted(classes) if c in schema],
            "enc": [[k, v] for k, v in sorted(enc.items())],
            "dec": [[k, v] for k, v in sorted(dec.items())]}


def _strip(e):
    return {k: v for k, v in e.items() if not k.startswith("_") and k not in ("exc", "src")}


def _trace(tid, events, schema):
    return {"id": tid, "hdr": _hdr(events, schema), "ev": [_strip(e) for e in events]}


def _fast_validate(spec, cfg, traces, scratch, parallel=NWORKERS):
    """Accept/reject only (single-event traces: no need for the per-trace re-run of mbv.traces.validate)."""
    import re
    if not traces:
        return [], 0, 0, 0.0
    n = max(1, min(parallel, len(traces) // 40 or 1))
    size = (len(traces) + n - 1) // n
    chunks = [traces[i:i + size] for i in range(0, len(traces), size)]

    def one(ic):
        i, chunk = ic
        f = scratch / f"fast-{spec}-{i}-{time.time_ns()}.json"
        f.write_text(json.dumps(chunk))
        r = run_tlc(spec, cfg, scratch=scratch, workers=1, timeout=900, expect_fail=True, keep_going=True,
                    env={"TRACE_FILE": str(f), "MBV_PROGRESS": "0"})
        f.unlink(missing_ok=True)
        acc = {int(x) for x in re.findall(r'<<"ACCEPT", (\d+)>>', r.output)}
        return [k + 1 in acc for k in range(len(chunk))], r
    oks, gen, dist, wall = [], 0, 0, 0.0
    with ThreadPoolExecutor(len(chunks)) as ex:
        for ok, r in ex.map(one, list(enumerate(chunks))):
            oks += ok
            gen += r.generated
            dist += r.distinct
            wall = max(wall, r.wall_s)
    return oks, dist, gen, wall


# --------------------------------------------------------------------------- the check
def run(ctx):
    ev, v = ctx.ev, ctx.v
    t0 = time.time()

    # ---- 0. schema of the running code (reflective), generated constant module
    out, p = _worker("schema", {}, ctx.scratch, "schema")
    exported = _collect([(out, p)], "schema export")[0]
    schema = exported["classes"]
    if sorted(exported["markers"]) != sorted(KEYSEQ[:3]):
        raise MachineryError(f"the serialiser's marker keys are {exported['markers']}, Serial!Markers / KeySeq say "
                             f"{KEYSEQ[:3]}: update the specification's marker vocabulary")
    if len(schema) < 10:
        raise MachineryError(f"registry has only {len(schema)} dataclasses: binding broken")
    bad_hints = {c: s["error"] for c, s in schema.items() if "error" in s}
    for c, err in bad_hints.items():
        v.violation(what=f"type hints of registered dataclass {c} cannot be resolved, from_json fails for it: {err}",
                    case={"class": c}, where="data_types.py / serialization.py:_get_field_types")
    shapes = {}
    for c, s in schema.items():
        for fname, h, d, init in s["fields"]:
            g = h["g"] if h["k"] == "other" else h
            if init and g["k"] != "dflt":
                shapes[json.dumps(g, sort_keys=True)] = g
    type_name = "PdfContent" if "PdfContent" in schema else sorted(c for c in schema if schema[c]["instantiable"])[0]
    any_classes = [c for c in ("EmailAddress", "PdfImage", "DocxImage", "TableDim") if c in schema
                   and schema[c]["instantiable"]] or [type_name]

    def specdir(widths, tag=""):
        """Private copy of specs/ with the generated SerialSchema for these enumeration bounds."""
        d = ctx.scratch / ("specs-" + "-".join(map(str, widths)) + tag)
        if not d.exists():
            shutil.copytree(SPECS, d, ignore=shutil.ignore_patterns("*.toolbox", "states", "*_TTrace_*"))
            (d / "SerialSchema.tla").write_text(
                "---- MODULE SerialSchema ----\n(* generated by mbv/props/c05.py from the running code's registry *)\n"
                f"GenShapes == {{{', '.join(to_tla(g) for _, g in sorted(shapes.items()))}}}\n"
                f"Widths == {to_tla(list(widths))}\nKeySeq == {to_tla(KEYSEQ)}\n====\n")
        return d

    # ---- 1. theorem + sensitivity (meta schema); the TLC runs go on in the background
    def meta_cfg(devs, invs):
        return ("SPECIFICATION Spec\nCONSTANTS\n Deviations = " + devs + '\n Mode = "meta"\n'
                ' StrVocab = {"_type", "_bytes", "Leaf", "AAAA", "w"}\n TypeName = "Leaf"\n'
                + "".join(f"INVARIANT {i}\n" for i in invs))
    ALL = ["Inv_Serialisable", "Inv_RoundTrip", "Inv_BinaryExcluded", "Inv_Wrap", "Inv_Cell", "Inv_BinaryWhereDeclared"]
    meta_widths = [(2, 1, 1), (1, 2, 1)] if ctx.thorough else [(1, 1, 2)]
    pool = ThreadPoolExecutor(6)
    jobs = []          # (kind, name, extra, future)
    for w in meta_widths:
        jobs.append(("theorem", f"SerialGen meta, reference design, Widths={w}: C05 on all well-typed values", None,
                     pool.submit(run_tlc, specdir(w) / "SerialGen", meta_cfg("{}", ALL), scratch=ctx.scratch,
                                 timeout=1500, heap="6g", workers=8 if ctx.thorough else 4)))
    sd = specdir((1, 1, 2))
    jobs.append(("theorem", "SerialGen meta, as-built after the proposed fixes: law holds outside the domain of " + KF, None,
                 pool.submit(run_tlc, sd / "SerialGen",
                             meta_cfg(ASBUILT_AFTER_FIXES, ["Inv_Serialisable", "Inv_RoundTripOutsideKF",
                                                            "Inv_BinaryExcluded", "Inv_Cell"]),
                             scratch=ctx.scratch, timeout=900, workers=4)))
    for devs, inv, why in [
        (ASBUILT_AFTER_FIXES, "Inv_RoundTrip", "marker dict in an Any position is confused (KF-C05-01)"),
        ('{"NoMarkerEscape", "MarkerBeforeHint"}', "Inv_RoundTripOutsideKF",
         "marker key in a Dict[...]-typed field hijacks from_json (fix c05-dict-hint-before-markers)"),
        ('{"PassThroughNonJson"}', "Inv_Cell", "timedelta cell is not JSON-serialisable (fix c05-xlsx-timedelta)"),
        ('{"EncodeFromPosition"}', "Inv_RoundTrip", "a BytesIO the caller has read is encoded from its current position"),
    ]:
        jobs.append(("sens", f"SerialGen sensitivity Deviations={devs}: {why}", (devs, inv),
                     pool.submit(run_tlc, sd / "SerialGen", meta_cfg(devs, [inv]), scratch=ctx.scratch, timeout=900,
                                 expect_fail=True, workers=2)))

    def finish_meta():
        for kind, name, extra, fut in jobs:
            r = fut.result()
            if kind == "theorem":
                ev.tlc(name, r)
                if r.violated:
                    raise MachineryError(f"{name}: {r.violated} violated -- the specification is wrong")
            else:
                devs, inv = extra
                ev.tlc(name, r, note="expected violation")
                if not r.violated:
                    raise MachineryError(f"sensitivity run Deviations={devs} did not fail: {inv} is vacuous")
                if inv != "Inv_Cell" and r.trace:
                    ctx.log("counterexample", devs, "->", " ".join(r.trace[-1].split())[:240])
        pool.shutdown()

    # ---- 2. templates per hint shape of the running code
    tpl_widths = [(2, 1, 1), (1, 2, 1), (1, 1, 2)] if ctx.thorough else [(1, 1, 2)]
    templates = {k: {} for k in shapes}
    for w in tpl_widths:
        dump = ctx.scratch / f"tpl-{'-'.join(map(str, w))}.dump"
        cfg = ('SPECIFICATION Spec\nCONSTANTS\n Deviations = {}\n Mode = "templates"\n'
               f' StrVocab = {{"_type", "_bytes", "_bytesio", "{type_name}", "AAAA", "w", ""}}\n'
               f' TypeName = "{type_name}"\n')
        r = run_tlc(specdir(w, "t") / "SerialGen", cfg, scratch=ctx.scratch, dump=dump, timeout=1500, heap="6g",
                    workers=8)
        ev.tlc(f"SerialGen templates Widths={w}: well-typed values per hint shape of the registry", r)
        n = 0
        for s in iter_dump(dump if dump.exists() else Path(str(dump) + ".dump")):
            if s["v"].get("t") == "unset":
                continue
            hk = json.dumps(_plain(s["h"]), sort_keys=True)
            if hk not in templates:
                raise MachineryError(f"dumped hint shape not in the exported set: {hk}")
            tv = _plain(s["v"])
            templates[hk][json.dumps(tv, sort_keys=True)] = tv
            n += 1
        if n + len(shapes) != r.distinct:
            raise MachineryError(f"dump has {n} templates + {len(shapes)} shapes, TLC reported {r.distinct}")
    templates = {k: [t for _, t in sorted(d.items())] for k, d in templates.items()}
    if ctx.thorough:      # the widest shapes are subsampled (seeded) to keep the replay bounded
        import random
        cap = 2000
        for k in templates:
            if len(templates[k]) > cap:
                templates[k] = sorted(random.Random(f"{ctx.seed}:{k}").sample(templates[k], cap),
                                      key=lambda t: json.dumps(t, sort_keys=True))
    ntpl = sum(len(t) for t in templates.values())
    ctx.log(f"{len(schema)} registered dataclasses, {len(shapes)} hint shapes, {ntpl} value templates "
            f"({time.time() - t0:.0f}s)")

    # ---- 3. spec -> code: instances of every registered class; fixtures; CLI
    inst = sorted(c for c in schema if schema[c]["instantiable"] and "error" not in schema[c])
    skipped = sorted(set(schema) - set(inst) - set(bad_hints))
    weights = {c: max((len(templates[json.dumps(h["g"] if h["k"] == "other" else h, sort_keys=True)])
                       for _, h, _, init in schema[c]["fields"]
                       if init and (h["g"] if h["k"] == "other" else h)["k"] != "dflt"), default=1) for c in inst}
    bins = [[] for _ in range(NWORKERS)]
    load = [0] * NWORKERS
    for c in sorted(inst, key=lambda c: -weights[c]):
        # the heaviest classes are split across several workers by instance-index stripes
        parts = min(NWORKERS, max(1, weights[c] // 400))
        for part in range(parts):
            i = load.index(min(load))
            bins[i].append([c, part, parts])
            load[i] += weights[c] // parts + 5
    procs = [_worker("instances", {"schema": schema, "templates": templates, "seed": ctx.seed, "classes": b,
                                   "any_classes": any_classes}, ctx.scratch, f"inst{i}")
             for i, b in enumerate(bins) if b]
    fx = sorted(str(p) for p in (REPO / "sharepoint2text" / "tests" / "resources").rglob("*") if p.is_file())
    if not fx:
        raise MachineryError("no fixtures under sharepoint2text/tests/resources")
    fprocs = [_worker("fixtures", {"files": fx[i::6] if i < 6 else [], "all_files": fx, "wd": str(ctx.scratch / f"fx{i}"),
                                    "seed": ctx.seed, "gen": {6: "sheets", 7: "hostile", 8: "paths", 9: "damaged"}.get(i, ""),
                                    "thorough": ctx.thorough},
                      ctx.scratch, f"fx{i}") for i in range(10)]
    sizes = payload_sizes(ctx.thorough)
    pbins = [[], [], []]
    for n in sorted(sizes, reverse=True):
        min(pbins, key=sum).append(n)
    pprocs = [_worker("payloads", {"sizes": b, "seed": ctx.seed}, ctx.scratch, f"pay{i}") for i, b in enumerate(pbins) if b]
    eprocs = [_worker("clienv", {"wd": str(ctx.scratch / f"env-{i}"), "label": lab}, ctx.scratch, f"env{i}", env)
              for i, (lab, env) in enumerate(sorted(CLI_ENVS.items()))]
    inst_out = _collect(procs, "instances")
    fx_out = _collect(fprocs, "fixtures")
    env_out = _collect(eprocs, "CLI under a stdout environment")
    n_env = sum(len(o["events"]) for o in env_out)
    if n_env < 2 * 3 * len(CLI_ENVS):
        raise MachineryError(f"only {n_env} CLI runs under the stdout environments: binding broken "
                             f"({[n for o in env_out for n in o['notes']][:4]})")
    pay_out = _collect(pprocs, "payload instances")
    if sum(len(o["events"]) for o in pay_out) != 2 * len(sizes):
        raise MachineryError("payload instances missing: binding broken")
    fx_out = fx_out + env_out + pay_out
    events = [e for o in inst_out for e in o["events"]]
    build_failed = sum(o["build_failed"] for o in inst_out)
    fx_events = [e for o in fx_out for e in o["events"]]
    notes = [n for o in fx_out for n in o["notes"]]
    ctx.log(f"{len(events)} instances of {len(inst)} classes executed ({build_failed} not constructible, "
            f"{len(skipped)} protocol classes skipped), {len(fx_events)} fixture/CLI events ({time.time() - t0:.0f}s)")
    if not events or sum(1 for e in fx_events if e["a"] == "RoundTrip") < 20:
        raise MachineryError("too few events recorded: binding broken")
    if sum(1 for e in fx_events if e["a"] == "Cli") < 20 or not any(e["a"] == "Cell" for e in fx_events):
        raise MachineryError("CLI / cell events missing: binding broken")
    bundle_cli = [e for e in fx_events if e["a"] == "Cli" and "generated bundle" in e["src"]]
    n_item = sum(1 for e in fx_events if e["a"] == "CliItem" and "generated bundle" in e["src"] and not e["binary"]
                 and e["mode"] == "unit" and '"bytes' in json.dumps(e["v"]))
    n_read = sum(1 for e in fx_events if e["a"] == "RoundTrip" and "streams read" in e.get("src", ""))
    if len(bundle_cli) < 8 or any(e["n"] < 2 for e in bundle_cli) or not n_read:
        raise MachineryError(f"multi-result CLI inputs ({len(bundle_cli)} runs) / replays with read streams ({n_read}) "
                             "missing: binding broken")
    n_host = sum(1 for e in fx_events if e["a"] == "RoundTrip" and e.get("src", "").startswith("generated PDF"))
    n_mail = sum(1 for e in fx_events if e["a"] == "RoundTrip" and ("generated eml" in e.get("src", "") or "generated mbox" in e.get("src", "")))
    n_path = sum(1 for e in fx_events if e["a"] == "Cli" and "path form: " in e["src"] and "symlink" in e["src"])
    n_dmg = sum(1 for e in fx_events if e["a"] == "RoundTrip" and "picture members damaged" in e.get("src", "")
                and '"error", {"t": "str"' in json.dumps(e["v"]))
    n_iso = sum(1 for e in fx_events if e["a"] == "Cell" and "typed-iso" in e["src"] and e["kind"] == "date")
    if n_path < 16 or n_dmg < 5 or not n_iso:
        raise MachineryError(f"CLI runs on symlink path forms ({n_path}) / results with image error records ({n_dmg}) / "
                             f"ISO date cells ({n_iso}) missing: binding broken ({[n for n in notes if 'symlink' in n][:2]})")
    n_xls = sum(1 for e in fx_events if e["a"] == "RoundTrip" and "generated xls, marker keys" in e.get("src", "")
                and e["cls"] == "XlsContent" and e["_suspect"])
    n_txt = sum(1 for e in fx_events if e["a"] == "RoundTrip" and "line ends / white space" in e.get("src", ""))
    n_pi = sum(1 for e in events if "constructor normalises" in e.get("src", ""))
    if n_xls < 4 or n_txt < 20 or n_pi < 20:
        raise MachineryError(f"XLS results with marker header cells ({n_xls}) / plain-text normalisation inputs ({n_txt}) / "
                             f"post-init instances ({n_pi}) missing: binding broken")
    if n_host < 9 or n_mail < 8:
        raise MachineryError(f"generated hostile PDFs ({n_host}) / mails ({n_mail}) missing: binding broken "
                             f"({[n for n in notes if 'generated' in n][:4]})")
    if not n_item and all(e["eq"] and e["rc"] == 0 for e in bundle_cli):
        # (a wrongly shaped output has no items to look at: its Cli event is rejected instead)
        raise MachineryError("no unit of a multi-result CLI output with binary payloads was recorded: binding broken")

    # ---- 4. code -> spec: TLC validates the observations
    law_cfg = f'SPECIFICATION TraceSpec\nCONSTRAINT TraceAccept\nCONSTANTS\n Deviations = {ASBUILT_AFTER_FIXES}\n Accept = "law"\n'
    asb_cfg = law_cfg.replace('"law"', '"asbuilt"')
    allev = events + fx_events
    suspects = [e for e in allev if e["a"] == "RoundTrip" and e.get("_suspect")]
    plain = [e for e in allev if not (e["a"] == "RoundTrip" and e.get("_suspect"))]

    def describe(e):
        if e["a"] == "RoundTrip":
            return (f"{e['cls']} ({e.get('src', 'type-directed instance')}): "
                    + (e.get("exc") or ("from_json(json.loads(json.dumps(to_json()))) differs from the original"
                                        if e["out"] != e["v"] or e["same"].startswith("no")
                                        else "binary-excluded JSON differs from the full JSON outside the binary fields, or a "
                                             "field that is not declared bytes / BytesIO / Any holds a binary value")))
        if e["a"] == "CliItem":
            return (f"CLI {e['mode']} binary={e['binary']} on {e['src']} ({e['cls']}): the printed item is not the "
                    + ("complete library JSON" if e["binary"] else "library JSON with exactly the binary fields null"))
        if e["a"] == "Cell":
            return f"XLSX cell of Python type {e['kind']} is stored as {e['out']} ({e.get('exc', '')})"
        return (f"CLI {e['mode']} binary={e['binary']} on {e['src']}: rc={e['rc']} results={e['n']} "
                f"top={e['top']} inner={e['inner']} equal-to-library-JSON={e['eq']}")

    def where(e):
        return {"RoundTrip": "serialization.py:_serialize_for_json/_deserialize_value/_deserialize_dataclass",
                "Cell": "xlsx_extractor.py:_get_cell_value", "Cli": "cli.py:_serialize_results/_serialize_unit_results",
                "CliItem": "cli.py:_serialize_results/_serialize_unit_results"}[e["a"]]

    # 4a. batched traces (events without any marker-keyed dict)
    pending = [plain[i:i + 60] for i in range(0, len(plain), 60)]
    rounds = 0
    nviol = 0
    while pending and rounds < 6:
        rounds += 1
        traces = [_trace(f"b{rounds}-{i}", evs, schema) for i, evs in enumerate(pending)]
        br = validate("SerialTrace", law_cfg, traces, scratch=ctx.scratch, parallel=NWORKERS, min_chunk=2)
        ev.tlc_counts(f"SerialTrace (law) round {rounds}: {sum(len(x) for x in pending)} events", br.distinct,
                      br.states, br.wall_s)
        nxt = []
        for evs, tv in zip(pending, br.verdicts):
            if tv.accepted:
                v.ok(len(evs))
                continue
            v.ok(tv.reached)
            bad = evs[tv.reached]
            nviol += 1
            v.violation(what=describe(bad), case=_strip(bad) if bad.get("_nodes", 0) < 400 else
                        {k: bad.get(k) for k in ("a", "cls", "src", "exc", "same")}, where=where(bad))
            if evs[tv.reached + 1:]:
                nxt.append(evs[tv.reached + 1:])
        pending = nxt if nviol < 40 else []
    if pending:
        ctx.log(f"{sum(len(x) for x in pending)} events left unvalidated after {nviol} violations")

    ctx.log(f"batched validation done ({time.time() - t0:.0f}s)")
    # 4b. events holding a dict with a marker key: one trace each; law first, as-built model second
    st = [_trace(f"s{i}", [e], schema) for i, e in enumerate(suspects)]
    oks, d1, g1, w1 = _fast_validate("SerialTrace", law_cfg, st, ctx.scratch)
    ev.tlc_counts(f"SerialTrace (law): {len(st)} single-event traces with marker-keyed dicts", d1, g1, w1)
    rej = [(e, t) for e, t, ok in zip(suspects, st, oks) if not ok]
    v.ok(len(st) - len(rej))
    oks2, d2, g2, w2 = _fast_validate("SerialTrace", asb_cfg, [t for _, t in rej], ctx.scratch)
    ev.tlc_counts(f"SerialTrace (as-built {ASBUILT_AFTER_FIXES}, in domain of {KF}): {len(rej)} rejected traces", d2, g2, w2)
    for (e, t), ok in zip(rej, oks2):
        if ok:
            v.known(KF, describe(e), {"cls": e["cls"]})
        else:
            v.violation(what=describe(e) + " -- and the observation is NOT what the as-built model predicts inside "
                        f"the domain of {KF}", case=_strip(e) if e.get("_nodes", 0) < 400 else {"cls": e["cls"]},
                        where=where(e))

    ctx.log(f"single-event validation done: {len(st)} traces, {len(rej)} rejected by the law ({time.time() - t0:.0f}s)")
    finish_meta()
    # ---- evidence
    ev.replayed(len(allev))
    for e in allev:
        if e["a"] == "RoundTrip" and e.get("_nodes", 0) > 8:
            ev.nontrivial((e["cls"], e.get("src", ""), e["_nodes"], json.dumps(e["v"], sort_keys=True)[:3000].__hash__()))
    for e in (suspects[:2] + [x for x in fx_events if x["a"] == "Cli"][:2] + [x for x in fx_events if x["a"] == "Cell"][:2]
              + [x for x in fx_events if x["a"] == "RoundTrip"][:2]):
        s = _strip(e)
        for k in ("v", "j", "out", "nb"):
            if k in s:
                s[k] = json.dumps(s[k])[:300]
        ev.sample({**s, "src": e.get("src", "type-directed instance")})
    ev.set(rule="every registered instantiable dataclass x every value template TLC enumerates for the hint shape of "
                "each of its fields (all fields populated at once, template lists cycled; strings, dict keys and "
                "type names from the marker vocabulary) + every result and unit of every repo fixture and of "
                "generated XLSX files with typed cells, each replayed again with its BytesIO payloads read to the "
                "end / middle (the templates enumerate the stream position too) + the CLI in 4 modes per fixture and "
                "per generated archive of fixtures with pictures, every printed result / unit of multi-result inputs "
                "checked against its object; the CLI run again in processes with the stdout encoding of 4 environments "
                "(utf-8, ascii, cp1252, C locale) on documents / file names with non-ASCII, non-BMP and undecodable "
                "characters; generated XLSX / ODS sheets carry every typed cell kind in the header row too; "
                "generated PDFs with hostile image /Alt /Title /Caption /TU and Info strings, eml / mbox messages with raw "
                "8-bit bytes and RFC 2047 words in every header; directly built PdfImage / DocxImage instances with "
                "payload sizes around 1/4(/8/16) MiB +-2 and every residue mod 3 (bytes and BytesIO path); the law "
                "includes Serial!Prop_BinaryOnlyInBinaryFields (field values against the declared hints); "
                "CLI and read_file(str | pathlib.Path) over path forms (relative, . / .., symlinks with another name / "
                "suffix, symlinked directory); containers whose picture members are damaged (bad CRC, unsupported "
                "method, missing) so that every extractor's image.error record is produced; an XLSX stored with ISO "
                "8601 dates (openpyxl delivers datetime.date); besides results and units also images, their "
                "ImageMetadata, tables and get_metadata() of every extraction are round-tripped; "
                "generated .xls with the serialiser's marker keys as header cells / cell strings; plain-text and mail "
                "inputs and instances of every class with a __post_init__ whose strings are not fixed points of "
                "sloppy normalisers (CR CR LF, outer white space kinds, NUL, BOM); "
                "non-trivial = distinct abstract value with more than 8 nodes",
           exhaustive=not ctx.thorough,
           constants={"classes": len(schema), "instantiated": len(inst), "protocol_classes_skipped": skipped,
                      "hint_shapes": len(shapes), "templates": ntpl, "template_widths": [list(w) for w in tpl_widths],
                      "instances": len(events), "not_constructible": build_failed, "fixtures": len(fx),
                      "fixture_events": len(fx_events), "marker_dict_events": len(suspects), "notes": notes[:20]})
    ev.assume("base64 encode/decode facts for the byte strings and strings that occur are supplied by Python's "
              "base64 module (trace header), not modelled",
              "abstract projection: strings longer than 24 characters / non-ASCII and byte strings longer than 8 bytes "
              "are carried as SHA-1 ids; lists of extracted results longer than 2k+1 keep the first and last k "
              "elements in the TLC-validated projection (the complete to_json / text / units / tables / image bytes "
              "are compared in Python: field `same`)",
              "non-JSON Python objects in Any-typed fields of hand-built instances are DON'T-CARE; extractor "
              "outputs are checked on fixtures and on generated XLSX cells of every openpyxl value type",
              "the wire format itself (marker names) is not demanded, only object/array structure")


# --------------------------------------------------------------------------- workers (library process)
def _w_schema(job):
    from ..c05_lib import discover_markers, export_schema
    return {"classes": export_schema(), "markers": discover_markers()}


def _w_instances(job):
    from ..c05_lib import Builder, execute, has_marker_dict
    b = Builder(job["schema"], job["templates"], job["seed"], job["any_classes"])
    events, failed = [], 0
    for cname, part, parts in job["classes"]:
        n = b.count(cname)
        for i in range(part, n, parts):
            try:
                x = b.instance(cname, i, 0)
            except Exception:
                failed += 1
                continue
            e = execute(x)
            e["_suspect"] = has_marker_dict(e["v"])
            events.append(e)
        if part == 0:
            try:
                extra = list(b.post_init_instances(cname))
            except Exception:
                extra = []
                failed += 1
            for spelling, x in extra:
                e = execute(x)
                e["src"] = f"type-directed instance, str fields = {spelling!r} (constructor normalises)"
                e["_suspect"] = has_marker_dict(e["v"])
                events.append(e)
    return {"events": events, "build_failed": failed}


def _w_payloads(job):
    """Dataclass instances with payloads around every plausible chunk boundary (bytes and BytesIO path)."""
    from ..c05_lib import execute, payload_instances
    events = []
    for what, x in payload_instances(job["sizes"], job["seed"]):
        e = execute(x)
        e["src"] = what
        e["_suspect"] = False
        events.append(e)
    return {"events": events, "notes": []}


def _typed_xlsx(path, seed, k):
    """XLSX whose cells make openpyxl deliver every Python value type it can."""
    import datetime
    import random
    import openpyxl
    rng = random.Random(f"{seed}:{k}")
    wb = openpyxl.Workbook()
    if k == 3:
        wb.iso_dates = True          # dates / times stored the ISO 8601 way (t="d"); a bare date stays a date
    ws = wb.active
    ws.title = "typed"
    hdr = ["s", "i", "f", "b", "dt", "d", "t", "dur", "dur2", "none", "err"]
    if k == 1:
        hdr = ["_type", "_bytes", "_bytesio"] + hdr[3:]       # header cells from the marker vocabulary
    if k in (2, 3):                                           # every typed cell kind in the FIRST row as well
        hdr = ["s", 7, 2.5, True, datetime.datetime(2024, 1, 1, 8, 30), datetime.date(2024, 2, 1),
               datetime.time(9, 15), datetime.timedelta(hours=26, minutes=1), datetime.timedelta(seconds=61), None,
               "#N/A", "=1+1"]
    ws.append(hdr)
    if k in (2, 3):
        ws.cell(row=1, column=8).number_format = "[h]:mm:ss"
        ws.cell(row=1, column=9).number_format = "[h]:mm:ss"
    for r in range(2 + k % 3):
        ws.append(["_type" if r == 0 else "x%d" % rng.randrange(100), rng.randrange(-5, 10 ** 6), rng.random() * 100,
                   bool(r % 2), datetime.datetime(2020, 1 + r, 2, 3, 4, 5), datetime.date(2021, 2, 3 + r),
                   datetime.time(1 + r, 2, 3), datetime.timedelta(hours=30 + r, minutes=5),
                   datetime.timedelta(seconds=rng.randrange(1, 86399)), None, "#DIV/0!"] + (["=2*3"] if k in (2, 3) else []))
        ws.cell(row=ws.max_row, column=8).number_format = "[h]:mm:ss"
        ws.cell(row=ws.max_row, column=9).number_format = "[h]:mm:ss"
    wb.save(path)


def _typed_ods(path):
    """Minimal ODS: every office:value-type in the first row and below it."""
    import zipfile
    ns = ('xmlns:office="urn:oasis:names:tc:opendocument:xmlns:office:1.0" '
          'xmlns:table="urn:oasis:names:tc:opendocument:xmlns:table:1.0" '
          'xmlns:text="urn:oasis:names:tc:opendocument:xmlns:text:1.0"')

    def cell(vt, attr, val, text):
        a = f' office:value-type="{vt}"' + (f' office:{attr}="{val}"' if attr else "")
        return f"<table:table-cell{a}><text:p>{text}</text:p></table:table-cell>"
    row = (cell("date", "date-value", "2020-01-02", "02.01.2020") + cell("date", "date-value", "2020-01-02T03:04:05", "x")
           + cell("time", "time-value", "PT30H05M00S", "30:05:00") + cell("boolean", "boolean-value", "true", "TRUE")
           + cell("float", "value", "1.5", "1,5") + cell("float", "value", "7", "7")
           + cell("percentage", "value", "0.25", "25%") + cell("currency", "value", "9.99", "9,99")
           + cell("string", None, None, "_type") + "<table:table-cell/>" + cell("string", None, None, "Err:502"))
    content = (f'<?xml version="1.0" encoding="UTF-8"?><office:document-content {ns} office:version="1.2"><office:body>'
               f'<office:spreadsheet><table:table table:name="typed">' + 3 * f"<table:table-row>{row}</table:table-row>"
               + "</table:table></office:spreadsheet></office:body></office:document-content>")
    with zipfile.ZipFile(path, "w") as z:
        z.writestr(zipfile.ZipInfo("mimetype"), "application/vnd.oasis.opendocument.spreadsheet")
        z.writestr("content.xml", content)
        z.writestr("META-INF/manifest.xml", '<?xml version="1.0"?><manifest:manifest xmlns:manifest='
                   '"urn:oasis:names:tc:opendocument:xmlns:manifest:1.0"><manifest:file-entry manifest:full-path="/" '
                   'manifest:media-type="application/vnd.oasis.opendocument.spreadsheet"/></manifest:manifest>')


# stdout environments of the CLI: label -> environment of the worker process
CLI_ENVS = {
    "utf-8": {"PYTHONIOENCODING": "utf-8"},
    "ascii": {"PYTHONIOENCODING": "ascii"},
    "cp1252": {"PYTHONIOENCODING": "cp1252"},
    "C-locale": {"LC_ALL": "C", "LANG": "C", "PYTHONUTF8": "0", "PYTHONCOERCECLOCALE": "0", "PYTHONIOENCODING": ""},
}


def _w_clienv(job):
    """Runs in a process whose standard streams have the encoding of one environment.  The CLI writes to
    a text stream with exactly sys.stdout's encoding and error handler; the bytes are decoded and parsed
    like a consumer of the pipe would."""
    import io
    import logging
    import sharepoint2text
    from sharepoint2text import cli
    from sharepoint2text.parsing.extractors.serialization import serialize_extraction
    logging.disable(logging.CRITICAL)
    enc, errors = sys.stdout.encoding, sys.stdout.errors
    wd = os.fsencode(job["wd"])
    os.makedirs(wd, exist_ok=True)
    text = "plain ascii\nGreek \u03b1\u03b2\u03b3 CJK \u6f22\u5b57 emoji \U0001f600 e-acute \u00e9 euro \u20ac\n"
    html = ("<html><head><title>\u6f22\u5b57 \U0001d11e</title></head><body><h1>\u0391\u03b8\u03ae\u03bd\u03b1</h1>"
            "<p>na\u00efve caf\u00e9 \U0001f600</p><a href='http://x/\u00fc'>l\u00efnk</a></body></html>")
    names = [b"plain.txt", "gr\u00fc\u00dfe \u03b1\u03b2\u03b3 \u6f22.txt".encode("utf-8"), b"caf\xe9 latin1 name.txt",
             "\U0001f600 page.html".encode("utf-8"), b"bad \xff\xfe name.html"]
    events, notes = [], []
    for bname in names:
        bpath = os.path.join(wd, bname)
        try:
            with open(bpath, "wb") as f:
                f.write((html if bname.endswith(b".html") else text).encode("utf-8"))
        except OSError as e:
            notes.append(f"{bname!r}: cannot create ({e.__class__.__name__})")
            continue
        path = os.fsdecode(bpath)
        label = ascii(os.fsdecode(bname))
        try:
            results = list(sharepoint2text.read_file(path))
        except Exception as e:
            notes.append(f"{label}: not extractable under {job['label']} ({type(e).__name__})")
            continue
        for mode, flag in (("json", "--json"), ("unit", "--json-unit")):
            if mode == "json":
                lib = [serialize_extraction(r, include_binary=False) for r in results]
            else:
                lib = [[serialize_extraction(u, include_binary=False) for u in r.iterate_units()] for r in results]
            lib = json.loads(json.dumps(lib))
            raw = io.BytesIO()
            fake = io.TextIOWrapper(raw, encoding=enc, errors=errors, write_through=True)
            real = sys.stdout
            sys.stdout = fake
            try:
                try:
                    rc = cli.main([flag, path])
                except BaseException as ex:  # noqa
                    rc = -1
                    notes.append(f"{label} {mode} under {job['label']}: cli.main raised {type(ex).__name__}")
                try:
                    fake.flush()
                except Exception:
                    pass
            finally:
                sys.stdout = real
            data = raw.getvalue()
            top = inner = "-"
            eq = False
            try:
                try:
                    s = data.decode("utf-8")
                except UnicodeDecodeError:
                    s = data.decode(enc)          # strict: bytes that are not text in the stream's encoding are garbage
                parsed = json.loads(s)
                top = "obj" if isinstance(parsed, dict) else "arr" if isinstance(parsed, list) else "other"
                if top == "arr" and parsed:
                    inner = "obj" if isinstance(parsed[0], dict) else "arr" if isinstance(parsed[0], list) else "other"
                eq = parsed == lib or (len(lib) == 1 and parsed == lib[0])
            except Exception:
                top = "unparsable"
            events.append({"a": "Cli", "mode": mode, "binary": False, "n": len(results), "rc": rc if isinstance(rc, int) else -1,
                           "top": top, "inner": inner, "eq": eq,
                           "src": f"{label} with stdout {enc}/{errors} ({job['label']}); {len(data)} bytes written"})
    return {"events": events, "notes": notes}


def _w_fixtures(job):
    import contextlib
    import datetime
    import io
    import logging
    import openpyxl
    import sharepoint2text
    from sharepoint2text import cli
    from sharepoint2text.parsing.extractors.serialization import serialize_extraction
    from ..c05_lib import (HOSTILE_PDF_STRINGS, Proj, execute, has_marker_dict, hostile_mail, hostile_mbox,
                           damage_pictures, hostile_pdf, set_positions)
    import dataclasses
    from sharepoint2text.parsing.extractors.serialization import _get_type_registry
    registry = _get_type_registry()
    logging.disable(logging.CRITICAL)
    for n in ("main", "_serialize_results", "_serialize_unit_results"):
        if not hasattr(cli, n):
            raise SystemExit(f"binding vanished: cli.{n}")
    wd = Path(job["wd"])
    wd.mkdir(parents=True, exist_ok=True)
    files = [(f, os.path.relpath(f, os.environ.get("SP2T_REPO", "/repo"))) for f in job["files"]]
    events, notes = [], []
    if job["gen"] == "hostile":
        # PDFs whose image /Alt, /Title, /Caption, /TU and Info strings hold bytes no text encoding of PDF
        # explains; mails / mailboxes with raw 8-bit bytes and RFC 2047 words in every header
        keys = [b"/Alt", b"/Title", b"/Caption", b"/TU"]
        for n, (name, raw) in enumerate(sorted(HOSTILE_PDF_STRINGS.items())):
            for key in {b"/Alt", keys[n % 4]}:
                p = wd / f"hostile-{name}-{key[1:].decode()}.pdf"
                p.write_bytes(hostile_pdf(raw, raw, key))
                files.append((str(p), f"generated PDF, image {key.decode()} and Info strings = {name}"))
        # a legacy .xls whose header cells / cells are the serialiser's own marker keys (user DATA that looks
        # like a marker), written with the shared BIFF8 writer (mbv/writers/xls.py, read-only use)
        try:
            from ..writers.xls import write_xls
        except Exception as ex:                       # the writer belongs to another property
            raise SystemExit(f"mbv.writers.xls not importable: {ex!r}")
        some_class = "DocxNote" if "DocxNote" in registry else sorted(registry)[0]
        books = {
            "marker-headers": [[["str", "_bytes"], ["str", "_bytesio"], ["str", "_type"], ["str", "plain"]],
                               [["str", "AAAA"], ["str", "AAAA"], ["str", some_class], ["str", "_type"]],
                               [["n", 7], ["str", "w"], ["str", "no class"], ["str", "_bytes"]],
                               [["str", "_type"], ["b", 1], ["str", "PdfContent"], None]],
            "type-first": [[["str", "_type"], ["str", "text"], ["str", "id"]],
                           [["str", some_class], ["str", "t"], ["str", "1"]],
                           [["str", "TableDim"], ["n", 2], ["n", 3]]],
            "bytes-only": [[["str", "_bytes"]], [["str", "AAAA"]], [["n", 1.5]], [["str", "not base64 !"]]],
            "bytesio-only": [[["str", "_bytesio"], ["str", "z"]], [["str", "AAAA"], ["n", 1]]],
        }
        for name, rows in books.items():
            p = wd / f"markers-{name}.xls"
            p.write_bytes(write_xls({"sheets": [{"name": "_type", "rows": rows}, {"name": "second", "rows": rows[:2]}]}))
            files.append((str(p), f"generated xls, marker keys as header cells ({name})"))
        # plain-text inputs that are not fixed points of a sloppy constructor normalisation
        texts = {"crcrlf": b"line one\r\r\nline two\r\r\nend\r\r\n", "crlf-lf": b"\r\n\na\r\n\nb\r\n\n",
                 "cr-only": b"a\rb\r", "outer-ws": b" \t\x0b\x0c a b \x1c\x1d \t ", "nbsp": "\u00a0a\u2028b\u3000".encode("utf-8"),
                 "nul": b"\x00a\x00b\x00", "bom": b"\xef\xbb\xbfa\r\nb\xef\xbb\xbf", "mixed": b"  \r\r\n  a  \n\r  b \r\n \r\n"}
        for name, raw in texts.items():
            for ext in (".txt", ".csv", ".md"):
                p = wd / f"text-{name}{ext}"
                p.write_bytes(raw if ext != ".csv" else raw.replace(b"a", b"a,b;c"))
                files.append((str(p), f"generated {ext} with {name} line ends / white space"))
        p = wd / "ws-subject.eml"
        p.write_bytes(b"From: a@example.org\r\nTo: b@example.org\r\nSubject:  \t spaced \t subject \t \r\n"
                      b"Message-ID: <ws@example.org>\r\nDate: Mon, 01 Jan 2024 10:00:00 +0000\r\n"
                      b"Content-Type: text/plain; charset=utf-8\r\n\r\n\r\r\n  body line\r\r\nsecond \r\n\r\n \t \r\n")
        files.append((str(p), "generated eml, white space around subject and body"))
        variants = ["ascii", "raw-utf8", "raw-latin1", "rfc2047"]
        for var in variants:
            p = wd / f"hostile-{var}.eml"
            p.write_bytes(hostile_mail(var))
            files.append((str(p), f"generated eml, every header {var}"))
        p = wd / "hostile.mbox"
        p.write_bytes(hostile_mbox(variants))
        files.append((str(p), "generated mbox, every header ascii / raw-utf8 / raw-latin1 / rfc2047"))
    if job["gen"] == "paths":
        # path forms: the CLI must print the to_json() of read_file(<the path it was given>)
        base = wd / "paths"
        (base / "archive" / "2024").mkdir(parents=True)
        (base / "current").mkdir()
        md = base / "archive" / "2024" / "status-report-2024-09-30.md"
        md.write_text("# Status\n\nall green\n")
        page = base / "archive" / "2024" / "index.html"
        page.write_text("<html><head><title>T</title></head><body><h1>H</h1><p>para</p></body></html>")
        forms = [(str(md), "absolute path of a regular file")]
        os.chdir(base)
        forms += [("archive/2024/status-report-2024-09-30.md", "relative path"),
                  ("./archive/../archive/2024/./status-report-2024-09-30.md", "relative path with . and .. components"),
                  (str(base / "current" / ".." / "archive" / "2024" / "index.html"), "absolute path with a .. component")]
        try:
            os.symlink("../archive/2024/status-report-2024-09-30.md", base / "current" / "latest.txt")
            os.symlink("../archive/2024/index.html", base / "current" / "page.txt")
            os.symlink("../archive/2024/status-report-2024-09-30.md", base / "current" / "notes.html")
            os.symlink("archive", base / "linkdir", target_is_directory=True)
            forms += [("current/latest.txt", "relative symlink latest.txt -> status-report-2024-09-30.md"),
                      (str(base / "current" / "latest.txt"), "absolute symlink latest.txt -> status-report-2024-09-30.md"),
                      ("current/page.txt", "symlink page.txt -> index.html (another extractor by suffix)"),
                      ("current/notes.html", "symlink notes.html -> status-report-2024-09-30.md"),
                      ("linkdir/2024/index.html", "file below a symlinked directory")]
        except OSError as e:
            notes.append(f"symlinks cannot be created here ({type(e).__name__})")
        for pth, what in forms:
            files.append((pth, f"path form: {what}"))
        for pth, what in forms:                       # the library entry with a pathlib.Path argument
            try:
                for ri, r in enumerate(sharepoint2text.read_file(Path(pth))):
                    e = execute(r)
                    e["src"] = f"path form: {what}, read_file(pathlib.Path)#{ri}"
                    e["_suspect"] = False
                    events.append(e)
            except Exception as ex:
                notes.append(f"path form {what}: read_file(Path) raised {type(ex).__name__}")
    if job["gen"] == "damaged":
        # containers whose picture members cannot be read: the failure records (image.error) of every extractor
        byext = {}
        for f in job["all_files"]:
            ext = os.path.splitext(f)[1].lower()
            if ext in (".odp", ".ods", ".odt", ".odg", ".docx", ".pptx", ".xlsx", ".epub") and "password" not in f \
                    and os.path.getsize(f) < 3_000_000:
                byext.setdefault(ext, []).append(f)
        n_err = 0
        for ext, fs in sorted(byext.items()):
            done = 0
            for f in sorted(fs, key=os.path.getsize):
                pkg = Path(f).read_bytes()
                for kind in ("crc", "method", "missing"):
                    try:
                        dmg, npic = damage_pictures(pkg, kind)
                    except Exception:
                        npic = 0
                    if not npic:
                        break
                    p = wd / f"damaged-{kind}-{done}{ext}"
                    p.write_bytes(dmg)
                    files.append((str(p), f"generated {os.path.basename(f)} with picture members damaged ({kind})"))
                else:
                    done += 1
                if done >= (3 if job.get("thorough") else 1):
                    break
    if job["gen"] == "sheets":
        for k in range(4):
            p = wd / (f"typed{k}.xlsx" if k < 3 else "typed-iso.xlsx")
            _typed_xlsx(p, job["seed"], k)
            files.append((str(p), f"generated {p.name}"))
            # Cell events: what openpyxl delivers vs what the extractor stored
            wb = openpyxl.load_workbook(str(p), read_only=True, data_only=True)
            raw = [list(r) for r in wb.active.iter_rows(values_only=True)]
            wb.close()
            res = next(sharepoint2text.read_file(str(p)))
            data = res.sheets[0].data
            tags = {type(None): "null", str: "str", bool: "bool", int: "int", float: "num"}
            for ri in range(0, len(raw)):
                for ci, cell in enumerate(raw[ri]):
                    stored = data[ri][ci] if ri < len(data) and ci < len(data[ri]) else None
                    events.append({"a": "Cell", "kind": type(cell).__name__, "row": "header" if ri == 0 else "data",
                                   "out": tags.get(type(stored), "py"), "exc": f"stored {type(stored).__name__}",
                                   "src": f"generated {p.name} R{ri + 1}C{ci + 1}"})
        p = wd / "typed.ods"
        _typed_ods(p)
        files.append((str(p), "generated typed.ods"))

    def lib_json(results, binary):
        return [json.loads(json.dumps(serialize_extraction(r, include_binary=binary))) for r in results]

    def jt(x):
        return "obj" if isinstance(x, dict) else "arr" if isinstance(x, list) else "other"

    def has_binary(v):
        if v["t"] in ("bytes", "bytesio"):
            return True
        return any(has_binary(x) for x in v.get("xs", ())) or any(has_binary(x) for _, x in v.get("kv", ())) \
            or any(has_binary(x) for _, x in v.get("f", ()))

    def run_variants(obj, src):
        """RoundTrip events of one live object: as extracted, and -- when it holds BytesIO payloads -- again
        after a caller read the streams to the end / to the middle.  Returns False if not serialisable."""
        keep = 0
        e = None
        for keep in (0, 3, 1):
            e = execute(obj, keep)
            if e["_nodes"] <= NODE_CAP:
                break
        e["src"] = src
        e["_suspect"] = has_marker_dict(e["v"])
        events.append(e)
        for where in ("end", "mid"):
            if not set_positions(obj, where):
                break
            d = execute(obj, keep)
            d["src"] = f"{src}, streams read to the {where}"
            d["_suspect"] = has_marker_dict(d["v"])
            events.append(d)
        set_positions(obj, "start")
        return e["j"]["t"] != "error"

    # multi-result inputs whose units carry binary payloads: archives of repo fixtures with pictures
    if job["gen"] == "sheets":
        import random
        import zipfile
        cands = []
        for f in job["all_files"]:
            ext = os.path.splitext(f)[1].lower()
            if ext not in (".docx", ".pptx", ".xlsx", ".pdf", ".odt", ".odp", ".ods", ".epub") or "password" in f \
                    or any(os.path.splitext(c)[1].lower() == ext for c in cands) or os.path.getsize(f) > 3_000_000:
                continue
            try:
                rs = list(sharepoint2text.read_file(f))
                if len(rs) == 1 and any(has_binary(Proj().py(u)) for u in rs[0].iterate_units()):
                    cands.append(f)
            except Exception:
                pass
            if len(cands) >= 6:
                break
        if len(cands) < 2:
            raise SystemExit("no two fixtures whose units carry binary payloads: cannot build the multi-result CLI input")
        random.Random(f"{job['seed']}:zip").shuffle(cands)
        for k, members in enumerate([cands[:2], cands[2:5] or cands[:2]]):
            zp = wd / f"bundle{k}.zip"
            with zipfile.ZipFile(zp, "w", zipfile.ZIP_DEFLATED) as z:
                for m in members:
                    z.write(m, arcname=os.path.basename(m))
            files.append((str(zp), f"generated bundle{k}.zip of " + "+".join(os.path.basename(m) for m in members)))

    for path, rel in files:
        try:
            results = list(sharepoint2text.read_file(path))
        except Exception as e:
            notes.append(f"{rel}: not extractable ({type(e).__name__})")
            continue
        if not results:
            continue
        serialisable = True
        for ri, r in enumerate(results):
            serialisable = run_variants(r, f"{rel}#{ri}") and serialisable
            try:
                units = list(r.iterate_units())
            except Exception as ex:
                notes.append(f"{rel}: iterate_units raised {type(ex).__name__}")
                units = []
            for ui in sorted(set(list(range(min(3, len(units)))) + ([len(units) - 1] if units else []))):
                run_variants(units[ui], f"{rel}#{ri} unit {ui + 1}")
            # the other public serialisation entries: images, their ImageMetadata, tables, the file metadata
            try:
                imgs = list(r.iterate_images())
                tabs = list(r.iterate_tables())
                extra = [(f"image {k_ + 1}", im) for k_, im in enumerate(imgs) if k_ < 2 or k_ == len(imgs) - 1]
                extra += [(f"image {k_ + 1} get_metadata()", im.get_metadata()) for k_, im in enumerate(imgs) if k_ < 1]
                extra += [(f"table {k_ + 1}", t) for k_, t in enumerate(tabs) if k_ < 2]
                extra.append(("get_metadata()", r.get_metadata()))
            except Exception as ex:
                notes.append(f"{rel}: accessor raised {type(ex).__name__}")
                extra = []
            for what_, obj_ in extra:
                if dataclasses.is_dataclass(obj_) and type(obj_).__name__ in registry:
                    run_variants(obj_, f"{rel}#{ri} {what_}")
        if not serialisable:
            continue                    # already reported by the RoundTrip event; the CLI cannot do better
        # CLI, only where two fresh library extractions agree (determinism is C06's business); the result
        # JSON is taken before the units are iterated (an accessor may write into the object)
        try:
            snaps, objs = [], None
            for _ in range(2):
                fresh = list(sharepoint2text.read_file(path))
                rj = {b: lib_json(fresh, b) for b in (False, True)}
                uobjs = [list(r.iterate_units()) for r in fresh]
                uj = {b: [lib_json(us, b) for us in uobjs] for b in (False, True)}
                snaps.append((rj, uj))
                objs = objs or (fresh, uobjs)
            stable = snaps[0] == snaps[1]
        except Exception:
            stable = False
        if not stable:
            notes.append(f"{rel}: two extractions differ, CLI comparison skipped")
            continue
        fresh, uobjs = objs
        multi = len(results) > 1
        for mode, flag in (("json", "--json"), ("unit", "--json-unit")):
            for binary in (False, True):
                buf, err = io.StringIO(), io.StringIO()
                with contextlib.redirect_stdout(buf), contextlib.redirect_stderr(err):
                    try:
                        rc = cli.main([flag, path] + (["--binary"] if binary else []))
                    except BaseException as ex:  # noqa
                        rc = f"raised {type(ex).__name__}"
                top = inner = "-"
                eq = False
                parsed = None
                try:
                    parsed = json.loads(buf.getvalue())
                    top = jt(parsed)
                    if top == "arr" and parsed:
                        inner = jt(parsed[0])
                    lib = snaps[0][0 if mode == "json" else 1][binary]
                    eq = parsed == lib or (len(lib) == 1 and parsed == lib[0])
                except Exception:
                    top = "unparsable"
                events.append({"a": "Cli", "mode": mode, "binary": binary, "n": len(results), "rc": rc if isinstance(rc, int) else -1,
                               "top": top, "inner": inner, "eq": eq, "src": rel})
                # every item of the output against the object it was made from (multi-result inputs, and
                # single results that are small): TLC decides the binary-exclusion law per result / unit
                if parsed is None:
                    continue
                per_result = parsed if multi else [parsed]
                if not isinstance(per_result, list) or len(per_result) != len(fresh):
                    continue              # wrong shape: the Cli event above is rejected
                pairs = []
                for i, r in enumerate(fresh):
                    if mode == "json":
                        pairs.append((r, snaps[0][0][True][i], per_result[i], f"result {i}"))
                    elif isinstance(per_result[i], list) and len(per_result[i]) == len(uobjs[i]):
                        for k_, u in enumerate(uobjs[i]):
                            if k_ < 3 or k_ == len(uobjs[i]) - 1:
                                pairs.append((u, snaps[0][1][True][i][k_], per_result[i][k_], f"result {i} unit {k_ + 1}"))
                for obj, full, item, what in pairs:
                    ev_ = None
                    for keep in (0, 3, 1):
                        p = Proj(keep)
                        ev_ = {"a": "CliItem", "mode": mode, "binary": binary, "cls": type(obj).__name__,
                               "v": p.py(obj), "j": p.js(full), "cli": p.js(item),
                               "src": f"{rel} {what}", "_enc": p.enc, "_dec": p.dec, "_classes": sorted(p.classes),
                               "_nodes": p.nodes}
                        if p.nodes <= NODE_CAP:
                            break
                    if multi or ev_["_nodes"] <= 300:
                        events.append(ev_)
    return {"events": events, "notes": notes}


if __name__ == "__main__":
    if sys.argv[1] == "worker":
        from ..repo import activate
        activate()
        job = json.loads(Path(sys.argv[3]).read_text())
        res = {"schema": _w_schema, "instances": _w_instances, "fixtures": _w_fixtures,
               "clienv": _w_clienv, "payloads": _w_payloads}[sys.argv[2]](job)
        Path(sys.argv[4]).write_text(json.dumps(res))
