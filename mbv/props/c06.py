"""C06 -- extraction is deterministic and side-effect free; observing a result is idempotent.
Specs: Result.tla (observer / re-extraction actions, action properties, named deviations),
ResultTrace.tla (trace validation).

spec -> code: TLC's reachable states of Result.tla carry every history of <= 3 actions; the
observer-only histories are executed literally on fresh results of every content type
(one generated document with text, table and images per format, plus repository fixtures),
recording the canonical-JSON digest after every call.
code -> spec: the recorded Obs / Reextract / Input events are validated by TLC: every step must
leave the digest unchanged (digest ids: equal id <=> equal sha256)."""
from __future__ import annotations

import hashlib
import io
import json
import os
import random
import subprocess
import sys
from concurrent.futures import ProcessPoolExecutor
from pathlib import Path

from .. import PY, REPO, VERIF
from ..repo import child_env
from ..tlaval import iter_dump, to_tla
from ..tlc import MachineryError, run_tlc
from ..traces import validate

OBSERVERS = ["FullText", "Units", "UnitDeep", "Images", "ImageBytes", "Tables", "Metadata", "ToJson"]
RICH_FORMATS = ["doc", "docx", "odt", "html", "mhtml", "epub", "rtf", "pptx", "ppt", "odp", "odg", "xlsx", "ods", "xls", "odf", "pdf",
                "txt", "md", "csv", "tsv", "json"]
SKIP_FIXTURE_PARTS = ("password", "protected", "encrypted")


# ----------------------------------------------------------------------------- worker-side helpers
def _digest(results) -> str:
    blob = json.dumps([r.to_json() for r in results], sort_keys=True, default=repr)
    return hashlib.sha256(blob.encode("utf-8", "surrogatepass")).hexdigest()


def _observe(results, kind):
    """One observer call of the given kind on every result; returns the sha256 of what the calls returned (texts, unit
    texts, the bytes READ from every picture stream, tables, metadata, JSON)."""
    out = []

    def rec(x):
        out.append(x)
        return x
    for r in results:
        if kind == "FullText":
            rec(r.get_full_text())
        elif kind == "Units":
            rec(len(list(r.iterate_units())))
        elif kind == "UnitDeep":
            for u in r.iterate_units():
                rec(u.get_text())
                for i in u.get_images():
                    rec(repr(i.get_metadata()))
                for t in u.get_tables():
                    rec(repr(t.get_table()))
                rec(repr(u.get_metadata()))
                if hasattr(u, "to_json"):
                    rec(json.dumps(u.to_json(), sort_keys=True, default=repr))
        elif kind == "Images":
            rec(len(list(r.iterate_images())))
        elif kind == "ImageBytes":
            for i in r.iterate_images():
                rec(hashlib.sha256(i.get_bytes().read()).hexdigest())
                rec(i.get_content_type())
                rec(i.get_caption())
                rec(i.get_description())
                rec(repr(i.get_metadata()))
        elif kind == "Tables":
            for t in r.iterate_tables():
                rec(repr(t.get_table()))
                rec(repr(t.get_dim()))
        elif kind == "Metadata":
            rec(repr(r.get_metadata()))
        elif kind == "ToJson":
            rec(json.dumps(r.to_json(), sort_keys=True, default=repr))
        else:
            raise ValueError(kind)
    return hashlib.sha256(json.dumps(out, default=repr).encode("utf-8", "surrogatepass")).hexdigest()


def _raw_streams(results):
    """Every BytesIO object stored in the results (picture payloads, attachments, ...), found by walking the dataclass
    tree: the streams a caller may hold a reference to."""
    import dataclasses
    found, seen = [], set()

    def walk(x, depth=0):
        if id(x) in seen or depth > 12:
            return
        if isinstance(x, io.BytesIO):
            seen.add(id(x))
            found.append(x)
        elif dataclasses.is_dataclass(x) and not isinstance(x, type):
            seen.add(id(x))
            for f in dataclasses.fields(x):
                walk(getattr(x, f.name, None), depth + 1)
        elif isinstance(x, (list, tuple)):
            for y in x:
                walk(y, depth + 1)
        elif isinstance(x, dict):
            for y in x.values():
                walk(y, depth + 1)
    for r in results:
        walk(r)
    return found


def _load(doc):
    """doc = {"id", "fmt", "data": bytes} (generated) or {"id", "path"} (fixture) -> (extractor call)."""
    from ..repo import activate
    activate()
    import warnings
    warnings.simplefilter("ignore")
    import sharepoint2text
    if "path" in doc:
        data = Path(doc["path"]).read_bytes()
        fn = sharepoint2text.get_extractor(doc["path"])
        name = doc["path"]
    else:
        from ..docrun import EXTRACTOR
        import importlib
        from sharepoint2text.parsing.router import _EXTRACTOR_REGISTRY
        mod, fname = _EXTRACTOR_REGISTRY[doc["fmt"]]
        fn = getattr(importlib.import_module(mod), fname)
        data = doc["data"]
        name = "gen." + doc["fmt"]
    return fn, data, name


def _same(buf, data) -> bool:
    """The caller's buffer still holds what it held (a buffer the library closed holds nothing any more)."""
    try:
        return buf.getvalue() == data
    except ValueError:
        return False


def _extract(doc, name=None):
    fn, data, name0 = _load(doc)
    buf = io.BytesIO(data)
    results = list(fn(buf, name or name0))
    return results, _same(buf, data)


def _history_job(job):
    """Run the observer histories of one document; returns one event list per history."""
    doc, histories, partners = job
    out = []
    try:
        for n, h in enumerate(histories):
            results, same = _extract(doc)
            d0 = _digest(results)
            evs = [("Input", same)]
            first = {}
            streams = _raw_streams(results)
            for k in h:
                # an observer that hands no stream to the caller leaves every stored stream where it stands (a handle the
                # caller took earlier still reads what it read before): ImageBytes is the one observer that reads streams
                before = [b.tell() for b in streams]
                val = _observe(results, k)
                moved = k != "ImageBytes" and [b.tell() for b in streams] != before
                evs.append(("Obs", k, _digest(results), 0 if first.setdefault(k, val) == val and not moved else 1))
            if streams and n == 0:
                # ... and the digest itself: to_json() with the stored streams standing at 0, in the middle, at the end
                for b in streams:
                    b.seek(0)
                positions = []
                for frac in (0, 2, 1):
                    for b in streams:
                        b.seek(len(b.getvalue()) // frac if frac else 0)
                    at = [b.tell() for b in streams]
                    dg = _digest(results)
                    positions.append(dg == d0 and [b.tell() for b in streams] == at)
                for b in streams:
                    b.seek(0)
                evs.append(("Obs", "ToJson", d0 if all(positions) else "moved-or-position-dependent", 0 if all(positions) else 1))
            # other extractions in the same process while the result is held: the same bytes under another path, then
            # other documents (of the same family first); the held result must stay what it is
            held = []
            for q, other in enumerate([doc] + list(partners[:2 if n else len(partners)])):
                try:
                    held.append(_extract(other, name=f"elsewhere/dir {q}/other-{q}." + (other.get("fmt") or Path(other["path"]).suffix.lstrip(".")))[0])
                except Exception:
                    pass
                evs.append(("Other", _digest(results)))
            results2, _ = _extract(doc)
            evs.append(("Reextract", "same", 0, _digest(results2)))
            if n < 2:
                # the result is a function of the BYTES: where the caller's stream happens to stand is no input --
                # the same buffer object a second time (it stands wherever the first extraction left it), and buffers
                # the caller has read from before (position in the middle / at the end)
                fn, data, name = _load(doc)
                buf = io.BytesIO(data)
                list(fn(buf, name))
                for pos in (None, len(data) // 2, len(data)):
                    if pos is not None:
                        buf = io.BytesIO(data)
                        buf.seek(pos)
                    try:
                        dg = _digest(list(fn(buf, name)))
                    except Exception as e:
                        dg = f"EXC:{type(e).__name__}"
                    evs.append(("Reextract", "same", 0, dg))
            out.append((d0, evs))
    except Exception as e:
        return {"exc": f"{type(e).__name__}: {e}"[:300]}
    return {"runs": out}


def _one_digest(d):
    try:
        results, _ = _extract(d)
        return d["id"], _digest(results)
    except Exception as e:
        return d["id"], f"EXC:{type(e).__name__}"


def _purity_job(doc):
    """Damaged variants of one document: whatever the extractor does (results or an error), the caller's
    buffer content must be what it was."""
    out = []
    try:
        fn, data, name = _load(doc)
    except Exception as e:
        return {"exc": f"{type(e).__name__}: {e}"[:200]}
    n = len(data)
    variants = [("cut50", data[: n // 2]), ("cut90", data[: n * 9 // 10]), ("cut-22", data[: max(0, n - 22)]),
                ("cut-1", data[: n - 1]), ("zero-tail", data[: n * 3 // 4] + b"\0" * (n - n * 3 // 4)),
                ("flip-mid", data[: n // 2] + bytes([data[n // 2] ^ 0xFF]) + data[n // 2 + 1:] if n > 2 else data)]
    for tag, blob in variants:
        buf = io.BytesIO(blob)
        try:
            for _ in fn(buf, name):
                pass
        except Exception:
            pass
        out.append((tag, _same(buf, blob)))
    return {"purity": out}


def _fresh_digests(docs_file, out_file, mode="seq"):
    """mode seq: all documents one after the other in THIS process, in an order derived from PYTHONHASHSEED
    (0: as listed, 1: reversed, other: shuffled) -- history-dependent state shows up as a digest change.
    mode iso: every document in its own freshly forked child (isolated baseline)."""
    docs = json.loads(Path(docs_file).read_text())
    for d in docs:
        if "data_hex" in d:
            d["data"] = bytes.fromhex(d.pop("data_hex"))
    res = {}
    if mode == "iso":
        from ..repo import activate
        activate()
        import multiprocessing
        import sharepoint2text  # noqa: imported before forking, nothing extracted yet
        with multiprocessing.get_context("fork").Pool(processes=8, maxtasksperchild=1) as pool:
            res = dict(pool.map(_one_digest, docs, chunksize=1))
    else:
        seed = int(os.environ.get("PYTHONHASHSEED", "0") or 0)
        order = list(docs)
        if seed == 1:
            order.reverse()
        elif seed not in (0, 1):
            random.Random(seed).shuffle(order)
        for d in order:
            k, v = _one_digest(d)
            res[k] = v
    Path(out_file).write_text(json.dumps(res))


# ----------------------------------------------------------------------------- driver

def _zip_edit(data, drop=(), add=None, patch=None):
    """A copy of a ZIP package without the members in drop, with the members of add, and with patch[name](bytes) applied."""
    import zipfile
    src = zipfile.ZipFile(io.BytesIO(data))
    out = io.BytesIO()
    with zipfile.ZipFile(out, "w") as z:
        for info in src.infolist():
            if info.filename in drop:
                continue
            blob = src.read(info.filename)
            if patch and info.filename in patch:
                blob = patch[info.filename](blob)
            z.writestr(info.filename, blob, zipfile.ZIP_STORED if info.filename == "mimetype" else zipfile.ZIP_DEFLATED)
        for name, blob in (add or {}).items():
            z.writestr(name, blob, zipfile.ZIP_DEFLATED)
    return out.getvalue()


FAMILY = {**{f: "odf" for f in ("odt", "ods", "odp", "odg", "odf")}, **{f: "ooxml" for f in ("docx", "xlsx", "pptx")},
          **{f: "web" for f in ("html", "mhtml", "epub")}, **{f: "ole" for f in ("doc", "ppt", "xls")},
          **{f: "mail" for f in ("eml", "mbox")}, **{f: "arch" for f in ("7z", "zip", "tgz")}}

def _fixtures(limit_bytes=600_000):
    root = REPO / "sharepoint2text" / "tests" / "resources"
    out = []
    for p in sorted(root.rglob("*")):
        if not p.is_file() or p.stat().st_size > limit_bytes or p.stat().st_size == 0:
            continue
        if any(s in p.name.lower() for s in SKIP_FIXTURE_PARTS):
            continue
        out.append(p)
    return out


def run(ctx):
    ev, v = ctx.ev, ctx.v
    rng = random.Random(ctx.seed)
    seeds = [0, 1, 2, 1000 + ctx.seed % 1000]
    # ---- TLC on the specification
    cfg = ('SPECIFICATION Spec\nCONSTANTS Types = {"odt", "docx", "pdf"}\n Seeds = {0, 1, 2}\n MaxHist = 3\n'
           " Deviations = {}\nPROPERTY Prop_DigestStable\nPROPERTY Prop_InputUntouched\nPROPERTY Prop_ValuesStable\nINVARIANT Inv_Digest\n")
    dump = ctx.scratch / "result.dump"
    r = run_tlc("Result", cfg, scratch=ctx.scratch, dump=dump)
    ev.tlc("Result: all histories of <= 3 observer / re-extraction actions leave digest and input unchanged", r)
    if r.violated:
        v.violation(what=f"Result.tla: {r.violated} violated on the specification")
    for dv in ("Odt!UnitIteratorWritesImageUnitName", "StylesFromSet", "Image!StreamNotRewound", "SharedDefaultObject"):
        rs = run_tlc("Result", cfg.replace("Deviations = {}", f'Deviations = {{"{dv}"}}'), scratch=ctx.scratch, expect_fail=True)
        ev.tlc(f"Result sensitivity: deviation {dv} must violate digest stability", rs, note="expected violation")
        if not rs.violated:
            raise MachineryError(f"sensitivity run for {dv} did not fail")
    hists = sorted({tuple(str(x) for x in s["hist"]) for s in iter_dump(dump)
                    if s["hist"] and all(isinstance(x, str) for x in s["hist"])})
    if not all(k in OBSERVERS for h in hists for k in h):
        raise MachineryError("unexpected observer names in the Result.tla dump")
    ctx.log(f"{len(hists)} observer histories from the TLC dump")

    # ---- documents
    from ..docrun import render, rich_doc
    docs = []
    for f in RICH_FORMATS:
        docs.append({"id": f"gen:{f}", "fmt": f, "data": render(rich_doc(f, ctx.seed), f), "type": f})
    plain = rich_doc("pptx", ctx.seed)
    for sl in plain["slides"]:
        sl["comments"] = []
    docs.append({"id": "gen:pptx-plain", "fmt": "pptx", "data": render(plain, "pptx"), "type": "pptx"})
    # workbooks / documents whose core properties name who modified them last but store no dates (or only one of them):
    # a result must not contain the time of the extraction
    for f in ("xlsx", "docx", "pptx"):
        for tag, extra in (("nodates", {"last_modified_by": "Re Viewer"}),
                           ("createdonly", {"last_modified_by": "Re Viewer", "created": "2024-01-02T03:04:05Z"}),
                           ("modifiedonly", {"modified": "2024-01-02T03:04:05Z"})):
            dd = rich_doc(f, ctx.seed)
            dd["props"] = dict(dd.get("props") or {}, **extra)
            docs.append({"id": f"gen:{f}-{tag}", "fmt": f, "data": render(dd, f), "type": f})
    # RTF with several kinds of headers and footers (collections whose order must not depend on the hash seed)
    from ..docmodel import word
    rr = rich_doc("rtf", ctx.seed)
    rr["header"], rr["footer"] = [["r", 41]], [["r", 42]]
    rr["hf_extra"] = [("headerf", [["r", 43]]), ("headerl", [["r", 44]]), ("headerr", [["r", 45]]),
                      ("footerf", [["r", 46]]), ("footerl", [["r", 47]]), ("footerr", [["r", 48]])]
    docs.append({"id": "gen:rtf-headers", "fmt": "rtf", "data": render(rr, "rtf"), "type": "rtf"})
    # sloppy table markup (cells without a row, rows without a table): parser state that must not outlive the parse
    sloppy = ("<html><head><title>t</title></head><body><p>" + word(1) + "</p><table><td>" + word(2) + "</td><td>" + word(3)
              + "</td></table><tr><td>" + word(4) + "</td></tr><table><tr><td>" + word(5) + "</td></tr></table></body></html>")
    docs.append({"id": "gen:html-sloppy", "fmt": "html", "data": sloppy.encode(), "type": "html"})
    from ..writers import web as _web
    docs.append({"id": "gen:epub-sloppy", "fmt": "epub", "type": "epub",
                 "data": _web.write_epub({"chapters": [{"raw_xhtml": sloppy}], "props": {"title": "S"}}, opf_dir="OEBPS")})
    # mailbox / message with several recipients per header (address collections must keep their order)
    msg = ("From: A One <a1@example.invalid>\r\nTo: B Two <b2@example.invalid>, c3@example.invalid, \"D, Four\" <d4@example.invalid>,"
           " e5@example.invalid\r\nCc: f6@example.invalid, G Seven <g7@example.invalid>, h8@example.invalid\r\n"
           "Reply-To: r1@example.invalid, r2@example.invalid, r3@example.invalid\r\nSubject: " + word(1) + "\r\n"
           "Date: Tue, 02 Jan 2024 03:04:05 +0000\r\nMessage-ID: <m1@example.invalid>\r\nMIME-Version: 1.0\r\n"
           "Content-Type: text/plain; charset=utf-8\r\n\r\n" + word(2) + " body\r\n")
    docs.append({"id": "gen:eml-recipients", "fmt": "eml", "data": msg.encode(), "type": "eml"})
    mb = "".join("From sender@example.invalid Tue Jan  2 03:04:05 2024\n" + msg.replace("\r\n", "\n").replace("m1@", f"m{k}@") + "\n"
                 for k in (1, 2))
    docs.append({"id": "gen:mbox-recipients", "fmt": "mbox", "data": mb.encode(), "type": "mbox"})
    # a 7z archive (own minimal writer of the C10 machinery): the library reads it through its own 7z reader
    from ..c10_sevenz import write_7z
    sz, _ = write_7z([{"name": "a.txt", "kind": "file", "data": (word(1) + " first\n").encode()},
                      {"name": "d/b.md", "kind": "file", "data": ("# " + word(2) + "\n").encode()},
                      {"name": "c.csv", "kind": "file", "data": (word(3) + "," + word(4) + "\n").encode()}], [[0, 1], [2]])
    docs.append({"id": "gen:7z", "fmt": "7z", "data": sz, "type": "7z"})
    import tarfile, zipfile
    zb = io.BytesIO()
    with zipfile.ZipFile(zb, "w", zipfile.ZIP_DEFLATED) as z:
        z.writestr("a.txt", word(1) + " first\n")
        z.writestr("d/b.docx", render(rich_doc("docx", ctx.seed), "docx"))
    docs.append({"id": "gen:zip", "fmt": "zip", "data": zb.getvalue(), "type": "zip"})
    tb = io.BytesIO()
    with tarfile.open(fileobj=tb, mode="w:gz") as t:
        for nm, payload in (("a.txt", (word(1) + " first\n").encode()), ("d/b.md", ("# " + word(2) + "\n").encode())):
            ti = tarfile.TarInfo(nm)
            ti.size = len(payload)
            t.addfile(ti, io.BytesIO(payload))
    docs.append({"id": "gen:tgz", "fmt": "tgz", "data": tb.getvalue(), "type": "tgz"})
    # packages without their optional parts (no meta.xml / no docProps): default objects stand in for what is missing
    from ..writers.images import png as _png
    by_id = {d["id"]: d for d in docs}
    for f in ("odt", "ods", "odp", "odg", "odf"):
        for tag, drop in (("nometa", ("meta.xml",)), ("bare", ("meta.xml", "styles.xml", "settings.xml"))):
            docs.append({"id": f"gen:{f}-{tag}", "fmt": f, "type": f, "data": _zip_edit(by_id[f"gen:{f}"]["data"], drop=drop)})
    for f in ("docx", "xlsx", "pptx"):
        docs.append({"id": f"gen:{f}-noprops", "fmt": f, "type": f,
                     "data": _zip_edit(by_id[f"gen:{f}"]["data"], drop=("docProps/core.xml", "docProps/app.xml"))})
    # image relationships that nothing in the body references (legacy VML pictures, left-overs): several of them, so that
    # an order taken from a set shows under different hash seeds
    rel = ('<Relationship Id="rIdU{k}" Type="http://schemas.openxmlformats.org/officeDocument/2006/relationships/image" '
           'Target="media/unref{k}.png"/>')
    for f, rels_part, media in (("docx", "word/_rels/document.xml.rels", "word/media/"),
                                ("pptx", "ppt/slides/_rels/slide1.xml.rels", "ppt/media/"),
                                ("xlsx", "xl/drawings/_rels/drawing1.xml.rels", "xl/media/")):
        base = by_id[f"gen:{f}"]["data"]
        import zipfile as _zf
        if rels_part not in _zf.ZipFile(io.BytesIO(base)).namelist():
            continue
        extra = "".join(rel.format(k=k) for k in range(1, 7))
        docs.append({"id": f"gen:{f}-unref-images", "fmt": f, "type": f,
                     "data": _zip_edit(base, add={f"{media}unref{k}.png": _png(k, k + 1, seed=k) for k in range(1, 7)},
                                       patch={rels_part: lambda b, extra=extra: b.replace(b"</Relationships>", extra.encode() + b"</Relationships>")})})
    # an EPUB with several documents that look like a table of contents (names with "nav" / "toc", two NCX files)
    def _links(k):
        return ('<?xml version="1.0" encoding="utf-8"?><html xmlns="http://www.w3.org/1999/xhtml"><head><title>n</title></head><body>'
                + "".join(f'<p><a href="ch1.xhtml#s{j}">{word(100 * k + j)}</a></p>' for j in (1, 2, 3)) + "</body></html>").encode()

    def _ncx(k):
        return ('<?xml version="1.0"?><ncx xmlns="http://www.daisy.org/z3986/2005/ncx/" version="2005-1"><navMap>'
                + "".join(f'<navPoint id="p{j}"><navLabel><text>{word(100 * k + j)}</text></navLabel><content src="ch1.xhtml#s{j}"/></navPoint>'
                          for j in (1, 2)) + "</navMap></ncx>").encode()
    cands = [("nav.xhtml", _links(1)), ("navigation-by-the-stars.xhtml", _links(2)), ("toccata.xhtml", _links(3)),
             ("notes/toc-of-notes.xhtml", _links(4)), ("canavan.xhtml", _links(5))]
    items = [{"part": "OEBPS/" + nm, "data": blob, "href": nm, "media": "application/xhtml+xml"} for nm, blob in cands]
    items += [{"part": f"OEBPS/toc{k}.ncx", "data": _ncx(5 + k), "href": f"toc{k}.ncx", "media": "application/x-dtbncx+xml"} for k in (1, 2, 3)]
    docs.append({"id": "gen:epub-many-tocs", "fmt": "epub", "type": "epub",
                 "data": _web.write_epub({"chapters": [rich_doc("epub", ctx.seed)], "props": {"title": "T"}, "images": items},
                                         opf_dir="OEBPS")})
    docs.append({"id": "gen:epub-ncx-only", "fmt": "epub", "type": "epub",
                 "data": _web.write_epub({"chapters": [rich_doc("epub", ctx.seed)], "props": {"title": "T"}, "images": items[len(cands):]},
                                         opf_dir="OEBPS")})
    fixtures = _fixtures()
    if not ctx.thorough:
        rng.shuffle(fixtures)
        fixtures = sorted(fixtures[:30])
    for p in fixtures:
        docs.append({"id": f"fix:{p.relative_to(REPO)}", "path": str(p), "type": p.suffix.lstrip(".").lower()})

    # ---- spec -> code: observer histories
    jobs = []
    for d in docs:
        if d["id"].startswith("gen:"):
            hs = hists if ctx.thorough else [h for h in hists if len(h) <= 2] + rng.sample([h for h in hists if len(h) == 3], 200)
        else:
            hs = rng.sample(hists, 12 if not ctx.thorough else 40)
        fam = FAMILY.get(d.get("fmt") or d["type"], d["type"])
        same = [x for x in docs if x is not d and FAMILY.get(x.get("fmt") or x["type"], x["type"]) == fam]
        # partners: documents of the same family, the variants without optional parts first
        same.sort(key=lambda x: (0 if any(t in x["id"] for t in ("nometa", "bare", "noprops")) else 1, x["id"]))
        jobs.append((d, hs, same[:3]))
    with ProcessPoolExecutor(16) as ex:
        results = list(ex.map(_history_job, jobs))

    # ---- input purity on damaged variants (truncations, zeroed tail, flipped byte)
    with ProcessPoolExecutor(16) as ex:
        purity = list(ex.map(_purity_job, docs))

    # ---- fresh processes with different hash seeds
    docs_file = ctx.scratch / "docs.json"
    docs_file.write_text(json.dumps([{k: (vv if k != "data" else None) for k, vv in d.items() if k != "data"}
                                     | ({"data_hex": d["data"].hex()} if "data" in d else {}) for d in docs]))
    procs = []
    for s in seeds:
        out = ctx.scratch / f"fresh-{s}.json"
        procs.append((s, out, subprocess.Popen([PY, "-m", "mbv.props.c06", "fresh", str(docs_file), str(out)],
                                               env=child_env({"PYTHONHASHSEED": str(s)}), cwd=str(VERIF),
                                               stderr=subprocess.PIPE, text=True)))
    iso_out = ctx.scratch / "iso.json"
    pi = subprocess.run([PY, "-m", "mbv.props.c06", "fresh", str(docs_file), str(iso_out), "iso"],
                        env=child_env({"PYTHONHASHSEED": "0"}), cwd=str(VERIF), capture_output=True, text=True, timeout=1200)
    if pi.returncode != 0:
        raise MachineryError(f"isolated-baseline worker failed:\n{pi.stderr[-1500:]}")
    iso = json.loads(iso_out.read_text())
    fresh = {}
    for s, out, p in procs:
        _, se = p.communicate(timeout=1200)
        if p.returncode != 0:
            raise MachineryError(f"fresh-process worker (seed {s}) failed:\n{se[-1500:]}")
        fresh[s] = json.loads(out.read_text())

    # ---- build traces
    traces = []
    for (d, hs, _), res in zip(jobs, results):
        if "exc" in res:
            # extraction failures of fixtures are not this property's business unless they are nondeterministic
            ev.sample({"doc": d["id"], "skipped": res["exc"]})
            continue
        for n, ((d0, evs), h) in enumerate(zip(res["runs"], hs)):
            ids = {iso.get(d["id"], d0): 0}        # id 0 = digest of the isolated extraction (own fresh child)

            def did(x):
                return ids.setdefault(x, len(ids))
            tev = [{"a": "Reextract", "m": "pool", "s": 0, "d": did(d0)}]   # first extraction in a reused worker
            for e in evs:
                if e[0] == "Input":
                    tev.append({"a": "Input", "same": bool(e[1])})
                elif e[0] == "Obs":
                    tev.append({"a": "Obs", "k": e[1], "d": did(e[2]), "v": e[3]})
                elif e[0] == "Other":
                    tev.append({"a": "Other", "d": did(e[1])})
                else:
                    tev.append({"a": "Reextract", "m": e[1], "s": e[2], "d": did(e[3])})
            if n == 0:
                for s in seeds:
                    tev.append({"a": "Reextract", "m": "fresh", "s": s, "d": did(fresh[s].get(d["id"], "missing"))})
            traces.append({"id": f"{d['id']}#{n}", "hdr": {"type": d["type"], "d0": 0}, "ev": tev, "hist": list(h)})
            if h:
                ev.nontrivial((d["id"], h))
    for d, pr in zip(docs, purity):
        if "purity" in pr:
            traces.append({"id": f"{d['id']}#damaged", "hdr": {"type": d["type"], "d0": 0}, "hist": [t for t, _ in pr["purity"]],
                           "ev": [{"a": "Input", "same": bool(same)} for _, same in pr["purity"]]})
    br = validate("ResultTrace", "SPECIFICATION TraceSpec\nCONSTRAINT TraceAccept\n", traces,
                  scratch=ctx.scratch, parallel=12, min_chunk=300)
    ev.tlc_counts("ResultTrace: recorded histories validated", br.distinct, br.states, br.wall_s)
    for t, tv in zip(traces, br.verdicts):
        if tv.accepted:
            v.ok()
            continue
        # message only: the first event at which TLC stops is the first digest change / input change
        k = next((i for i, e in enumerate(t["ev"]) if e.get("d", 0) != 0 or e.get("same") is False or e.get("v", 0) != 0), 0)
        if tv.reached >= 0 and tv.reached != k:
            raise MachineryError(f"trace diagnosis disagrees for {t['id']}: TLC stopped at {tv.reached}, expected {k}")
        e = t["ev"][k]
        if e["a"] == "Obs" and e.get("d", 0) == 0:
            what = (f"observer {e['k']} returns something else than its first call did for {t['id'].split('#')[0]} "
                    f"(history {t['hist']}): the observation is not idempotent")
        elif e["a"] == "Obs":
            what = (f"observer {e['k']} changed what to_json() returns for {t['id'].split('#')[0]} "
                    f"(history {t['hist']}): digest differs after the call")
        elif e["a"] == "Other":
            what = (f"a held result of {t['id'].split('#')[0]} changed when another input (or the same bytes under another "
                    f"path) was extracted in the same process: results share mutable state")
        elif e["a"] == "Reextract":
            what = (f"re-extraction ({e['m']} process, PYTHONHASHSEED={e['s']}) of {t['id'].split('#')[0]} yields a "
                    f"different to_json() digest")
        else:
            what = f"extraction modified the caller's input buffer for {t['id'].split('#')[0]}"
        v.violation(what=what, case={"doc": t["id"], "history": t["hist"], "events": t["ev"]},
                    where="data_types.py iterate_* / extractor")
    ev.replayed(len(traces))
    for t in traces[:: max(1, len(traces) // 5)]:
        ev.sample({"doc": t["id"], "history": t["hist"], "events": t["ev"][:8]})
    ev.set(rule="observer histories of length <= 3 taken from TLC's reachable states of Result.tla, executed on one "
                "generated document per format (text + table + images) and on repository fixtures; plus same-process and "
                f"fresh-process re-extraction under PYTHONHASHSEED in {seeds}; non-trivial = distinct (document, non-empty "
                "history)", exhaustive=bool(ctx.thorough),
           constants={"observers": OBSERVERS, "seeds": seeds, "documents": len(docs), "histories": len(hists)})
    ev.assume("digest = sha256 of json.dumps(to_json(), sort_keys=True, default=repr) incl. binary payloads",
              "stream position of the input buffer and of image streams is not part of the observation",
              "fixtures larger than 600 kB and protected fixtures are left out")


if __name__ == "__main__":
    if sys.argv[1] == "fresh":
        _fresh_digests(sys.argv[2], sys.argv[3], sys.argv[4] if len(sys.argv) > 4 else "seq")
