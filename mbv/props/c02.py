"""C02 -- main-text fidelity.  Specs: Doc.tla (document algebra, Flatten, Req, Fidelity, deviations),
DocGen.tla / DocGen2.tla (bounded universes of document shapes), DocTrace.tla (trace validation).

spec -> code: every shape TLC enumerates is numbered, rendered by the writers to every format
that can express it, and extracted by the real library.
code -> spec: the projected observation (token ids in output order, separation flags, residue
words) is validated by TLC against Fidelity(FlatDoc(doc), fmt, ...) with Dev = {} (strict).
A rejected trace is re-validated with the deviations of the OPEN known findings switched on; it
is a KNOWN-FINDING only if that as-built relaxation (confined to the finding's domain) accepts it.
"""
from __future__ import annotations

import json
import random

from ..docsuite import FLOW_FORMATS, MULTI, build_jobs, run_suite, validate_with_findings

# finding id -> deviation name (only OPEN findings are consulted)
FINDING_DEV = {
    "KF-C02-08": "Rtf!DeletedLeaks",
    "KF-C02-10": "Xlsx!UnnamedHeaderPlaceholder",
    "KF-C02-11": "Odt!TextboxParagraphsGlued",
    "KF-C02-12": "Ppt!RawFallback",
    "KF-C02-13": "Rtf!RawNewlineIsText",
    "KF-C02-14": "Odp!TextBoxesAfterBody",
    "KF-C02-15": "Ppt!TextBoxesAfterBody",
    "KF-C02-16": "Ppt!PlaceholderLineFilter",
    "KF-C02-17": "Rtf!UControlWordLeaks",
}


def docx_walk_model(ctx, traces):
    """Algorithm-shaped model of the DOCX body walk (DocxWalk.tla): TLC theorem on the document universe,
    sensitivity runs for the three repaired steps, and binding: the real observation equals the model's output."""
    from ..tlc import MachineryError, run_tlc
    from ..traces import validate
    docx = [t for t in traces if t["hdr"]["fmt"] == "docx"]
    docs_file = ctx.scratch / "docxwalk-docs.json"
    docs_file.write_text(json.dumps([t["hdr"]["doc"] for t in docx]))
    cfg = "SPECIFICATION Spec\nCONSTANTS WalkDev = {}\nINVARIANT Inv_WalkOK\n"
    r = run_tlc("DocxWalkCheck", cfg, scratch=ctx.scratch, env={"DOCS_FILE": str(docs_file)}, expect_fail=True)
    ctx.ev.tlc("DocxWalkCheck: modelled DOCX walk satisfies Fidelity on every enumerated document", r)
    if r.violated:
        ctx.v.violation(what="DocxWalk.tla: the modelled DOCX walk violates Fidelity on the specification "
                             "(model and Doc.tla disagree)", observed=r.output[-1500:])
    from ..tlc import run_tlc_many
    wdevs = ("Docx!TabBreakDropped", "Docx!BlockSdtLost", "Docx!NestedTableRepeated", "Docx!TextboxParagraphsGlued")
    wres = run_tlc_many([("DocxWalkCheck", cfg.replace("WalkDev = {}", f'WalkDev = {{"{dv}"}}'),
                          dict(scratch=ctx.scratch, env={"DOCS_FILE": str(docs_file)}, expect_fail=True, workers=4)) for dv in wdevs])
    for dv, rs in zip(wdevs, wres):
        ctx.ev.tlc(f"DocxWalkCheck sensitivity: pre-fix step {dv} must violate Fidelity", rs, note="expected violation")
        if not rs.violated:
            raise MachineryError(f"sensitivity run for {dv} did not fail")
    br = validate("DocxWalkTrace", "SPECIFICATION TraceSpec\nCONSTANTS WalkDev = {}\nCONSTRAINT TraceAccept\n", docx,
                  scratch=ctx.scratch, parallel=10, min_chunk=100)
    ctx.ev.tlc_counts("DocxWalkTrace: real DOCX observations equal the walk model's output", br.distinct, br.states, br.wall_s)
    for t, tv in zip(docx, br.verdicts):
        if tv.accepted:
            ctx.v.ok()
        else:
            e = t["ev"][0]
            ctx.v.violation(what="read_docx().get_full_text() differs from the algorithm model DocxWalk.tla: observed tokens "
                                 f"{e['obs']} sep {e['sep']}; body {json.dumps(t['hdr']['doc']['units'][0]['blocks'])[:300]}",
                            case={"fmt": "docx", "doc": t["hdr"]["doc"], "event": e}, observed=t.get("raw"),
                            where="docx_extractor.py:_extract_full_text_from_body/_extract_table_text/_process_text_element")
    ctx.ev.replayed(len(docx))


def odt_walk_model(ctx, traces):
    """Algorithm-shaped model of the ODT body walk (OdtWalk.tla): TLC theorem on the document universe, sensitivity runs
    for the as-built text-box step and three repaired steps, and binding: the real observation equals the model's output
    (strict first; with the as-built step of KF-C02-11 while that finding is open)."""
    from ..tlaval import to_tla
    from ..tlc import MachineryError, run_tlc_many
    odt = [t for t in traces if t["hdr"]["fmt"] == "odt" and len(t["hdr"]["doc"]["units"]) == 1]
    if not odt:
        return
    docs_file = ctx.scratch / "odtwalk-docs.json"
    docs_file.write_text(json.dumps([t["hdr"]["doc"] for t in odt]))
    cfg = "SPECIFICATION Spec\nCONSTANTS WalkDev = {}\nINVARIANT Inv_WalkOK\n"
    wdevs = ("Odt!TextboxParagraphsGlued", "Odt!HeadingInListLost", "Odt!NestedRepeated", "Odt!TrackedDeletionLeaks")
    res = run_tlc_many([("OdtWalkCheck", cfg, dict(scratch=ctx.scratch, env={"DOCS_FILE": str(docs_file)}, expect_fail=True, workers=4))]
                       + [("OdtWalkCheck", cfg.replace("WalkDev = {}", f'WalkDev = {{"{dv}"}}'),
                           dict(scratch=ctx.scratch, env={"DOCS_FILE": str(docs_file)}, expect_fail=True, workers=3)) for dv in wdevs])
    r = res[0]
    ctx.ev.tlc("OdtWalkCheck: modelled ODT walk satisfies Fidelity on every enumerated document", r)
    if r.violated:
        ctx.v.violation(what="OdtWalk.tla: the modelled ODT walk violates Fidelity on the specification "
                             "(model and Doc.tla disagree)", observed=r.output[-1500:])
    for dv, rs in zip(wdevs, res[1:]):
        ctx.ev.tlc(f"OdtWalkCheck sensitivity: step {dv} must violate Fidelity", rs, note="expected violation")
        if not rs.violated:
            raise MachineryError(f"sensitivity run for {dv} did not fail")

    def cfgfn(dev):
        return f"SPECIFICATION TraceSpec\nCONSTANTS WalkDev = {to_tla(set(dev))}\nCONSTRAINT TraceAccept\n"
    validate_with_findings(ctx, "OdtWalkTrace", odt, {"KF-C02-11": "Odt!TextboxParagraphsGlued"},
                           lambda t, e: ("read_odt().get_full_text() differs from the algorithm model OdtWalk.tla: observed tokens "
                                         f"{e.get('obs')} sep {e.get('sep')}; body {json.dumps(t['hdr']['doc']['units'][0]['blocks'])[:300]}"),
                           lambda t: "odt_extractor.py:_extract_full_text/_append_full_text_from_element; _shared.py:element_text",
                           cfg=cfgfn)
    ctx.ev.replayed(len(odt))


# ----------------------------------------------------------------------------- RTF body stripper: token-level model
_RTF_TOKEN = {"SP": " ", "LF": "\n", "CR": "\r", "PAR": "\\par", "LINE": "\\line", "TAB": "\\tab", "PAGE": "\\page",
              "SBK": "\\sbkpage", "CW": "\\b", "CWN": "\\fs24", "CWNEG": "\\li-120", "HEX": "\\'e9", "UNI": "\\u233?",
              "ESCB": "\\{", "HEXBAD": "\\'zz", "UL": "\\ul ", "UC": "\\uc1 ", "OPEN": "{", "OPENCW": "{\\b", "OPENSTAR": "{\\*\\xdest", "OPENNAMED": "{\\pict", "CLOSE": "}"}
_RTF_CONTROL = {"PAR", "LINE", "TAB", "PAGE", "SBK", "CW", "CWN", "CWNEG", "OPENCW", "OPENSTAR", "OPENNAMED"}


def _rtf_render(toks):
    """Token stream -> RTF source text.  A control word is followed by its delimiter blank, except (every second time)
    where the next token starts with a backslash or a brace and the blank is optional."""
    from ..docmodel import word
    out = []
    for j, (k, n) in enumerate(toks):
        if k == "W":
            out.append(word(n))
            continue
        out.append(_RTF_TOKEN[k])
        if k in _RTF_CONTROL:
            nxt = toks[j + 1][0] if j + 1 < len(toks) else None
            optional = nxt is not None and nxt not in ("W", "SP", "LF", "CR")
            if not (optional and j % 2 == 0):
                out.append(" ")
    return "".join(out)


def _rtf_atoms(text):
    from ..docmodel import TOKEN_RE
    out, i = [], 0
    while i < len(text):
        m = TOKEN_RE.match(text, i)
        if m:
            out.append(["w", int(m.group(1) or m.group(2) or m.group(3))])
            i = m.end()
        elif text[i].isspace():
            j = i
            while j < len(text) and text[j].isspace():
                j += 1
            out.append(["s", 0])          # (which white space it is does not matter: see RtfStripDefs!Canon)
            i = j
        else:
            out.append(["c", {"\u00e9": 1, "{": 2}.get(text[i], 1000 + ord(text[i]) % 1000)])
            i += 1
    return out


def _rtf_strip_job(streams):
    from ..repo import activate
    activate()
    import warnings
    warnings.simplefilter("ignore")
    from sharepoint2text.parsing.extractors.ms_legacy import rtf_extractor as mod
    cls = getattr(mod, "_RtfParser", None)
    if cls is None or not hasattr(cls, "_strip_rtf_full_with_pages"):
        return {"skip": "rtf_extractor._RtfParser._strip_rtf_full_with_pages not found"}
    out = []
    for toks in streams:
        src = _rtf_render(toks)
        try:
            p = cls(b"")
            res = p._strip_rtf_full_with_pages(src)
            out.append({"src": src, "result": _rtf_atoms(res), "pages": [_rtf_atoms(x) for x in p.pages]})
        except Exception as e:
            out.append({"src": src, "exc": f"{type(e).__name__}: {e}"[:200]})
    return {"obs": out}


def rtf_strip_model(ctx):
    """RtfStrip.tla: TLC theorems on the token-stream universe, sensitivity runs for the two named deviations, and the
    binding: the real stripper's result and pages equal the model's for every stream of the universe."""
    from concurrent.futures import ProcessPoolExecutor
    from ..docrun import from_tla
    from ..docsuite import validate_with_findings
    from ..tlaval import iter_dump, to_tla
    from ..tlc import MachineryError, run_tlc
    rich = "TRUE" if ctx.thorough else "FALSE"
    invs = "".join(f"INVARIANT {i}\n" for i in ("Inv_StepAgreesWithFunction", "Inv_HiddenNeverShown", "Inv_VisibleOnceInOrder",
                                                  "Inv_SeparatorsFaithful", "Inv_PagesPartition", "Inv_NothingInvented"))
    cfg = f"SPECIFICATION Spec\nCONSTANTS WalkDev = {{}}\n Rich = {rich}\n{invs}PROPERTY Prop_Terminates\n"
    from ..tlc import run_tlc_many
    devs = ("Rtf!NestedDestinationEndsSkip", "Rtf!RawNewlineIsText", "Rtf!UControlWordLeaks")
    dump = ctx.scratch / "rtfgen.dump"
    res = run_tlc_many(
        [("RtfStrip", cfg, dict(scratch=ctx.scratch, expect_fail=True, heap="8g", workers=8, timeout=3000))]
        + [("RtfStrip", cfg.replace("WalkDev = {}", f'WalkDev = {{"{dv}"}}').replace(f"Rich = {rich}", "Rich = FALSE"),
            dict(scratch=ctx.scratch, expect_fail=True, heap="4g", workers=4)) for dv in devs]
        + [("RtfStrip", f"SPECIFICATION GenSpec\nCONSTANTS WalkDev = {{}}\n Rich = {rich}\n",
            dict(scratch=ctx.scratch, dump=dump, heap="4g", workers=4))], max_parallel=5)
    r, rg = res[0], res[-1]
    ctx.ev.tlc("RtfStrip: hidden destinations never shown, visible words once and in order, separators faithful, pages partition", r)
    if r.violated:
        ctx.v.violation(what=f"RtfStrip.tla: the strict stripper model violates {r.violated}", observed=r.output[-1500:])
    for dv, rs in zip(devs, res[1:-1]):
        ctx.ev.tlc(f"RtfStrip sensitivity: step {dv} must violate a theorem", rs, note="expected violation")
        if not rs.violated:
            raise MachineryError(f"RtfStrip sensitivity run for {dv} did not fail")
    ctx.ev.tlc("RtfStrip GenSpec: token streams", rg)
    streams = sorted((from_tla(st["toks"]) for st in iter_dump(dump)), key=lambda g: json.dumps(g))
    if len(streams) != rg.distinct:
        raise MachineryError(f"RtfStrip dump {len(streams)} != {rg.distinct}")
    streams = [s_ for s_ in streams if s_]
    chunks = [streams[k:k + 1500] for k in range(0, len(streams), 1500)]
    # the stripper is a hand-written loop: a chunk that does not come back within the budget is reported (the process
    # pool is abandoned, its workers are killed)
    ex = ProcessPoolExecutor(16)
    futs = [ex.submit(_rtf_strip_job, ch) for ch in chunks]
    obs = []
    import concurrent.futures as cf
    try:
        for ch, f in zip(chunks, futs):
            try:
                obs.append(f.result(timeout=600))
            except cf.TimeoutError:
                ctx.v.violation(what="the RTF body stripper did not return within 600 s on a chunk of generated token streams "
                                     f"(first source: {_rtf_render(ch[0])!r}): it does not terminate on one of them",
                                case={"streams": ch[:20]}, where="rtf_extractor.py:_strip_rtf_full_with_pages")
                obs.append({"obs": [{"src": _rtf_render(t_), "exc": "Timeout"} for t_ in ch]})
                for pr in list(getattr(ex, "_processes", {}).values()):
                    pr.kill()
                break
    finally:
        ex.shutdown(wait=False, cancel_futures=True)
    chunks = chunks[:len(obs)]
    traces = []
    for ch, o in zip(chunks, obs):
        if "skip" in o:
            ctx.log("rtf-strip binding skipped: " + o["skip"])
            return
        for toks, ob in zip(ch, o["obs"]):
            if ob.get("exc") == "Timeout":
                continue
            if "exc" in ob:
                ctx.v.violation(what=f"the RTF stripper raised on a generated token stream: {ob['exc']}; source {ob['src']!r}",
                                case={"toks": toks}, where="rtf_extractor.py:_strip_rtf_full_with_pages")
                continue
            traces.append({"id": f"rtfstrip:{len(traces)}", "hdr": {"fmt": "rtf", "doc": {"src": ob["src"]}}, "raw": ob["src"][:200],
                           "ev": [{"a": "Strip", "toks": toks, "result": ob["result"], "pages": ob["pages"]}]})

    def cfgfn(dev):
        return f"SPECIFICATION TraceSpec\nCONSTANTS WalkDev = {to_tla(set(dev))}\nCONSTRAINT TraceAccept\n"
    validate_with_findings(ctx, "RtfStripTrace", traces, {"KF-C02-13": "Rtf!RawNewlineIsText", "KF-C02-17": "Rtf!UControlWordLeaks"},
                           lambda t, e: f"RTF body stripper differs from the model RtfStrip.tla: source {t['raw']!r} -> result "
                                        f"{json.dumps(e['result'])[:200]} pages {json.dumps(e['pages'])[:200]}",
                           lambda t: "rtf_extractor.py:_RtfParser._strip_rtf_full_with_pages", cfg=cfgfn)
    ctx.ev.replayed(len(traces))
    for t in traces[:: max(1, len(traces) // 300)]:
        ctx.ev.nontrivial(("rtfstrip", t["raw"]))


# ----------------------------------------------------------------------------- PPT text cleaning: line-level model
def _ppt_clean_job(cases):
    from ..repo import activate
    activate()
    import warnings
    warnings.simplefilter("ignore")
    from sharepoint2text.parsing.extractors.ms_legacy import ppt_extractor as mod
    from ..docmodel import TOKEN_RE, word
    fn = getattr(mod, "_clean_text", None)
    if fn is None:
        return {"skip": "ppt_extractor._clean_text not found"}
    seps = ["\r", "\n", "\x0b", "\x0c"]
    out = []
    for lines in cases:
        parts = []
        for k, i in lines:
            w_ = word(i)
            parts.append({"W": w_, "WW": w_ + "   \t " + word(i + 50), "CTRL": w_[:3] + "\x01" + w_[3:], "BLANK": "  ",
                          "CLICK": "Click to edit " + w_, "PPTMARK": "___PPT10 " + w_, "STAR": "*", "STARW": "* " + w_,
                          "OUTLINE": w_ + " Outline Level"}[k])
        text = "".join(p_ + (seps[(j + len(lines)) % 4] if j + 1 < len(parts) else "") for j, p_ in enumerate(parts))
        try:
            res = fn(text)
            obs = [[int(m.group(1) or m.group(2) or m.group(3)) for m in TOKEN_RE.finditer(ln)] for ln in res.split("\n")]
            out.append({"out": [o for o in obs if o], "raw": res[:200]})
        except Exception as e:
            out.append({"exc": f"{type(e).__name__}: {e}"[:200]})
    return {"obs": out}


def ppt_clean_model(ctx):
    """PptClean.tla: theorem (no line of slide text is lost), sensitivity run for the as-built placeholder filter, binding of
    ppt_extractor._clean_text to the model on every sequence of <= 4 line kinds."""
    from ..docrun import from_tla
    from ..docsuite import validate_with_findings
    from ..tlaval import iter_dump, to_tla
    from ..tlc import MachineryError, run_tlc
    n = 5 if ctx.thorough else 4
    cfg = (f"SPECIFICATION Spec\nCONSTANTS WalkDev = {{}}\n MaxLines = {n}\nINVARIANT Inv_StepAgreesWithFunction\n"
           "INVARIANT Inv_NothingLost\nPROPERTY Prop_Terminates\n")
    r = run_tlc("PptClean", cfg, scratch=ctx.scratch, expect_fail=True, heap="6g")
    ctx.ev.tlc(f"PptClean MaxLines={n}: the words of every line of a text atom come out once, in order", r)
    if r.violated:
        ctx.v.violation(what=f"PptClean.tla: the strict model violates {r.violated}", observed=r.output[-1500:])
    rs = run_tlc("PptClean", cfg.replace("WalkDev = {}", 'WalkDev = {"Ppt!PlaceholderLineFilter"}'), scratch=ctx.scratch, expect_fail=True)
    ctx.ev.tlc("PptClean sensitivity: the as-built placeholder filter must violate Inv_NothingLost", rs, note="expected violation")
    if not rs.violated:
        raise MachineryError("PptClean sensitivity run did not fail")
    dump = ctx.scratch / "pptclean.dump"
    rg = run_tlc("PptClean", f"SPECIFICATION GenSpec\nCONSTANTS WalkDev = {{}}\n MaxLines = {n}\n", scratch=ctx.scratch, dump=dump)
    ctx.ev.tlc("PptClean GenSpec: line-kind sequences", rg)
    cases = sorted((from_tla(st["lines"]) for st in iter_dump(dump)), key=lambda c: json.dumps(c))
    if len(cases) != rg.distinct:
        raise MachineryError(f"PptClean dump {len(cases)} != {rg.distinct}")
    cases = [c for c in cases if c]
    from concurrent.futures import ProcessPoolExecutor
    chunks = [cases[k:k + 2000] for k in range(0, len(cases), 2000)]
    with ProcessPoolExecutor(8) as ex:
        obs = list(ex.map(_ppt_clean_job, chunks))
    traces = []
    for ch, ob in zip(chunks, obs):
        if "skip" in ob:
            ctx.log("ppt-clean binding skipped: " + ob["skip"])
            return
        for lines, x in zip(ch, ob["obs"]):
            if "exc" in x:
                ctx.v.violation(what=f"ppt _clean_text raised on {lines}: {x['exc']}", case={"lines": lines})
                continue
            traces.append({"id": f"pptclean:{len(traces)}", "hdr": {"fmt": "ppt", "doc": {"lines": lines}}, "raw": x["raw"],
                           "ev": [{"a": "Clean", "lines": lines, "out": x["out"]}]})

    def cfgfn(dev):
        return f"SPECIFICATION TraceSpec\nCONSTANTS WalkDev = {to_tla(set(dev))}\nCONSTRAINT TraceAccept\n"
    validate_with_findings(ctx, "PptCleanTrace", traces, {"KF-C02-16": "Ppt!PlaceholderLineFilter"},
                           lambda t, e: f"ppt _clean_text differs from PptClean.tla: lines {json.dumps(e['lines'])[:200]} -> {t['raw']!r}",
                           lambda t: "ppt_extractor.py:_clean_text", cfg=cfgfn)
    ctx.ev.replayed(len(traces))


def run(ctx):
    ev = ctx.ev
    rng = random.Random(ctx.seed)
    jobs, ndocs = build_jobs(ctx, rng)
    ctx.log(f"{ndocs} documents, {len(jobs)} (document, format) extractions")
    traces = run_suite(ctx, jobs, lambda j, o: [{"a": "Text", **o["text"]}], "text")
    for t in traces:
        if t["ev"][0]["obs"]:
            ev.nontrivial((t["hdr"]["fmt"], json.dumps(t["hdr"]["doc"]["units"])))
    for t in traces[:: max(1, len(traces) // 6)]:
        ev.sample({"fmt": t["hdr"]["fmt"], "units": [u["blocks"] for u in t["hdr"]["doc"]["units"]],
                   "observed": t["ev"][0]})

    def describe(t, e):
        return (f"get_full_text() of a generated {t['hdr']['fmt']} document violates main-text fidelity: "
                f"tokens observed {e.get('obs')} sep {e.get('sep')} residue {e.get('residue')}; "
                f"units {json.dumps([u['blocks'] for u in t['hdr']['doc']['units']])[:300]}")

    validate_with_findings(ctx, "DocTrace", traces, FINDING_DEV, describe,
                           lambda t: f"{t['hdr']['fmt']} extractor text walk")
    ev.replayed(len(traces))
    docx_walk_model(ctx, traces)
    odt_walk_model(ctx, traces)
    rtf_strip_model(ctx)
    ppt_clean_model(ctx)
    ev.set(rule="document shapes enumerated by TLC (DocGen: all 1-block flow documents, 2-block documents "
                + ("all" if ctx.thorough else "seeded sample") + "; DocGen2: decks, workbooks, paged documents up to 3 units) "
                "x every format that can express them; non-trivial = distinct (format, document) with at least one "
                "token extracted", exhaustive=bool(ctx.thorough),
           constants={"flow_formats": FLOW_FORMATS, "multi_unit_formats": MULTI, "documents": ndocs})
    ev.assume("writers in mbv/writers are the trusted base (hand-written minimal packages accepted by the extractors)",
              "Req(fmt, class) transcribed from README and the statement of C02; footnote text is DON'T-CARE; "
              "cell text of odp/epub is looked up in the tables (C13)")
