"""C02 -- main-text fidelity.  Specs: Doc.tla (document algebra, Flatten, Req, Fidelity, deviations),
DocGen.tla / DocGen2.tla (bounded universes of document shapes), DocTrace.tla (trace validation).

spec -> code: every shape TLC enumerates is numbered, rendered by the writers to every format
that can express it, and extracted by the real library.
code -> spec: the projected observation (token ids in output order, separation flags, residue
words) is validated by TLC against Fidelity(FlatDoc(doc), fmt, ...) with Dev = {} (strict).
A rejected trace is re-validated with the deviations of the OPEN known findings switched on; it
is a KNOWN-FINDING only if that as-built relaxation (confined to the finding's domain) accepts it.
"""
from __future__ import annotations

import json
import random

from ..docsuite import FLOW_FORMATS, MULTI, build_jobs, run_suite, validate_with_findings

# finding id -> deviation name (only OPEN findings are consulted)
FINDING_DEV = {
    "KF-C02-08": "Rtf!DeletedLeaks",
    "KF-C02-10": "Xlsx!UnnamedHeaderPlaceholder",
}


def run(ctx):
    ev = ctx.ev
    rng = random.Random(ctx.seed)
    jobs, ndocs = build_jobs(ctx, rng)
    ctx.log(f"{ndocs} documents, {len(jobs)} (document, format) extractions")
    traces = run_suite(ctx, jobs, lambda j, o: [{"a": "Text", **o["text"]}], "text")
    for t in traces:
        if t["ev"][0]["obs"]:
            ev.nontrivial((t["hdr"]["fmt"], json.dumps(t["hdr"]["doc"]["units"])))
    for t in traces[:: max(1, len(traces) // 6)]:
        ev.sample({"fmt": t["hdr"]["fmt"], "units": [u["blocks"] for u in t["hdr"]["doc"]["units"]],
                   "observed": t["ev"][0]})

    def describe(t, e):
        return (f"get_full_text() of a generated {t['hdr']['fmt']} document violates main-text fidelity: "
                f"tokens observed {e.get('obs')} sep {e.get('sep')} residue {e.get('residue')}; "
                f"units {json.dumps([u['blocks'] for u in t['hdr']['doc']['units']])[:300]}")

    validate_with_findings(ctx, "DocTrace", traces, FINDING_DEV, describe,
                           lambda t: f"{t['hdr']['fmt']} extractor text walk")
    ev.replayed(len(traces))
    ev.set(rule="document shapes enumerated by TLC (DocGen: all 1-block flow documents, 2-block documents "
                + ("all" if ctx.thorough else "seeded sample") + "; DocGen2: decks, workbooks, paged documents up to 3 units) "
                "x every format that can express them; non-trivial = distinct (format, document) with at least one "
                "token extracted", exhaustive=bool(ctx.thorough),
           constants={"flow_formats": FLOW_FORMATS, "multi_unit_formats": MULTI, "documents": ndocs})
    ev.assume("writers in mbv/writers are the trusted base (hand-written minimal packages accepted by the extractors)",
              "Req(fmt, class) transcribed from README and the statement of C02; footnote text is DON'T-CARE; "
              "cell text of odp/epub is looked up in the tables (C13)")
