"""C02 -- main-text fidelity.  Specs: Doc.tla (document algebra, Flatten, Req, Fidelity, deviations),
DocGen.tla (bounded universe of document shapes), DocTrace.tla (trace validation).

spec -> code: every shape TLC enumerates is numbered, rendered by the writers to every format
that can express it, and extracted by the real library.
code -> spec: the projected observation (token ids in output order, separation flags, residue
words) is validated by TLC against Fidelity(FlatDoc(doc), fmt, ...) with Dev = {} (strict).
A rejected trace is re-validated with the deviations of the OPEN known findings switched on; it
is a KNOWN-FINDING only if that as-built relaxation (confined to the finding's domain) accepts it.
"""
from __future__ import annotations

import json
import random

from ..docrun import expressible, flow_doc, from_tla, normalize, number_blocks, run_jobs
from ..tlaval import iter_dump, to_tla
from ..tlc import MachineryError, run_tlc
from ..traces import validate

FLOW_FORMATS = ["docx", "odt", "html", "mhtml", "epub", "rtf"]

# finding id -> deviation name (only OPEN findings are consulted; see known_findings.json)
FINDING_DEV = {
    "KF-C02-01": "Docx!TabBreakDropped",
    "KF-C02-02": "Docx!BlockSdtLost",
    "KF-C02-03": "Docx!NestedTableRepeated",
    "KF-C02-04": "Odt!NestedRepeated",
    "KF-C02-05": "Odt!TrackedDeletionLeaks",
    "KF-C02-06": "Html!NestedTableRepeated",
    "KF-C02-07": "Epub!TableTextDropped",
    "KF-C02-08": "Rtf!DeletedLeaks",
    "KF-C02-10": "Xlsx!UnnamedHeaderPlaceholder",
}

MULTI = {"deck": ["pptx", "odp", "odg"], "book": ["xlsx", "ods"],
         "pages": ["pdf", "txt", "md", "csv", "tsv", "json", "rtf"]}


def gen_units(ctx, kind, max_units):
    cfg = f'SPECIFICATION Spec\nCONSTANTS Kind = "{kind}"\n MaxUnits = {max_units}\n'
    dump = ctx.scratch / f"docgen2-{kind}-{max_units}.dump"
    r = run_tlc("DocGen2", cfg, scratch=ctx.scratch, dump=dump, heap="8g")
    ctx.ev.tlc(f"DocGen2 Kind={kind} MaxUnits={max_units}: multi-unit shapes", r)
    shapes = sorted((from_tla(s["units"]) for s in iter_dump(dump)), key=lambda b: json.dumps(b))
    if len(shapes) != r.distinct:
        raise MachineryError(f"DocGen2 dump {len(shapes)} != {r.distinct}")
    return shapes


def multi_docs(ctx, rng, quick_cap=350):
    """Decks / workbooks / paged documents from DocGen2 (all up to 2 units; 3 units sampled in quick)."""
    from ..docrun import number_units
    docs = []
    for kind in ("deck", "book", "pages"):
        shapes = gen_units(ctx, kind, 3 if kind != "deck" or ctx.thorough else 2)
        if not ctx.thorough and len(shapes) > quick_cap:
            small = [s for s in shapes if len(s) <= (1 if kind == "deck" else 2)]
            rest = [s for s in shapes if s not in small]
            rng.shuffle(rest)
            shapes = small + rest[: quick_cap - len(small)]
        docs += [number_units(kind, sh) for sh in shapes]
    return docs


def gen_shapes(ctx, max_blocks, rich):
    cfg = f"SPECIFICATION Spec\nCONSTANTS MaxBlocks = {max_blocks}\n Rich = {'TRUE' if rich else 'FALSE'}\n"
    dump = ctx.scratch / f"docgen-{max_blocks}-{int(rich)}.dump"
    r = run_tlc("DocGen", cfg, scratch=ctx.scratch, dump=dump, heap="8g")
    ctx.ev.tlc(f"DocGen MaxBlocks={max_blocks} Rich={rich}: document shapes", r)
    shapes = sorted((from_tla(s["blocks"]) for s in iter_dump(dump)), key=lambda b: json.dumps(b))
    if len(shapes) != r.distinct:
        raise MachineryError(f"DocGen dump {len(shapes)} != {r.distinct}")
    return shapes


def trace_cfg(dev):
    return f"SPECIFICATION TraceSpec\nCONSTANTS Dev = {to_tla(set(dev))}\nCONSTRAINT TraceAccept\n"


def validate_with_findings(ctx, spec, traces, finding_dev, describe, where):
    """Strict validation; rejected traces are retried with each open finding's deviation (then all)."""
    v, ev = ctx.v, ctx.ev
    br = validate(spec, trace_cfg(set()), traces, scratch=ctx.scratch, parallel=14, min_chunk=150)
    ev.tlc_counts(f"{spec}: strict validation of {len(traces)} traces", br.distinct, br.states, br.wall_s)
    rejected = [(t, tv) for t, tv in zip(traces, br.verdicts) if not tv.accepted]
    v.ok(len(traces) - len(rejected))
    if not rejected:
        return
    open_devs = {fid: d for fid, d in finding_dev.items() if v.open_finding(fid)}
    remaining = [t for t, _ in rejected]
    explained = {}
    for fid, d in sorted(open_devs.items()):
        if not remaining:
            break
        b2 = validate(spec, trace_cfg({d}), remaining, scratch=ctx.scratch, parallel=14, min_chunk=150)
        ev.tlc_counts(f"{spec}: as-built validation with {d}", b2.distinct, b2.states, b2.wall_s)
        nxt = []
        for t, tv in zip(remaining, b2.verdicts):
            if tv.accepted:
                explained[t["id"]] = [fid]
            else:
                nxt.append(t)
        remaining = nxt
    if remaining and len(open_devs) > 1:
        b3 = validate(spec, trace_cfg(set(open_devs.values())), remaining, scratch=ctx.scratch, parallel=14, min_chunk=150)
        ev.tlc_counts(f"{spec}: as-built validation with all open deviations", b3.distinct, b3.states, b3.wall_s)
        nxt = []
        for t, tv in zip(remaining, b3.verdicts):
            if tv.accepted:
                explained[t["id"]] = sorted(open_devs)
            else:
                nxt.append(t)
        remaining = nxt
    rem_ids = {t["id"] for t in remaining}
    for t, tv in rejected:
        if t["id"] in rem_ids:
            e = t["ev"][min(tv.reached, len(t["ev"]) - 1)]
            v.violation(what=describe(t, e), case={"fmt": t["hdr"]["fmt"], "doc": t["hdr"]["doc"], "event": e},
                        observed=t.get("raw"), where=where(t))
        else:
            for fid in explained[t["id"]]:
                e = t["ev"][min(tv.reached, len(t["ev"]) - 1)]
                v.known(fid, describe(t, e), case=None)


def run(ctx):
    ev, v = ctx.ev, ctx.v
    rng = random.Random(ctx.seed)
    shapes1 = gen_shapes(ctx, 1, True)
    if ctx.thorough:
        shapes2 = gen_shapes(ctx, 2, False)
    else:
        shapes2 = gen_shapes(ctx, 2, False)
        shapes2 = [s for s in shapes2 if len(s) == 2]
        rng.shuffle(shapes2)
        shapes2 = shapes2[:1200]
    shapes = shapes1 + [s for s in shapes2 if len(s) == 2]
    docs = []
    for k, sh in enumerate(shapes):
        blocks, nxt = number_blocks(sh, 1)
        hdr = [["r", nxt]] if k % 3 == 0 else []
        ftr = [["r", nxt + 1]] if k % 3 == 1 else []
        docs.append(flow_doc(blocks, hdr, ftr))
    mdocs = multi_docs(ctx, rng)
    jobs = [{"doc": d, "fmt": f} for d in docs for f in FLOW_FORMATS if expressible(d, f)]
    for d in mdocs:
        for f in MULTI[d["kind"]]:
            if f == "odg":      # a drawing has no speaker notes: same pages without the notes
                d2 = dict(d, slides=[dict(s, notes=[]) for s in d["slides"]])
                jobs.append({"doc": d2, "fmt": f})
            else:
                jobs.append({"doc": d, "fmt": f})
    docs = docs + mdocs
    ctx.log(f"{len(docs)} documents, {len(jobs)} (document, format) extractions")
    obs = run_jobs(jobs)
    traces = []
    for k, (j, o) in enumerate(zip(jobs, obs)):
        hdr = {"fmt": j["fmt"], "doc": normalize(j["doc"])}
        if "exc" in o:
            v.violation(what=f"extractor raised {o['exc']} on a generated well-formed {j['fmt']} document: {o['msg']}",
                        case=hdr, where=f"read_{j['fmt']}")
            continue
        traces.append({"id": f"{j['fmt']}:{k}", "hdr": hdr, "raw": o.get("full_raw"),
                       "ev": [{"a": "Text", **o["text"]}]})
        if o["text"]["obs"]:
            ev.nontrivial((j["fmt"], json.dumps(hdr["doc"]["units"])))
    for t in traces[:: max(1, len(traces) // 6)]:
        ev.sample({"fmt": t["hdr"]["fmt"], "blocks": t["hdr"]["doc"]["units"][0]["blocks"], "observed": t["ev"][0]})

    def describe(t, e):
        return (f"get_full_text() of a generated {t['hdr']['fmt']} document violates main-text fidelity: "
                f"tokens observed {e.get('obs')} sep {e.get('sep')} residue {e.get('residue')}; "
                f"units {json.dumps([u['blocks'] for u in t['hdr']['doc']['units']])[:300]}")

    validate_with_findings(ctx, "DocTrace", traces, FINDING_DEV, describe,
                           lambda t: f"{t['hdr']['fmt']} extractor text walk")
    ev.replayed(len(traces))
    ev.set(rule="document shapes enumerated by TLC (DocGen: all 1-block documents, 2-block documents "
                + ("all" if ctx.thorough else "seeded sample of 1200") + ") x every flow format that can express them; "
                "non-trivial = distinct (format, body) with at least one token extracted",
           exhaustive=bool(ctx.thorough), constants={"formats": FLOW_FORMATS, "documents": len(docs)})
    ev.assume("writers in mbv/writers are the trusted base (hand-written minimal packages accepted by the extractors)",
              "Req(fmt, class) transcribed from README and the statement of C02; footnote text is DON'T-CARE")
