"""C02 -- main-text fidelity.  Specs: Doc.tla (document algebra, Flatten, Req, Fidelity, deviations),
DocGen.tla / DocGen2.tla (bounded universes of document shapes), DocTrace.tla (trace validation).

spec -> code: every shape TLC enumerates is numbered, rendered by the writers to every format
that can express it, and extracted by the real library.
code -> spec: the projected observation (token ids in output order, separation flags, residue
words) is validated by TLC against Fidelity(FlatDoc(doc), fmt, ...) with Dev = {} (strict).
A rejected trace is re-validated with the deviations of the OPEN known findings switched on; it
is a KNOWN-FINDING only if that as-built relaxation (confined to the finding's domain) accepts it.
"""
from __future__ import annotations

import json
import random

from ..docsuite import FLOW_FORMATS, MULTI, build_jobs, run_suite, validate_with_findings

# finding id -> deviation name (only OPEN findings are consulted)
FINDING_DEV = {
    "KF-C02-08": "Rtf!DeletedLeaks",
    "KF-C02-10": "Xlsx!UnnamedHeaderPlaceholder",
    "KF-C02-11": "Odt!TextboxParagraphsGlued",
    "KF-C02-12": "Ppt!RawFallback",
}


def docx_walk_model(ctx, traces):
    """Algorithm-shaped model of the DOCX body walk (DocxWalk.tla): TLC theorem on the document universe,
    sensitivity runs for the three repaired steps, and binding: the real observation equals the model's output."""
    from ..tlc import MachineryError, run_tlc
    from ..traces import validate
    docx = [t for t in traces if t["hdr"]["fmt"] == "docx"]
    docs_file = ctx.scratch / "docxwalk-docs.json"
    docs_file.write_text(json.dumps([t["hdr"]["doc"] for t in docx]))
    cfg = "SPECIFICATION Spec\nCONSTANTS WalkDev = {}\nINVARIANT Inv_WalkOK\n"
    r = run_tlc("DocxWalkCheck", cfg, scratch=ctx.scratch, env={"DOCS_FILE": str(docs_file)}, expect_fail=True)
    ctx.ev.tlc("DocxWalkCheck: modelled DOCX walk satisfies Fidelity on every enumerated document", r)
    if r.violated:
        ctx.v.violation(what="DocxWalk.tla: the modelled DOCX walk violates Fidelity on the specification "
                             "(model and Doc.tla disagree)", observed=r.output[-1500:])
    for dv in ("Docx!TabBreakDropped", "Docx!BlockSdtLost", "Docx!NestedTableRepeated", "Docx!TextboxParagraphsGlued"):
        rs = run_tlc("DocxWalkCheck", cfg.replace("WalkDev = {}", f'WalkDev = {{"{dv}"}}'), scratch=ctx.scratch,
                     env={"DOCS_FILE": str(docs_file)}, expect_fail=True)
        ctx.ev.tlc(f"DocxWalkCheck sensitivity: pre-fix step {dv} must violate Fidelity", rs, note="expected violation")
        if not rs.violated:
            raise MachineryError(f"sensitivity run for {dv} did not fail")
    br = validate("DocxWalkTrace", "SPECIFICATION TraceSpec\nCONSTANTS WalkDev = {}\nCONSTRAINT TraceAccept\n", docx,
                  scratch=ctx.scratch, parallel=10, min_chunk=100)
    ctx.ev.tlc_counts("DocxWalkTrace: real DOCX observations equal the walk model's output", br.distinct, br.states, br.wall_s)
    for t, tv in zip(docx, br.verdicts):
        if tv.accepted:
            ctx.v.ok()
        else:
            e = t["ev"][0]
            ctx.v.violation(what="read_docx().get_full_text() differs from the algorithm model DocxWalk.tla: observed tokens "
                                 f"{e['obs']} sep {e['sep']}; body {json.dumps(t['hdr']['doc']['units'][0]['blocks'])[:300]}",
                            case={"fmt": "docx", "doc": t["hdr"]["doc"], "event": e}, observed=t.get("raw"),
                            where="docx_extractor.py:_extract_full_text_from_body/_extract_table_text/_process_text_element")
    ctx.ev.replayed(len(docx))


def run(ctx):
    ev = ctx.ev
    rng = random.Random(ctx.seed)
    jobs, ndocs = build_jobs(ctx, rng)
    ctx.log(f"{ndocs} documents, {len(jobs)} (document, format) extractions")
    traces = run_suite(ctx, jobs, lambda j, o: [{"a": "Text", **o["text"]}], "text")
    for t in traces:
        if t["ev"][0]["obs"]:
            ev.nontrivial((t["hdr"]["fmt"], json.dumps(t["hdr"]["doc"]["units"])))
    for t in traces[:: max(1, len(traces) // 6)]:
        ev.sample({"fmt": t["hdr"]["fmt"], "units": [u["blocks"] for u in t["hdr"]["doc"]["units"]],
                   "observed": t["ev"][0]})

    def describe(t, e):
        return (f"get_full_text() of a generated {t['hdr']['fmt']} document violates main-text fidelity: "
                f"tokens observed {e.get('obs')} sep {e.get('sep')} residue {e.get('residue')}; "
                f"units {json.dumps([u['blocks'] for u in t['hdr']['doc']['units']])[:300]}")

    validate_with_findings(ctx, "DocTrace", traces, FINDING_DEV, describe,
                           lambda t: f"{t['hdr']['fmt']} extractor text walk")
    ev.replayed(len(traces))
    docx_walk_model(ctx, traces)
    ev.set(rule="document shapes enumerated by TLC (DocGen: all 1-block flow documents, 2-block documents "
                + ("all" if ctx.thorough else "seeded sample") + "; DocGen2: decks, workbooks, paged documents up to 3 units) "
                "x every format that can express them; non-trivial = distinct (format, document) with at least one "
                "token extracted", exhaustive=bool(ctx.thorough),
           constants={"flow_formats": FLOW_FORMATS, "multi_unit_formats": MULTI, "documents": ndocs})
    ev.assume("writers in mbv/writers are the trusted base (hand-written minimal packages accepted by the extractors)",
              "Req(fmt, class) transcribed from README and the statement of C02; footnote text is DON'T-CARE; "
              "cell text of odp/epub is looked up in the tables (C13)")
