"""C14 -- images are returned bit-exact, numbered, on the right unit.
Specs: Images.tla (declarative Prop_Images + path-segment machine), ImagesGen.tla (bounded universe and
the algorithm-shaped reference extractor, one code step per action), ImagesTrace.tla (trace validation).

1. TLC theorems: the segment machine equals the RFC 3986 normal form on every reference of up to 4
   segments (Inv_Path); the reference extractor's output satisfies Prop_Images on every case of every
   family (Inv_Model); one sensitivity run per deviation (each wrong step must break a theorem).
2. spec -> code: every finished state of ImagesGen (case + model output) is renamed to real part names,
   rendered for each format of its family (mbv/c14_writers.py on top of the shared writers) and
   extracted by the real library.
3. code -> spec: the projection [(media index by sha256, content type, width, height, image_number,
   unit_number)] of iterate_images() and of every unit's get_images() is validated by TLC against
   Prop_Images with Dev = {}; rejected traces are re-validated with the deviations of OPEN findings.
4. repository fixtures with images: numbering and the unit/document inclusion clause (Prop_Fixture).
"""
from __future__ import annotations

import hashlib
import io
import json
import os
import random
from concurrent.futures import ProcessPoolExecutor
from pathlib import Path

from .. import REPO
from ..docrun import from_tla
from ..tlaval import iter_dump, to_tla
from ..tlc import MachineryError, run_tlc
from ..traces import validate

FAMILY = {"opc2": ["pptx", "xlsx"], "opc1": ["docx"], "odf": ["odt", "odp", "ods", "odg"], "epub": ["epub"],
          "inline": ["pdf", "rtf"]}
NAMES = {"pptx": {"d": "ppt", "s": "slides", "m": "media"}, "xlsx": {"d": "xl", "s": "drawings", "m": "media"},
         "docx": {"d": "word", "m": "media"}, "epub": {"d": "OEBPS", "m": "img"},
         "odt": {"m": "Pictures"}, "odp": {"m": "Pictures"}, "ods": {"m": "Pictures"}, "odg": {"m": "Pictures"},
         "pdf": {"m": "m"}, "rtf": {"m": "m"}}
KINDS = {"pdf": ["jpeg", "raw"], "rtf": ["png", "jpeg"]}
ALL_KINDS = ["png", "jpeg", "gif", "bmp"]
NAME_VARIANTS = ["lower", "upper", "mixed", "double", "lower", "upper", "mixed", "double", "lower", "noext"]
SINGLE_UNIT = {"docx", "odt", "odg", "epub"}          # one unit for the image model (flow formats, drawings)
EXTRACTORS = {"docx": "read_docx", "pptx": "read_pptx", "xlsx": "read_xlsx", "odt": "read_odt", "odp": "read_odp",
              "ods": "read_ods", "odg": "read_odg", "epub": "read_epub", "pdf": "read_pdf", "rtf": "read_rtf"}

# OPEN findings: id -> (deviation, domain predicate on the concrete case)
ODF = ("odt", "odp", "ods", "odg")


def _has(c, pred):
    return any(pred(a) for a in c["anchors"])


def _external(a):
    return all(t["mode"] == "external" for t in a["cands"])


def _dotted(a):          # a reference with "." / ".." segments
    return any(t["mode"] == "embed" and ("." in t["segs"] or ".." in t["segs"]) for t in a["cands"])


def _missing(a):         # a reference to a part that is not in the package
    return any(t["mode"] == "embed" and t["to"] == 0 for t in a["cands"])


def _anchored(c, flag):      # some anchor refers to a media part carrying the flag
    return any(t["mode"] == "embed" and t["to"] and c["media"][t["to"] - 1][flag] for a in c["anchors"] for t in a["cands"])


def _returned_as_built(c, a):   # frames the unrepaired ODF extractors turn into a record
    return _external(a) or c["fmt"] == "odg" or not (_dotted(a) or _missing(a))


FINDING_DEV = {
    "KF-C14-01": ("Odf!FrameSizeAsPixelSize", lambda c: c["fmt"] in ODF and _has(c, lambda a: _returned_as_built(c, a))),
    "KF-C14-02": ("Odf!ExternalLinkReturnedEmpty", lambda c: c["fmt"] in ODF and _has(c, _external)),
    "KF-C14-03": ("Odg!MissingReturnedEmpty", lambda c: c["fmt"] == "odg" and _has(c, lambda a: _missing(a) or _dotted(a))),
    "KF-C14-04": ("Odf!HrefVerbatim", lambda c: c["fmt"] in ODF and _has(c, _dotted)),
    "KF-C14-05": ("Epub!ManifestOrder", lambda c: c["fmt"] == "epub" and c["order"] != sorted(c["order"])),
    "KF-C14-08": ("Xlsx!GroupedPictureSkipped", lambda c: c["fmt"] == "xlsx" and _has(c, lambda a: a.get("nest"))),
    "KF-C14-09": ("Odp!GroupedFrameSkipped", lambda c: c["fmt"] == "odp" and _has(c, lambda a: a.get("nest"))),
    "KF-C14-10": ("Docx!NestedAnchorsLast", lambda c: c["fmt"] == "docx" and len(c["anchors"]) >= 2
                  and _has(c, lambda a: a.get("nest") in ("tc", "sdt"))),
    "KF-C14-07": ("Name!ContentTypeFromExtension", lambda c: c["fmt"] in ("docx", "pptx", "xlsx") + ODF and _anchored(c, "noext")),
}
FIXTURE_FINDING_DEV = {}

# deviations shown to break a theorem: (deviation, family, mode, anchors needed for a witness)
SENSITIVITY = [
    ("Pptx!ImageNumberRestartsPerSlide", "opc2", "cases", 2), ("Pptx!AbsoluteUnderBase", "opc2", "cases", 1),
    ("Docx!PrefixOnly", "opc1", "cases", 1), ("Xlsx!BasenameUnderMedia", "opc2", "cases", 1),
    ("Pptx!DotSegmentKept", "opc2", "paths", 1), ("Epub!ManifestOrder", "epub", "cases", 2),
    # thorough only
    ("Pptx!DotSegmentKept", "opc2", "cases", 1), ("Pptx!MixedDotDotDropped", "opc2", "cases", 1),
    ("Docx!RelationshipOrder", "opc1", "cases", 2), ("Epub!HrefConcat", "epub", "cases", 1),
    ("Epub!NoPixelSize", "epub", "cases", 1), ("Odf!HrefVerbatim", "odf", "cases", 1),
    ("Odf!ExternalLinkReturnedEmpty", "odf", "cases", 1), ("Odg!MissingReturnedEmpty", "odf", "cases", 1),
    ("Odf!FrameSizeAsPixelSize", "odf", "cases", 1), ("Ods!MissingCountsInNumbering", "odf", "cases", 2),
    ("Pdf!ImageNumberRestartsPerPage", "inline", "cases", 2), ("Pptx!AbsoluteUnderBase", "opc2", "paths", 1),
    ("Pptx!MixedDotDotDropped", "opc2", "paths", 1), ("Docx!PrefixOnly", "opc2", "paths", 1),
    ("Shared!ReferenceReturnedAgain", "opc1", "cases", 2), ("Shared!ReferenceReturnedAgain", "epub", "cases", 2),
]
QUICK_SENS = 6


def gen_cfg(family, mode, max_anchors, nunits, dev=()):
    return (f'SPECIFICATION Spec\nCONSTANTS Mode = "{mode}"\n Family = "{family}"\n MaxAnchors = {max_anchors}\n'
            f" NUnits = {nunits}\n MaxSegs = 4\n Dev = {to_tla(set(dev))}\nINVARIANT Inv_Model\nINVARIANT Inv_Path\n")


def nunits_of(family):
    return 1 if family in ("opc1", "epub") else 2


# ----------------------------------------------------------------------------- concretisation
def concretise(case, fmt, rng):
    """Abstract case (symbolic names) -> concrete case: pure renaming + choice of kinds / sizes / layout details."""
    from ..c14_writers import IMAGE_VARIANTS, make_image
    names = dict(NAMES[fmt])
    var_turn = rng.randrange(420)         # header variant of each media file: taken in turn from a seeded start
    kinds = KINDS.get(fmt, ALL_KINDS)
    media = []
    for k, m in enumerate(case["media"], start=1):
        kind = rng.choice(kinds)
        while True:                       # the parts of one package must differ in their bytes
            w, h = rng.randint(16, 60), rng.randint(16, 60)
            if kind == "raw":
                data, variant = bytes((rng.randrange(256) for _ in range(w * h * 3))), "samples"
            else:
                variant = IMAGE_VARIANTS[kind][(var_turn + k) % len(IMAGE_VARIANTS[kind])]
                data = make_image(kind, w, h, rng.randrange(1 << 16) + k, variant)
            if all(data != other["data"] for other in media):
                break
        media.append({"kind": kind, "w": w, "h": h, "data": data, "var": variant, "loc": m["loc"], "sym": list(m["part"])})
    # file names: same basename in two directories when the parts live in different directories
    same = (len(media) == 2 and media[0]["loc"] != media[1]["loc"] and media[0]["kind"] == media[1]["kind"]
            and rng.random() < 0.5)
    ext = lambda m: {"jpeg": rng.choice(["jpeg", "jpg"]), "raw": "bin"}.get(m["kind"], m["kind"])
    # how the part is CALLED (taken in turn): lower / UPPER / Mixed-case extension, double extension, no extension
    name_turn = rng.randrange(len(NAME_VARIANTS))
    fnames = {}
    for k, m in enumerate(media, start=1):
        nv = NAME_VARIANTS[(name_turn + (1 if same else k)) % len(NAME_VARIANTS)] if fmt not in ("pdf", "rtf") else "lower"
        n, e = (1 if same else k), ext(m)
        fnames[f"f{k}"] = {"lower": f"image{n}.{e}", "upper": f"IMAGE{n}.{e.upper()}", "mixed": f"Scan{n}.{e.capitalize()}",
                           "double": f"image{n}.tar.{e}", "noext": f"image{n}"}[nv]
        m["noext"] = nv == "noext"
        m["fill"] = m["var"].startswith("fill")
    if same:
        fnames["f2"] = fnames["f1"]
        media[1]["noext"] = media[0]["noext"]

    def seg(s, k=None):
        if s in ("..", ".", "x", "nope", ""):
            return s
        if s in fnames:
            return fnames[s]
        return names[s]
    for m in media:
        m["part"] = [seg(s) for s in m.pop("sym")]
    anchors = []
    pdf_turn = [rng.randrange(60)]
    rtf_turn = [rng.randrange(96)]
    nest_turn = [rng.randrange(60)]
    for a in case["anchors"]:
        cands = [{"mode": t["mode"], "abs": bool(t["abs"]), "segs": [seg(s) for s in t["segs"]], "to": t["to"]}
                 for t in a["cands"]]
        an = {"unit": a["unit"], "cands": cands, "link": a["link"], "fw": 38 if fmt in ODF else 0,
              "fh": 38 if fmt in ODF else 0}
        # grouping construct around the anchor (shape groups, table cells, content controls, text boxes, figure ...):
        # taken in turn per format; it never changes what must be returned
        from ..c14_writers import NESTS
        an["nest"] = NESTS[fmt][(nest_turn[0] + len(anchors)) % len(NESTS[fmt])] if (nest_turn[0] + len(anchors)) % 5 < 3 else ""
        if fmt == "xlsx":
            an["atype"] = rng.choice(["one", "two", "abs"])
            an["ext"] = rng.choice([(100, 100), (952500, 476250), (1905000, 952500)])
            if an["atype"] != "two":      # display extent in px (what the as-built fallback reports)
                an["fw"], an["fh"] = an["ext"][0] // 9525, an["ext"][1] // 9525
        if fmt == "pdf":
            # the /Filter form of this image XObject: single name, one-element array, cascades; taken in turn
            # (anchor position + a seeded offset): ~100 PDF documents per quick run cover every form many times
            from ..c14_writers import PDF_FILTERS
            forms = PDF_FILTERS["jpeg" if media[a["cands"][0]["to"] - 1]["kind"] == "jpeg" else "raw"]
            an["pfilter"] = forms[(pdf_turn[0] + len(anchors)) % len(forms)]
        if fmt == "rtf":
            # \\pict header / hex dump layout: taken in turn so that every combination of (negative crop, scaling,
            # blipuid) x (one line, 64, 128, 76 columns) x (LF, CRLF) is rendered many times per run
            t = rtf_turn[0] + len(anchors)
            an["wrap"] = [0, 64, 128, 76][t % 4]
            an["crop"] = (t // 4) % 2 == 0
            an["blipuid"] = (t // 8) % 2 == 1
            an["scale"] = (t // 16) % 2 == 1
            an["eol"] = "\r\n" if (t // 2) % 3 == 0 else "\n"
        anchors.append(an)
    nunits = 1 if fmt in SINGLE_UNIT else max([2] + [a["unit"] for a in anchors])
    if fmt in SINGLE_UNIT:
        for a in anchors:
            a["unit"] = 1
    # identity of the reference behind each anchor: relationship id (OOXML), href (ODF, EPUB), the anchor itself (inline)
    from ..c14_writers import _rids, target_string
    if fmt in ("docx", "pptx", "xlsx"):
        keys = _rids({"anchors": anchors}, True)
    elif fmt in ("pdf", "rtf"):
        keys = list(range(len(anchors)))
    else:
        keys = [target_string(a["cands"][0], i + 1) for i, a in enumerate(anchors)]
    for i, a in enumerate(anchors):
        a["ref"] = keys.index(keys[i]) + 1
    conc = {"fmt": fmt, "base": [seg(s) for s in case["base"]], "media": media, "anchors": anchors,
            "order": list(case["order"]), "nunits": nunits}
    if fmt == "xlsx":
        # per sheet: non-picture relationships (cell comments = vmlDrawing + comments, printerSettings, table) in a
        # drawn order around the drawing relationship; every third sheet keeps the bare drawing relationship
        conc["sheetrels"] = {}
        for u in range(1, nunits + 1):
            t = rng.randrange(12)
            if t % 3 == 2:
                continue
            extras = [["vmlDrawing", "comments"], ["comments", "vmlDrawing"], ["vmlDrawing"], ["printerSettings", "vmlDrawing", "comments"],
                      ["table", "vmlDrawing"], ["printerSettings"], ["vmlDrawing", "comments", "table"], ["table"]][t % 8]
            cut = rng.randint(0, len(extras)) if t % 2 else len(extras)      # drawing relationship last (comments
            conc["sheetrels"][u] = extras[:cut] + ["drawing"] + extras[cut:]  # came first) or somewhere in between
    return conc


def header(conc):
    return {"fmt": conc["fmt"], "base": conc["base"], "order": conc["order"],
            **({"sheetrels": [[str(u)] + v for u, v in sorted(conc["sheetrels"].items())]} if conc.get("sheetrels") else {}),
            "media": [{"part": m["part"], "kind": m["kind"], "w": m["w"], "h": m["h"], "var": m["var"],
                       "fill": bool(m.get("fill")), "noext": bool(m.get("noext"))} for m in conc["media"]],
            "anchors": [dict({"unit": a["unit"], "cands": a["cands"], "ref": a["ref"], "nest": a.get("nest", ""),
                              "fw": a["fw"], "fh": a["fh"]},
                             **({"pfilter": a["pfilter"]} if "pfilter" in a else {}),
                             **({"pict": f"wrap={a['wrap']} eol={'CRLF' if a['eol'] != chr(10) else 'LF'} crop={int(a['crop'])} "
                                         f"scale={int(a['scale'])} blipuid={int(a['blipuid'])}"} if "wrap" in a else {}))
                        for a in conc["anchors"]]}


# ----------------------------------------------------------------------------- execution (worker side)
def _int(v):
    if v is None:
        return 0
    if isinstance(v, bool) or not isinstance(v, int) or v < 0 or v >= 2 ** 31:
        return 2 ** 31 - 1          # not a number the specification can accept
    return v


def project_image(img, shas):
    b = img.get_bytes().read()
    md = img.get_metadata()
    ct = img.get_content_type()
    return {"m": shas.get(hashlib.sha256(b).hexdigest(), 0) if b else 0, "e": len(b) == 0,
            "ct": ct if isinstance(ct, str) else "?", "w": _int(md.width), "h": _int(md.height),
            "n": _int(md.image_number), "u": _int(md.unit_number)}


def observe_images(job):
    """job = {"fmt", "data" | "path", "shas": {sha256: media index} | None}.  Runs in a worker process."""
    from ..repo import activate
    activate()
    import importlib
    import logging
    import warnings
    warnings.simplefilter("ignore")
    logging.disable(logging.CRITICAL)
    from sharepoint2text.parsing import router
    try:
        if "path" in job:
            import sharepoint2text
            results = list(sharepoint2text.read_file(job["path"]))
        else:
            mod, name = router._EXTRACTOR_REGISTRY[job["fmt"]]
            fn = getattr(importlib.import_module(mod), name)
            results = list(fn(io.BytesIO(job["data"]), f"gen.{job['fmt']}"))
    except Exception as e:
        return {"exc": type(e).__name__, "msg": str(e)[:200]}
    if len(results) != 1:
        return {"exc": "ResultCount", "msg": str(len(results))}
    r = results[0]
    try:
        shas = job.get("shas")
        imgs = list(r.iterate_images())
        if shas is None:          # fixture: media index = order of first appearance of the bytes
            shas = {}
            for i in imgs:
                b = i.get_bytes().read()
                if b:
                    shas.setdefault(hashlib.sha256(b).hexdigest(), len(shas) + 1)
        D = [project_image(i, shas) for i in imgs]
        U = []
        for u in r.iterate_units():
            md = u.get_metadata()
            U.append({"n": _int(getattr(md, "unit_number", None)), "imgs": [project_image(i, shas) for i in u.get_images()]})
    except Exception as e:
        return {"exc": "Accessor:" + type(e).__name__, "msg": str(e)[:200]}
    return {"D": D, "U": U, "cls": type(r).__name__}


def _run_case(conc):
    from ..c14_writers import build
    data = build(conc)
    shas = {hashlib.sha256(m["data"]).hexdigest(): k for k, m in enumerate(conc["media"], start=1)}
    return observe_images({"fmt": conc["fmt"], "data": data, "shas": shas})


def run_cases(concs, workers=14):
    if not concs:
        return []
    with ProcessPoolExecutor(max_workers=workers) as ex:
        return list(ex.map(_run_case, concs, chunksize=max(1, len(concs) // (workers * 8))))


# ----------------------------------------------------------------------------- TLC side
def theorems(ctx):
    """All TLC theorem / sensitivity / enumeration runs, executed concurrently (each is small)."""
    from concurrent.futures import ThreadPoolExecutor
    ev = ctx.ev
    jobs = [("paths", None, "ImagesGen paths: segment machine = RFC 3986 normal form, all references <= 4 segments, 3 bases",
             gen_cfg("opc2", "paths", 1, 1), None, False)]
    for fam in FAMILY:
        jobs.append(("cases", fam, f"ImagesGen {fam}: reference extractor satisfies Prop_Images, all cases <= 2 anchors",
                     gen_cfg(fam, "cases", 2, nunits_of(fam)), ctx.scratch / f"images-{fam}.dump", False))
    for dev, fam, mode, need in (SENSITIVITY if ctx.thorough else SENSITIVITY[:QUICK_SENS]):
        jobs.append(("sens", (dev, fam, mode), f"ImagesGen sensitivity {fam}/{mode}: {dev} must break the theorem",
                     gen_cfg(fam, mode, need, nunits_of(fam), [dev]), None, True))
    if ctx.thorough:
        for fam in ("opc2", "opc1", "epub", "odf", "inline"):
            jobs.append(("big", fam, f"ImagesGen {fam}: theorem on all cases <= 3 anchors",
                         gen_cfg(fam, "cases", 3, nunits_of(fam)), None, False))

    def go(job):
        kind, key, name, cfg, dump, fail = job
        return run_tlc("ImagesGen", cfg, scratch=ctx.scratch, dump=dump, heap="6g", timeout=2400, expect_fail=fail,
                       workers=4 if kind in ("cases", "big") else 2)
    with ThreadPoolExecutor(max_workers=6) as ex:
        results = list(ex.map(go, jobs))
    cases = {}
    for (kind, key, name, cfg, dump, fail), r in zip(jobs, results):
        ev.tlc(name, r, note="expected violation" if fail else "")
        if fail and not r.violated:
            raise MachineryError(f"sensitivity run for {key} did not fail: the invariant is vacuous")
        if kind == "cases":
            done = [s for s in iter_dump(dump) if s["pc"] == "done"]
            cases[key] = sorted(({"case": from_tla(s["case"]), "out": from_tla(s["out"])} for s in done),
                                key=lambda c: json.dumps(c, sort_keys=True))
            if not cases[key]:
                raise MachineryError(f"ImagesGen {key}: no finished state in the dump")
            ctx.log(f"{key}: {r.distinct} states, {len(cases[key])} cases")
    return cases


def trace_cfg(dev):
    return f"SPECIFICATION TraceSpec\nCONSTANTS Dev = {to_tla(set(dev))}\nCONSTRAINT TraceAccept\n"


def describe(t, tv):
    c = t["hdr"]
    evs = t["ev"]
    if evs[0]["a"] == "Fixture":
        return (f"fixture {t['id']}: image numbering / unit-document inclusion violated: document view "
                f"{[(r['m'], r['n'], r['u']) for r in evs[0]['D']]}, unit views "
                f"{[(u['n'], [(r['m'], r['n'], r['u']) for r in u['imgs']]) for u in evs[0]['U']]}")
    what = "iterate_images()" if tv.reached == 0 else "unit get_images() views"
    anchors = [(a["unit"], [("ext" if x["mode"] == "external" else ("inline:%d%s" % (x["to"], " /Filter " + a["pfilter"] if "pfilter" in a else ""))
                             if x["mode"] == "inline" else ("/" if x["abs"] else "") + "/".join(x["segs"])) for x in a["cands"]]
                + (["in " + a["nest"]] if a.get("nest") else [])) for a in c["anchors"]]
    media = [("/".join(m["part"]), m["kind"] + ":" + m.get("var", ""), m["w"], m["h"]) for m in c["media"]]
    extra = (f" sheet relationships {c['sheetrels']};" if c.get("sheetrels") else "") + \
            (f" pict layouts {[a['pict'] for a in c['anchors']]};" if any("pict" in a for a in c["anchors"]) else "")
    return (f"{what} of a generated {c['fmt']} document violates Prop_Images:{extra} anchors (unit, targets) {anchors} "
            f"from base {'/'.join(c['base'])!r}, order {c['order']}, parts {media}; observed document view "
            f"{[(r['m'], r['e'], r['ct'], r['w'], r['h'], r['n'], r['u']) for r in evs[0]['D']]}; unit views "
            f"{[(u['n'], [r['n'] for r in u['imgs']]) for u in evs[1]['U']]}")


WHERE = {"docx": "docx_extractor.py:_extract_images_from_context", "pptx": "pptx_extractor.py:_process_slide_from_context/"
         "_normalize_relative_path", "xlsx": "xlsx_extractor.py:_extract_images_from_zip/_resolve_image_path",
         "odt": "odt_extractor.py:_extract_images_from_context", "odp": "odp_extractor.py:_extract_image/_extract_slide",
         "ods": "ods_extractor.py:_extract_images", "odg": "odg_extractor.py:_extract_images",
         "epub": "epub_extractor.py:_extract_images/resolve_href", "pdf": "pdf_extractor.py:_extract_image_bytes",
         "rtf": "rtf_extractor.py:_extract_images; data_types.py:RtfImage.get_metadata",
         "ppt": "data_types.py:PptUnit.get_images"}


def validate_with_findings(ctx, traces, finding_dev, label):
    """Strict validation; a rejected trace is a KNOWN-FINDING only if it lies in the domain of open findings and
    the as-built model with exactly those findings' deviations accepts it."""
    v, ev = ctx.v, ctx.ev
    br = validate("ImagesTrace", trace_cfg(()), traces, scratch=ctx.scratch, parallel=14, min_chunk=120, diagnose=3)
    ev.tlc_counts(f"ImagesTrace: strict validation of {len(traces)} {label} traces", br.distinct, br.states, br.wall_s)
    rejected = [(t, tv) for t, tv in zip(traces, br.verdicts) if not tv.accepted]
    v.ok(len(traces) - len(rejected))
    if not rejected:
        return
    open_f = {fid: d for fid, d in finding_dev.items() if v.open_finding(fid)}
    groups = {}
    for t, tv in rejected:
        fids = tuple(sorted(fid for fid, (_, dom) in open_f.items() if dom(t["conc"])))
        groups.setdefault(fids, []).append((t, tv))
    from concurrent.futures import ThreadPoolExecutor

    def as_built(fids):          # one TLC validation per group of findings; the groups run concurrently
        return validate("ImagesTrace", trace_cfg([open_f[f][0] for f in fids]), [t for t, _ in groups[fids]],
                        scratch=ctx.scratch, parallel=4, min_chunk=120, diagnose=0)
    todo = sorted(f for f in groups if f)
    with ThreadPoolExecutor(max_workers=8) as ex:
        results = dict(zip(todo, ex.map(as_built, todo)))
    for fids, items in sorted(groups.items()):
        if not fids:
            for t, tv in items:
                v.violation(what=describe(t, tv), case={"hdr": t["hdr"], "events": t["ev"]}, where=WHERE.get(t["hdr"]["fmt"], ""))
            continue
        devs = [open_f[f][0] for f in fids]
        b2 = results[fids]
        ev.tlc_counts(f"ImagesTrace: as-built validation with {'+'.join(devs)}", b2.distinct, b2.states, b2.wall_s)
        left = []
        for (t, tv), tv2 in zip(items, b2.verdicts):
            if tv2.accepted:
                for f in fids:
                    v.known(f, describe(t, tv))
            else:
                left.append((t, tv))
        # A case can lie in the domain of a finding whose wrong step it does not exhibit (e.g. the step has been
        # repaired but the entry is still open): try the as-built model with every smaller set of these findings.
        import itertools
        for size in range(len(fids) - 1, 0, -1):
            for sub in itertools.combinations(fids, size):
                if not left:
                    break
                b3 = validate("ImagesTrace", trace_cfg([open_f[f][0] for f in sub]), [t for t, _ in left],
                              scratch=ctx.scratch, parallel=4, min_chunk=120, diagnose=0)
                ev.tlc_counts(f"ImagesTrace: as-built validation with the subset {'+'.join(open_f[f][0] for f in sub)}",
                              b3.distinct, b3.states, b3.wall_s)
                nxt = []
                for (t, tv), tv3 in zip(left, b3.verdicts):
                    if tv3.accepted:
                        for f in sub:
                            v.known(f, describe(t, tv))
                    else:
                        nxt.append((t, tv))
                left = nxt
        for t, tv in left:
            v.violation(what=describe(t, tv) + f" [also rejected by the as-built model with {devs} and its subsets]",
                        case={"hdr": t["hdr"], "events": t["ev"]}, where=WHERE.get(t["hdr"]["fmt"], ""))


def make_trace(tid, conc, obs):
    return {"id": tid, "hdr": header(conc),
            "conc": dict({k: conc[k] for k in ("fmt", "anchors", "order")},
                         media=[{"fill": bool(m.get("fill")), "noext": bool(m.get("noext"))} for m in conc["media"]]),
            "ev": [{"a": "Doc", "D": obs["D"]}, {"a": "Units", "D": obs["D"], "U": obs["U"]}]}


def binding_self_check(ctx, traces):
    """Corrupt one field of recorded observations: TLC must reject every corrupted trace (the specification,
    not the harness, is what decides).  Uses PPTX traces (all six fields are MUSTs there) that the strict validation accepts."""
    import copy
    picks = [t for t in traces if t["hdr"]["fmt"] == "pptx" and len(t["ev"][0]["D"]) >= 1][:40]   # every field is a MUST there
    picks = picks[:: max(1, len(picks) // 6)][:6]
    bad = []
    for k, t in enumerate(picks):
        c = copy.deepcopy(t)
        field = ("n", "w", "m", "ct", "h", "u")[k % 6]
        for e in c["ev"]:
            r = e["D"][0]
            if field == "ct":
                r["ct"] = "image/tiff"
            elif field == "m":
                r["m"] = 0
            else:
                r[field] = r[field] + 1
        c["id"] = f"corrupt:{field}:{t['id']}"
        bad.append(c)
    if not bad:
        if os.environ.get("C14_FORMATS"):
            return                        # debugging run without pptx
        raise MachineryError("binding self-check: no accepted trace with an image to corrupt")
    orig = validate("ImagesTrace", trace_cfg(()), picks, scratch=ctx.scratch, parallel=1, min_chunk=100, diagnose=0)
    br = validate("ImagesTrace", trace_cfg(()), bad, scratch=ctx.scratch, parallel=1, min_chunk=100, diagnose=0)
    ctx.ev.tlc_counts("ImagesTrace: binding self-check (one corrupted field per trace must be rejected)", br.distinct, br.states, br.wall_s)
    for t, tv0, tv in zip(bad, orig.verdicts, br.verdicts):
        if tv0.accepted and tv.accepted:
            raise MachineryError(f"binding self-check: TLC accepted a corrupted observation ({t['id']})")


# ----------------------------------------------------------------------------- random deeper documents
def random_case(rng, family):
    """A case outside the TLC bound: up to 4 anchors, 3 units, 2 media, same construction as ImagesGen."""
    base = {"opc2": ["d", "s"], "opc1": ["d"], "epub": ["d"]}.get(family, [])
    locs = ["sub", "sib"] if family in ("opc2", "opc1", "epub") else ["sub"]
    forms = {"opc2": ["plain", "dotlead", "dotmid", "mixed", "abs", "absmixed", "deep"], "opc1": ["plain", "dotlead", "dotmid", "mixed", "abs", "absmixed", "deep"],
             "epub": ["plain", "dotlead"], "odf": ["plain", "dotlead"]}.get(family, [])
    ml = [rng.choice(locs) for _ in range(rng.choice([1, 2, 2]))]
    parts = [(base if l == "sub" else base[:-1]) + ["m", f"f{k}"] for k, l in enumerate(ml, start=1)]

    def rel(part):
        c = 0
        while c < len(base) and c < len(part) and base[c] == part[c]:
            c += 1
        return [".."] * (len(base) - c) + part[c:]

    def ref(form, k):
        part, r = parts[k - 1], rel(parts[k - 1])
        segs, ab = {"plain": (r, False), "dotlead": (["."] + r, False), "dotmid": (r[:-1] + [".", r[-1]], False),
                    "mixed": (["x", ".."] + r, False), "abs": (part, True), "absmixed": (["x", ".."] + part, True),
                    "deep": (["x", "x", "..", ".."] + r, False)}[form]
        return {"mode": "embed", "abs": ab, "segs": segs, "to": k}
    n = rng.randint(1, 4)
    units = sorted(rng.randint(1, 3) for _ in range(n)) if family not in ("opc1", "epub") else [1] * n
    anchors = []
    for i in range(n):
        if family == "inline":
            anchors.append({"unit": units[i], "cands": [{"mode": "inline", "abs": False, "segs": [], "to": rng.randint(1, len(ml))}], "link": "own"})
            continue
        roll = rng.random()
        prev_ok = i > 0 and units[i - 1] == units[i] and anchors[i - 1]["link"] == "own"
        if roll < 0.1:
            t = {"mode": "external", "abs": False, "segs": [], "to": 0}
        elif roll < 0.2:
            t = {"mode": "embed", "abs": False, "segs": rel(base + ["m", "f1"]) + ["nope"], "to": 0}
        elif roll < 0.3 and prev_ok and family in ("opc2", "opc1"):
            anchors.append({"unit": units[i], "cands": list(anchors[i - 1]["cands"]), "link": "reuse"})
            continue
        else:
            t = ref(rng.choice(forms), rng.randint(1, len(ml)))
        anchors.append({"unit": units[i], "cands": [t], "link": "own"})
    order = list(range(1, n + 1))
    if family in ("opc1", "epub"):
        rng.shuffle(order)
    return {"base": base, "media": [{"part": p, "loc": l} for p, l in zip(parts, ml)], "anchors": anchors, "order": order}


# ----------------------------------------------------------------------------- fixtures
def fixture_traces(ctx):
    root = Path(REPO) / "sharepoint2text" / "tests" / "resources"
    if not root.is_dir():
        raise MachineryError(f"fixture directory vanished: {root}")
    exts = {".docx", ".docm", ".pptx", ".xlsx", ".odt", ".odp", ".ods", ".odg", ".epub", ".pdf", ".rtf", ".doc", ".ppt", ".xls",
            ".html", ".mhtml", ".eml", ".msg"}
    paths = sorted(p for p in root.rglob("*") if p.is_file() and p.suffix.lower() in exts
                   and "password_protected" not in p.parts)
    jobs = [{"fmt": p.suffix.lower().lstrip("."), "path": str(p), "shas": None} for p in paths]
    with ProcessPoolExecutor(max_workers=8) as ex:
        obs = list(ex.map(observe_images, jobs))
    traces = []
    for p, j, o in zip(paths, jobs, obs):
        if "exc" in o or not o["D"] and not any(u["imgs"] for u in o["U"]):
            continue                      # C01 owns failures; a fixture without images says nothing here
        fmt = {"docm": "docx"}.get(j["fmt"], j["fmt"])
        traces.append({"id": str(p.relative_to(root)), "hdr": {"fmt": fmt, "fixture": True},
                       "conc": {"fmt": fmt, "anchors": [], "order": []},
                       "ev": [{"a": "Fixture", "D": o["D"], "U": o["U"]}]})
    return traces


# ----------------------------------------------------------------------------- driver
def run(ctx):
    import time
    ev, v = ctx.ev, ctx.v
    rng = random.Random(ctx.seed)
    t0 = time.time()
    cases = theorems(ctx)
    ctx.log(f"theorems {time.time() - t0:.0f}s")

    concs, meta = [], []
    cap = None if ctx.thorough else 420
    only = [f for f in os.environ.get("C14_FORMATS", "").split(",") if f]      # debugging aid: restrict the formats
    for fam, fmts in FAMILY.items():
        pool = cases[fam]
        for fmt in fmts:
            if only and fmt not in only:
                continue
            chosen = pool
            if cap and len(pool) > cap:
                small = [c for c in pool if len(c["case"]["anchors"]) <= 1]
                rest = [c for c in pool if len(c["case"]["anchors"]) > 1]
                chosen = small + rng.sample(rest, max(0, cap - len(small)))
            for k, c in enumerate(chosen):
                concs.append(concretise(c["case"], fmt, rng))
                meta.append((f"{fmt}:{fam}:{k}", c["out"]))
    nrand = 1000 if ctx.thorough else 80
    for fam, fmts in FAMILY.items():
        for fmt in fmts:
            if only and fmt not in only:
                continue
            for k in range(nrand):
                concs.append(concretise(random_case(rng, fam), fmt, rng))
                meta.append((f"{fmt}:rand:{k}", None))
    ctx.log(f"{len(concs)} generated documents ({sum(1 for _, o in meta if o is not None)} from the TLC enumeration)")
    t0 = time.time()
    obs = run_cases(concs)
    ctx.log(f"extraction {time.time() - t0:.0f}s")
    t0 = time.time()
    traces, model_equal = [], 0
    for conc, (tid, out), o in zip(concs, meta, obs):
        if "exc" in o:
            v.violation(what=f"extractor raised {o['exc']} on a generated well-formed {conc['fmt']} document with images: "
                             f"{o['msg']}", case=header(conc), where=EXTRACTORS[conc["fmt"]])
            continue
        traces.append(make_trace(tid, conc, o))
        if out is not None and [(r["m"], r["n"]) for r in o["D"]] == [(r["m"], r["n"]) for r in out]:
            model_equal += 1
        if o["D"]:
            ev.nontrivial((conc["fmt"], json.dumps(header(conc), sort_keys=True)))
    validate_with_findings(ctx, traces, FINDING_DEV, "generated-document")
    ev.replayed(len(traces))
    ctx.log(f"validation {time.time() - t0:.0f}s")
    for t in traces[:: max(1, len(traces) // 5)]:
        ev.sample({"fmt": t["hdr"]["fmt"], "anchors": t["hdr"]["anchors"], "media": t["hdr"]["media"],
                   "observed": t["ev"][1]})

    binding_self_check(ctx, traces)

    ftraces = fixture_traces(ctx)
    ctx.log(f"{len(ftraces)} repository fixtures with images")
    validate_with_findings(ctx, ftraces, FIXTURE_FINDING_DEV, "fixture")
    ev.replayed(len(ftraces))
    for t in ftraces:
        ev.nontrivial(("fixture", t["id"]))

    ev.set(rule="cases = finished states of ImagesGen (all documents with <= 2 anchors over 1..2 media parts on 2 units, "
                "every reference form of the family, missing / external / reused / duplicated rId, both container "
                "orders) renamed and rendered for every format of the family"
                + ("" if ctx.thorough else " (quick: all cases with <= 1 anchor + a seeded sample of the 2-anchor cases)")
                + f", plus {nrand} seeded random documents per format beyond the bound (<= 4 anchors, 3 units, deeper "
                "references); plus every repository fixture that yields images; non-trivial = distinct (format, case) "
                "with at least one image returned",
           exhaustive=bool(ctx.thorough),
           constants={"formats": FAMILY, "MaxAnchors": 2, "media": 2, "units": 2, "model_output_equal": model_equal})
    ev.assume("writers (mbv/writers, mbv/c14_writers.py) are the trusted base: hand-written packages accepted by the extractors",
              "sha256 of get_bytes() is mapped to the media index in Python (projection); TLC decides everything else",
              "ODT images are simple draw:frame/draw:image frames (no captioned text-box frames); PPTX pictures have "
              "increasing y offsets so reading order = XML order",
              "content type of raw FlateDecode PDF samples, unit_number of sheet / flow formats, shared parts once or "
              "per anchor, unanchored parts: DON'T-CARE (Images.tla header)")
