"""C17 -- removed markup is removed completely and takes nothing else with it.
Spec: specs/HtmlSkip.tla (+ HtmlSkipGen, HtmlSkipTrace).

1. TLC proves, for every token string over the named alphabets up to MaxLen and both end-of-input
   modes, that the reference skip-counter algorithm (Deviations = {}) meets the declarative
   three-valued semantics Class(toks); one sensitivity run per named deviation (and one for the
   as-built combination) must produce a counterexample.
2. TLC enumerates the token strings (HtmlSkipGen, -dump).  Every string is rendered to HTML with a
   unique word per position (seeded spelling: case, attributes, whitespace, bare fragment flush with
   end of input / full document) and pushed through read_html, read_mhtml (base64 and
   quoted-printable parts), read_epub (one chapter per string, minimal container/OPF/spine),
   msg_email_extractor._html_to_text, a sample through read_eml_format_mail and
   read_msg_format_mail (the repository's .msg fixture with its body stream rewritten in place).
3. The recorded observations (token string, wrapper, positions whose word was extracted) are
   validated by TLC against HtmlSkipTrace: every MUST word present, no MUSTNOT word present.
   Rejected events are diagnosed by a second TLC run (ExplainSpec) that prints the expected
   classification; Python never computes an expectation.
"""
from __future__ import annotations

import base64
import io
import json
import os
import quopri
import random
import re
import subprocess
import sys
import threading
import zipfile
from concurrent.futures import ThreadPoolExecutor
from pathlib import Path

from .. import PY, REPO, VERIF
from ..repo import child_env
from ..tlaval import iter_dump
from ..tlc import MachineryError, run_tlc

DEVIATIONS = ["CountVoidStartTag", "AnyStartTagIncrements", "AnyEndTagDecrements",
              "VoidRemovableNeverCloses", "NoClose"]
REGRESSION_CLASSES = ["FirstEndTagCloses", "EndTagFallsThrough", "StartEndTagOnlyStarts"]   # not as-built
WHERE = ("html_extractor.py:_HtmlTreeBuilder.handle_starttag/handle_endtag/get_tree; "
         "epub_extractor.py:_XhtmlTextExtractor.handle_starttag/handle_endtag, _extract_chapter")
NWORKERS = 8
EV_PER_TRACE = 400


# --------------------------------------------------------------------------- TLC side
def _cfg(dev, alpha, maxlen, invs):
    return ("SPECIFICATION Spec\nCONSTANTS Deviations = {%s}\n Alphabet <- %s\n MaxLen = %d\n"
            % (", ".join('"%s"' % d for d in dev), alpha, maxlen)
            + "".join(f"INVARIANT {i}\n" for i in invs))


def _theorems(ctx, alphabets):
    ev, v = ctx.ev, ctx.v
    for alpha, n in alphabets:
        r = run_tlc("HtmlSkip", _cfg([], alpha, n, ["Inv_AlgMeetsVisible", "TypeOK", "Inv_SkipImpliesTag"]),
                    scratch=ctx.scratch, timeout=1500, heap="8g")
        ev.tlc(f"HtmlSkip theorem: reference counter meets Class on all strings, {alpha} len<={n}", r)
        if r.violated:
            v.violation(what=f"HtmlSkip: {r.violated} violated on the reference design ({alpha})",
                        observed=r.trace[-1:])
    # sensitivity: each deviation alone, and the as-built combination, must break the invariant
    jobs = [(["CountVoidStartTag"], "AlphaQ1", 4), (["AnyStartTagIncrements"], "AlphaQ1", 5),
            (["AnyEndTagDecrements"], "AlphaQ1", 4), (["VoidRemovableNeverCloses"], "AlphaQ1", 4),
            (["NoClose"], "AlphaQ2", 4), (["FirstEndTagCloses"], "AlphaQ4", 5), (["EndTagFallsThrough"], "AlphaQ5B", 5),
            (["StartEndTagOnlyStarts"], "AlphaQ6", 3), (DEVIATIONS, "AlphaQ1", 4)]
    if ctx.thorough:
        jobs += [([d], "AlphaQ2", 5) for d in DEVIATIONS if d != "VoidRemovableNeverCloses"]

    def one(job):
        dev, a, n = job
        # a private scratch dir per concurrent run: run_tlc names cfg/meta by millisecond + pid
        return job, run_tlc("HtmlSkip", _cfg(dev, a, n, ["Inv_AlgMeetsVisible"]),
                            scratch=ctx.scratch / ("sens-" + "-".join(dev)[:40] + a),
                            expect_fail=True, workers=2, timeout=600)
    hit = {}
    with ThreadPoolExecutor(6) as ex:
        for (dev, a, n), r in ex.map(one, jobs):
            key = "+".join(dev) if len(dev) < 5 else "AsBuilt"
            if r.violated == "Inv_AlgMeetsVisible":
                if key not in hit or ctx.thorough:
                    hit[key] = (a, r)
                    ev.tlc(f"HtmlSkip sensitivity: deviation {key} must break the invariant ({a} len<={n})", r,
                           note="expected violation; witness " + _witness(r))
    missing = [d for d in DEVIATIONS + REGRESSION_CLASSES + ["AsBuilt"] if d not in hit]
    if missing:
        raise MachineryError(f"sensitivity runs found no counterexample for {missing}: invariant vacuous or bound too small")


def _witness(r):
    m = re.search(r"toks = (<<.*?>>)", r.trace[-1].replace("\n", " ")) if r.trace else None
    if not m:
        return "?"
    try:
        from ..tlaval import parse
        return _compact([(t["k"], t["n"]) for t in parse(m.group(1))])
    except Exception:
        return m.group(1)[:200]


def _oblig(cls):
    return "MUST" in cls or "MUSTNOT" in cls


_EV_LOCK = threading.Lock()


def _enumerate(ctx, alpha, n):
    dump = ctx.scratch / f"gen-{alpha}-{n}.dump"
    cfg = f"SPECIFICATION Spec\nCONSTANTS Alphabet <- {alpha}\n MaxLen = {n}\n"
    r = run_tlc("HtmlSkipGen", cfg, scratch=ctx.scratch / f"gen-{alpha}-{n}", dump=dump, heap="8g", timeout=1500,
                workers=4)
    _EV_LOCK.acquire()
    try:
        ctx.ev.tlc(f"HtmlSkipGen: all token strings over {alpha} len<={n} with their classification", r)
    finally:
        _EV_LOCK.release()
    path = dump if dump.exists() else Path(str(dump) + ".dump")
    out = {}
    for s in iter_dump(path):
        toks = tuple((t["k"], t["n"]) for t in s["g"])
        out[toks] = (tuple(s["c"]), tuple(s["cx"]),       # classification in the HTML / XML dialect
                     sorted(s["d"]), sorted(s["dx"]))     # tokens of the removed elements (HtmlSkip!DelX)
    if len(out) != r.distinct:
        raise MachineryError(f"dump has {len(out)} states, TLC reported {r.distinct}")
    path.unlink(missing_ok=True)
    return out


# --------------------------------------------------------------------------- rendering (concretiser)
ATTRS = {
    "img": ['', ' src="p.gif"', ' src="t.png" width="1" height="1" alt=""'],
    "iframe": ['', ' src="https://example.org/f"', ' src="f.html" id="content" name="content" href="x"'],
    "object": ['', ' data="m.swf" type="application/x-shockwave-flash"',
               ' data="o.html" type="text/html; charset=iso-8859-1" id="main"'],
    "applet": ['', ' code="A.class"'],
    "embed": ['', ' src="m.swf"', ' src="m.html" type="text/html;charset=iso-8859-1"'],
    "script": ['', ' type="text/javascript"', ' src="legacy.js" charset="iso-8859-1"',
               ' src="a.js" http-equiv="Content-Type" content="text/html; charset=utf-16"'],
    "style": ['', ' type="text/css"', ' type="text/css" media="screen" title="main" id="title"'],
    "div": ['', ' class="c"'],
    "param": [' name="a" value="b"'],
    "input": [' type="hidden" name="n" value="v"', ''],
    "source": [' src="a.mp4"'],
}
DOC_HEADS = ['<!DOCTYPE html><html><head><meta charset="utf-8"><title>doc</title>',
             # a UTF-8 page WITHOUT a meta charset, other meta / link elements on the same physical line
             '<!DOCTYPE html><html lang="de"><head><meta name="viewport" content="width=device-width, initial-scale=1">'
             '<link rel="stylesheet" href="s.css"><title>doc</title>']
DOC_HEAD = DOC_HEADS[0]
NONASCII = ["", "", "\u00e9", "\u00df\u6f22", "\U0001F600"]      # e-acute, sharp s + CJK, emoji: decoding errors become visible
DOC_POST = "</html>"


def _compact(toks):
    """Canonical short spelling of a token string (for reports)."""
    parts = []
    for k, n in toks:
        parts.append({"T": "T", "A": "T&", "C": "<!--c-->", "D": "<![CDATA[d]]>"}.get(k)
                     or {"S": f"<{n}>", "E": f"</{n}>", "X": f"<{n}/>"}[k])
    return "".join(parts)


def render(toks, rng, plain=False, inject=None, tail=""):
    """tokens -> (list of pieces, {word: position}); "".join(pieces) is the markup, piece i-1 belongs to token i
    (its separator + its spelling), so a token can be deleted by dropping its piece.  Positions are 1-based.
    plain=True: shortest spelling.  inject = (j, literal): literal markup right after token j (frame glue such as
    </head>).  tail: non-ASCII characters appended to every word."""
    salt = "".join(rng.choice("bcdfghjkmnpqrstvwxz") for _ in range(3))
    words, out = {}, []
    prev_word = False
    raw_open = None          # the raw-text element (script / style) the parser is inside of, as far as the spelling knows
    for i, (k, n) in enumerate(toks, start=1):
        word = None
        if k in "TACD":
            word = {"T": "w", "A": "w", "C": "h", "D": "d"}[k] + str(i) + "y" + salt + tail
            words[word] = i
        if k == "S" and raw_open is None and n in ("script", "style"):
            raw_open = n
        elif k == "E" and raw_open == n:
            raw_open = None
        if k == "T" and raw_open and not plain and i >= 2 and tuple(toks[i - 2]) == ("S", raw_open) and rng.random() < 0.5:
            # text of a script / style element that opens with the legacy "hide from old browsers" marker and never closes
            # it: inside a raw-text element "<!--" is DATA, not a comment (HtmlSkip: the element ends at its end tag)
            s = "<!--" + word
        elif k == "T":
            s = word
        elif k == "A":
            s = word + " R&D"
        elif k == "C":
            s = f"<!--{word}-->" if plain or rng.random() < 0.3 else f"<!-- {word} -->"
        elif k == "D":
            s = f"<![CDATA[ {word} ]]>"
        else:
            name = n if plain or rng.random() > 0.15 else rng.choice([n.upper(), n.capitalize()])
            if k == "E":
                s = f"</{name}>"
            else:
                a = "" if plain else rng.choice(ATTRS.get(n, ['']))
                s = f"<{name}{a}>" if k == "S" else f"<{name}{a}{rng.choice(['/', ' /']) if not plain else '/'}>"
        is_text = k in "TA"
        sep = ""
        if out:
            if prev_word and is_text:
                sep = " "
            elif not plain:
                sep = rng.choice(["", "", " ", "\n"])
        out.append(sep + s + (inject[1] if inject and inject[0] == i else ""))
        prev_word = is_text
    return out, words


def without(pieces, deleted, toks):
    """The same markup with the tokens at the (1-based) positions `deleted` dropped; two text tokens that become
    neighbours keep a blank between them."""
    out, prev_text = [], False
    for i, pc in enumerate(pieces, start=1):
        if i in deleted:
            continue
        is_text = toks[i - 1][0] in "TA"
        out.append((" " if prev_text and is_text and not pc[:1].isspace() else "") + pc)
        prev_text = is_text
    return "".join(out)


def project(obs, words):
    """Projection of an observation -> (seen, body, seq).
    obs = {"main": main text, "cells": [table cell texts], "others": [title, heading / link lists, unit texts ...]}
    seen: positions whose unique word occurs in ANY text-bearing accessor;  body: in the body-text accessors (main
    text, table cells);  seq: positions of the words found in the MAIN text, in order of occurrence.
    Substring search: inline tags between two words are dropped without leaving whitespace.
    (word = letter + position + "y" + salt [+ non-ASCII tail]: no word is a substring of another)"""
    main = obs["main"] or ""
    bodytxt = main + "\n" + "\n".join(obs["cells"])
    blob = bodytxt + "\n" + "\n".join(obs["others"])
    seen = sorted(p for w, p in words.items() if w in blob)
    body = sorted(p for w, p in words.items() if w in bodytxt)
    seq = [p for _, p in sorted((main.find(w), p) for w, p in words.items() if w in main)]
    return seen, body, seq


def _norm(obs):
    """Body text modulo white space (for the metamorphic comparison)."""
    return ("".join((obs["main"] or "").split()), ["".join(c.split()) for c in obs["cells"] if c.strip()])


def _flat(x):
    """All strings inside nested lists / dicts (tables, heading and link lists)."""
    if isinstance(x, str):
        return [x]
    if isinstance(x, dict):
        return [t for k, v in x.items() if k != "href" for t in _flat(v)]
    if isinstance(x, (list, tuple)):
        return [t for v in x for t in _flat(v)]
    return []


def _obs_text(text):
    return {"main": text, "cells": [], "others": []}


def _texts_html(r):
    """Text-bearing accessors of an HtmlContent."""
    others = [r.content or "", r.metadata.title or ""] + _flat(r.headings) + _flat(r.links)
    others += [u.get_text() for u in r.iterate_units()]
    cells = _flat(r.tables) + _flat([t.get_table() for t in r.iterate_tables()])
    return {"main": r.get_full_text(), "cells": cells, "others": others}


# --------------------------------------------------------------------------- wrappers
_REMOVABLE_END = re.compile(r"</(?:script|style|noscript|iframe|object|applet)|-->", re.I)


def _qp_encode(data, width, rng):
    """Quoted-printable with soft line breaks every `width` columns (<= 76) AND inside the end tag of every
    removable element / the --> of every comment (all legal: RFC 2045 allows a soft break anywhere)."""
    text = data.decode("latin-1")
    forced = {m.start() + rng.randint(1, 2) for m in _REMOVABLE_END.finditer(text)}
    out, col = [], 0
    for i, ch in enumerate(text):
        if ch == "\n":
            if out and out[-1] in (" ", "\t"):                      # trailing blank must be encoded
                out[-1] = "=%02X" % ord(out[-1])
            out.append("\r\n")
            col = 0
            continue
        tok = ch if (33 <= ord(ch) <= 126 and ch != "=") or ch in " \t" else "=%02X" % ord(ch)
        if col + len(tok) > width - 1 or (i in forced and col > 0):
            if out and out[-1] in (" ", "\t"):
                out[-1] = "=%02X" % ord(out[-1])
            out.append("=\r\n")
            col = 0
        out.append(tok)
        col += len(tok)
    if out and out[-1] in (" ", "\t"):
        out[-1] = "=%02X" % ord(out[-1])
    enc = "".join(out).encode("ascii")
    if quopri.decodestring(enc).replace(b"\r\n", b"\n") != data.replace(b"\r\n", b"\n"):
        raise RuntimeError("harness: quoted-printable encoder does not round-trip")
    return enc


def _spell(name, rng):
    return rng.choice([name, name, name.upper(), "-".join(x.capitalize() for x in name.split("-"))])


FLAT_TREE = {"t": "related", "k": [{"t": "html", "k": []}, {"t": "gif", "k": []}]}
HTML_LEAF = {"t": "html", "k": []}


def _mhtml(html_bytes, enc, rng, tree=None):
    """MIME HTML archive whose parts form `tree` (HtmlSkipParts: exactly one text/html leaf, at any depth, before or
    after sibling leaves / containers; a bare html leaf = a single-part message).  The transfer encoding's NAME is
    spelled lower / UPPER / Title case (case-insensitive per RFC 2045), the encoded body's line width is drawn."""
    tree = tree or FLAT_TREE
    if enc == "base64":
        w = rng.choice([16, 40, 76])
        raw = base64.b64encode(html_bytes)
        body = b"\r\n".join(raw[i:i + w] for i in range(0, len(raw), w))
        cte = _spell("base64", rng)
    elif enc == "quoted-printable":
        body = _qp_encode(html_bytes, rng.choice([12, 30, 54, 76]), rng)
        cte = _spell("quoted-printable", rng)
    else:
        body = html_bytes.replace(b"\n", b"\r\n")
        cte = _spell(rng.choice(["7bit", "8bit", "binary"]), rng)
    count = [0]

    def part(node):
        """-> (header lines, body bytes) of one MIME entity"""
        t = node["t"]
        if t == "html":
            ct = rng.choice([b"text/html", b"text/html", b'text/html; charset="utf-8"'])
            return ([b"Content-Type: " + ct, b"Content-ID: <frame-1@mhtml.blink>",
                     b"Content-Transfer-Encoding: " + cte.encode(), b"Content-Location: http://example.org/"], body)
        if t == "plain":
            return ([b'Content-Type: text/plain; charset="utf-8"', b"Content-Transfer-Encoding: 7bit"],
                    b"plain text alternative of the page")
        if t == "gif":
            return ([b"Content-Type: image/gif", b"Content-Transfer-Encoding: base64",
                     b"Content-Location: http://example.org/p.gif"], b"R0lGODlhAQABAAAAACw=")
        count[0] += 1
        bnd = b"----MultipartBoundary--c17-%d----" % count[0]
        chunks = []
        for kid in node["k"]:
            hdr, bd = part(kid)
            chunks.append(b"--" + bnd + b"\r\n" + b"\r\n".join(hdr) + b"\r\n\r\n" + bd + b"\r\n")
        extra = b';\r\n\ttype="text/html"' if t == "related" else b""
        return ([b"Content-Type: multipart/" + t.encode() + extra + b';\r\n\tboundary="' + bnd + b'"'],
                b"\r\n" + b"".join(chunks) + b"--" + bnd + b"--")
    hdr, bd = part(tree)
    return (b"From: <Saved by Blink>\r\nSnapshot-Content-Location: http://example.org/\r\nSubject: s\r\n"
            b"MIME-Version: 1.0\r\n" + b"\r\n".join(hdr) + b"\r\n\r\n" + bd + b"\r\n")


_CONTAINER = (b'<?xml version="1.0"?><container version="1.0" xmlns="urn:oasis:names:tc:opendocument:xmlns:container">'
              b'<rootfiles><rootfile full-path="OEBPS/content.opf" media-type="application/oebps-package+xml"/></rootfiles></container>')


def _epub(chapters):
    items = "".join(f'<item id="c{i}" href="c{i}.xhtml" media-type="application/xhtml+xml"/>' for i in range(len(chapters)))
    refs = "".join(f'<itemref idref="c{i}"/>' for i in range(len(chapters)))
    opf = ('<?xml version="1.0"?><package xmlns="http://www.idpf.org/2007/opf" version="3.0" unique-identifier="id">'
           '<metadata xmlns:dc="http://purl.org/dc/elements/1.1/"><dc:title>book</dc:title><dc:identifier id="id">c17</dc:identifier>'
           f'<dc:language>en</dc:language></metadata><manifest>{items}</manifest><spine>{refs}</spine></package>')
    b = io.BytesIO()
    with zipfile.ZipFile(b, "w", zipfile.ZIP_DEFLATED) as z:
        z.writestr(zipfile.ZipInfo("mimetype"), "application/epub+zip")
        z.writestr("META-INF/container.xml", _CONTAINER)
        z.writestr("OEBPS/content.opf", opf)
        for i, c in enumerate(chapters):
            z.writestr(f"OEBPS/c{i}.xhtml", c)
    return b.getvalue()


def _eml(html_text, cte):
    from email.message import EmailMessage
    m = EmailMessage()
    m["From"] = "Alice <a@example.org>"
    m["To"] = "Bob <b@example.org>"
    m["Subject"] = "c17"
    m["Date"] = "Mon, 1 Jan 2024 00:00:00 +0000"
    m["Message-ID"] = "<c17@example.org>"
    m.set_content(html_text, subtype="html", cte=cte)
    return m.as_bytes()


class _MsgFixture:
    """The repository's .msg fixture with the PidTagBody stream rewritten in place (same length)."""
    def __init__(self):
        self.ok = False
        p = REPO / "sharepoint2text/tests/resources/mails/basic_email.msg"
        try:
            import olefile
            self.data = p.read_bytes()
            with olefile.OleFileIO(io.BytesIO(self.data)) as o:
                body = o.openstream("__substg1.0_1000001F").read()
            self.pos = self.data.find(body)
            self.size = len(body)
            self.ok = self.pos > 0 and self.data.count(body) == 1 and self.size >= 120
        except Exception:
            self.ok = False

    def capacity(self):
        return self.size // 2

    def build(self, html_text):
        new = html_text.encode("utf-16-le").ljust(self.size, b"\0")
        return self.data[:self.pos] + new + self.data[self.pos + self.size:]


# --------------------------------------------------------------------------- worker
def _worker(inp, outp):
    """Fresh interpreter importing the library from $SP2T_REPO: concretise, execute, project."""
    try:
        from sharepoint2text.parsing.extractors.html_extractor import read_html
        from sharepoint2text.parsing.extractors.mhtml_extractor import read_mhtml
        from sharepoint2text.parsing.extractors.epub_extractor import read_epub
        from sharepoint2text.parsing.extractors.mail.msg_email_extractor import _html_to_text, read_msg_format_mail
        from sharepoint2text.parsing.extractors.mail.eml_email_extractor import read_eml_format_mail
    except Exception as e:   # binding vanished
        print("BINDING " + repr(e), file=sys.stderr)
        sys.exit(3)
    import logging
    logging.disable(logging.CRITICAL)
    job = json.loads(Path(inp).read_text())
    rng = random.Random(job["seed"])
    events, epub_q = [], []
    msgfx = _MsgFixture() if job["msgfile"] else None
    msg_skipped = 0

    CONTEXTS = {                                       # context frames: their tags are tokens of the validated string
        "plain": ([], []),
        "sibling": ([["S", "b"], ["T", ""], ["E", "b"]], []),          # a closed inline sibling directly in front
        "td": ([["S", "table"], ["S", "tr"], ["S", "td"]], [["E", "td"], ["E", "tr"], ["E", "table"]]),
        "th": ([["S", "table"], ["S", "tr"], ["S", "th"]], [["E", "th"], ["E", "tr"], ["E", "table"]]),
        "li": ([["S", "ul"], ["S", "li"]], [["E", "li"], ["E", "ul"]]),
        "h2": ([["S", "h2"]], [["E", "h2"]]),
        "a": ([["S", "a"]], [["E", "a"]]),
    }
    CTX_NAMES = ["plain"] * 4 + ["sibling"] * 2 + ["td", "th", "li", "h2", "a"]

    def frame(toks, w="html"):
        """-> dict(full, pieces, words, eof, pre, post, off): "pre + join(pieces) + post" is the document, `full` the
        token string it spells (frame tokens included), `off` the number of frame tokens in front of the enumerated ones.
        bare: a leading text word puts the fragment in body context, the string is flush with end of input;
        doc : <html><head>..</head><body> toks </body></html>, the <body> tags are tokens of the string; the head
              either declares utf-8 or has no meta charset at all (other meta / link elements on the same line);
              EPUB only, every other time: the head carries <script src=".."/> (an empty element in XHTML).
        A context frame (table cell, list item, heading, link, closed inline sibling) is drawn around the string."""
        bare = rng.random() < 0.5 or toks[-1:] == [["A", ""]]
        ctx = rng.choice(CTX_NAMES)
        if ["E", "body"] in toks:                      # </body> only means something directly inside a real <body>
            bare, ctx = False, "plain"
        if toks[-1:] == [["A", ""]]:                   # the dangling '&' must stay flush with the end of input
            ctx = "plain"
        tail = rng.choice(NONASCII)
        pre, post = CONTEXTS[ctx]
        if bare:
            full = [["T", ""]] + pre + toks + post
            pieces, words = render(full, rng, tail=tail)
            return dict(full=full, pieces=pieces, words=words, eof=ctx == "plain", pre="", post="", off=1 + len(pre))
        head = rng.choice(DOC_HEADS)
        if w == "epub" and rng.random() < 0.5:
            full = [["X", "script"], ["S", "body"]] + pre + toks + post + [["E", "body"]]
            pieces, words = render(full, rng, inject=(1, "</head>"), tail=tail)
            return dict(full=full, pieces=pieces, words=words, eof=False, pre=head, post=DOC_POST, off=2 + len(pre))
        full = [["S", "body"]] + pre + toks + post + [["E", "body"]]
        pieces, words = render(full, rng, tail=tail)
        return dict(full=full, pieces=pieces, words=words, eof=False, pre=head + "</head>", post=DOC_POST,
                    off=1 + len(pre))

    def add(w, f, html, obs, obs2=None, deleted=()):
        """obs / obs2: accessor dicts (or "EXC-..." strings) of the document and of the document with the tokens
        `deleted` dropped."""
        if isinstance(obs, str):
            obs = _obs_text(obs)
        seen, body, seq = project(obs, f["words"])
        meta = obs2 not in (None, False)
        if isinstance(obs2, str):
            obs2 = _obs_text(obs2)
        events.append({"a": "Obs", "w": w, "eof": f["eof"], "toks": [{"k": k, "n": n} for k, n in f["full"]],
                       "seen": seen, "body": body, "seq": seq, "meta": meta, "del": sorted(deleted),
                       "same": bool(meta and _norm(obs) == _norm(obs2)), "html": html, "base": cur[0],
                       "tree": tree_now[0] if w.startswith("mhtml") else HTML_LEAF})

    def guarded(fn):
        try:
            return fn()
        except Exception as e:          # an extractor must not fail on these inputs: empty observation
            return "EXC-" + type(e).__name__

    def both(f, dele):
        """markup of the framed string, markup with the removed elements' tokens deleted, shifted positions"""
        deleted = {p + f["off"] for p in dele}
        html = f["pre"] + "".join(f["pieces"]) + f["post"]
        # nothing to delete: the second extraction would be the first one again (meta = FALSE)
        html2 = f["pre"] + without(f["pieces"], deleted, f["full"]) + f["post"] if deleted else None
        return html, html2, deleted

    def run_html(h):
        return guarded(lambda: _texts_html(next(read_html(io.BytesIO(h.encode("utf-8")), path="x.html"))))

    trees = job.get("trees") or [FLAT_TREE]
    tree_now = [HTML_LEAF]

    def run_mhtml(h, enc):
        blob = _mhtml(h.encode("utf-8"), enc, rng, tree_now[0])
        return guarded(lambda: _texts_html(next(read_mhtml(io.BytesIO(blob), path="x.mhtml"))))

    cur = [None]
    for case in job["cases"]:
        toks = cur[0] = case["toks"]
        sel = case["w"]
        if "html" in sel:
            f = frame(toks)
            html, html2, deleted = both(f, case["d"])
            add("html", f, html, run_html(html), html2 and run_html(html2), deleted)
        if "msg" in sel:
            f = frame(toks, "msg")
            html, html2, deleted = both(f, case["d"])
            add("msg", f, html, guarded(lambda: _html_to_text(html)), html2 and guarded(lambda: _html_to_text(html2)),
                deleted)
        if "mhtml_b64" in sel:                         # first MHTML observation: base64, sometimes an unencoded part
            enc, w = ("base64", "mhtml_b64") if rng.random() < 0.75 else ("identity", "mhtml_raw")
            f = frame(toks, w)
            html, html2, deleted = both(f, case["d"])
            tree_now[0] = FLAT_TREE if rng.random() < 0.3 else rng.choice(trees)
            add(w, f, html, run_mhtml(html, enc), html2 and run_mhtml(html2, enc), deleted)
        if "mhtml_qp" in sel:
            f = frame(toks)
            html, html2, deleted = both(f, case["d"])
            tree_now[0] = FLAT_TREE if rng.random() < 0.3 else rng.choice(trees)
            add("mhtml_qp", f, html, run_mhtml(html, "quoted-printable"),
                html2 and run_mhtml(html2, "quoted-printable"), deleted)
        if "epub" in sel:
            f = frame(toks, "epub")
            html, html2, deleted = both(f, case["dx"])
            epub_q.append((f, html, html2, deleted, toks))
        if "eml" in sel:
            f = frame(toks)
            html = f["pre"] + "".join(f["pieces"]) + f["post"]
            blob = _eml(html, rng.choice(["base64", "quoted-printable"]))
            add("eml", f, html,
                guarded(lambda: next(read_eml_format_mail(io.BytesIO(blob), path="x.eml")).get_full_text()))
        for w in ("msgfile", "msgfrag"):
            if w not in sel or msgfx is None or not msgfx.ok:
                continue
            bare = rng.random() < 0.5 or toks[-1:] == [["A", ""]]
            tail = rng.choice(NONASCII)
            if w == "msgfile":                         # a full document as the body of a real .msg file
                full = [["S", "body"]] + toks + ([] if bare else [["E", "body"]])
                pieces, words = render(full, rng, plain=True, tail=tail)
                html = "<html>" + "".join(pieces) + ("" if bare else DOC_POST)
            else:                                      # an HTML FRAGMENT: no html / body wrapper, varying first element
                lead = rng.choice([[["T", ""]], [["S", "b"], ["T", ""], ["E", "b"]], [["S", "a"], ["T", ""], ["E", "a"]],
                                   [["C", ""], ["T", ""]]])
                if toks[0] in (["S", "script"], ["S", "style"], ["T", ""], ["A", ""]) and rng.random() < 0.6:
                    lead = []                          # the fragment starts with <style> / <script> / text itself
                full = lead + toks
                pieces, words = render(full, rng, plain=True, tail=tail)
                html = "".join(pieces)
            f = dict(full=full, pieces=pieces, words=words, eof=bare or w == "msgfrag")
            if len(html.encode("utf-16-le")) // 2 > msgfx.capacity():
                msg_skipped += 1
                continue
            res = guarded(lambda: next(read_msg_format_mail(io.BytesIO(msgfx.build(html)), path="x.msg")))
            if isinstance(res, str) or html not in ((res.body_html or "").rstrip("\0 "), (res.body_plain or "").rstrip("\0 ")):
                msg_skipped += 1                       # the rewritten fixture did not carry the body: harness limit
            else:
                add(w, f, html, res.body_plain)
    # EPUB: many chapters per book; a chapter's text-bearing accessors: text, title, tables (cell text lives only there)
    for k in range(0, len(epub_q), 60):
        batch = epub_q[k:k + 60]
        docs, slot = [], []
        for f, html, html2, deleted, base in batch:
            slot.append((len(docs), len(docs) + 1 if html2 else None))
            docs += [html] + ([html2] if html2 else [])
        blob = _epub([h.encode("utf-8") for h in docs])
        res = guarded(lambda: next(read_epub(io.BytesIO(blob), path="x.epub")))
        by_href = {}
        if not isinstance(res, str):
            units = {u.href: u for u in res.iterate_units()}
            for c in res.chapters:
                u = units.get(c.href)
                cells = _flat(c.tables) + _flat([t.get_table() for t in c.get_tables()])
                others = [c.title or ""]
                if u is not None:
                    others += [u.get_text()]
                    cells += _flat([t.get_table() for t in u.get_tables()])
                by_href[c.href] = {"main": c.text, "cells": cells, "others": others}
        for (f, html, html2, deleted, base), (i1, i2) in zip(batch, slot):
            cur[0] = base
            add("epub", f, html, by_href.get(f"OEBPS/c{i1}.xhtml", "MISSING-CHAPTER"),
                by_href.get(f"OEBPS/c{i2}.xhtml", "MISSING-CHAPTER") if i2 is not None else None, deleted)
    Path(outp).write_text(json.dumps({"events": events, "msg_skipped": msg_skipped,
                                      "msgfile_ok": bool(msgfx and msgfx.ok)}))


# --------------------------------------------------------------------------- validation by TLC
_ACC = re.compile(r'<<"ACCEPT", (\d+)>>')
_BAD = re.compile(r'<<\s*"BAD",\s*(\d+),\s*(\d+),\s*(<<.*?>>)\s*>>', re.S)
TR_CFG = "SPECIFICATION TraceSpec\nCONSTRAINT TraceAccept\n"
EX_CFG = "SPECIFICATION ExplainSpec\n"


def _strip(t):
    return {"id": t["id"], "ev": [{k: e[k] for k in ("a", "w", "eof", "toks", "seen", "body", "seq", "meta", "del", "same", "tree")}
                                  for e in t["ev"]]}


def validate_events(ctx, traces, parallel=12):
    """-> (accepted flags per trace, {(trace index, event index): expected class list}, distinct, generated, wall)"""
    nchunks = max(1, min(parallel, len(traces)))
    size = (len(traces) + nchunks - 1) // nchunks
    chunks = [list(range(i, min(i + size, len(traces)))) for i in range(0, len(traces), size)]

    def run_chunk(idx, cfg, tag):
        f = ctx.scratch / f"tr-{tag}-{idx[0]}.json"
        f.write_text(json.dumps([_strip(traces[i]) for i in idx]))
        r = run_tlc("HtmlSkipTrace", cfg, scratch=ctx.scratch / f"tlc-{tag}-{idx[0]}", workers=1, timeout=1500,
                    heap="6g" if getattr(ctx, "thorough", False) else "3g", env={"TRACE_FILE": str(f), "MBV_PROGRESS": "0"})
        f.unlink(missing_ok=True)
        return idx, r

    accepted = [False] * len(traces)
    distinct = generated = 0
    wall = 0.0
    with ThreadPoolExecutor(len(chunks)) as ex:
        for idx, r in ex.map(lambda c: run_chunk(c, TR_CFG, "v"), chunks):
            for a in _ACC.findall(r.output):
                accepted[idx[int(a) - 1]] = True
            distinct += r.distinct
            generated += r.generated
            wall = max(wall, r.wall_s)
    bad = {}
    rej = [i for i, a in enumerate(accepted) if not a]
    if rej:
        size = (len(rej) + nchunks - 1) // nchunks
        rchunks = [rej[i:i + size] for i in range(0, len(rej), size)]
        with ThreadPoolExecutor(len(rchunks)) as ex:
            for idx, r in ex.map(lambda c: run_chunk(c, EX_CFG, "x"), rchunks):
                for tid, l in re.findall(r'<<\s*"MALFORMED",\s*(\d+),\s*(\d+)\s*>>', r.output):
                    e = traces[idx[int(tid) - 1]]["ev"][int(l) - 1]
                    raise MachineryError("malformed observation (harness fault): " + json.dumps(e)[:1500])
                for tid, l, cls in _BAD.findall(r.output):
                    bad[(idx[int(tid) - 1], int(l) - 1)] = re.findall(r'"([A-Z-]+)"', cls)
                distinct += r.distinct
                generated += r.generated
        for i in rej:
            if not any(b[0] == i for b in bad):
                (VERIF / ".scratch" / "c17-unexplained-trace.json").write_text(json.dumps([_strip(traces[i])]))
                raise MachineryError(f"trace {traces[i]['id']} rejected by TraceSpec but ExplainSpec flags no event "
                                     "(malformed event?)")
    return accepted, bad, distinct, generated, wall


def _model_agreement(ctx, traces, model):
    """Opt-in (C17_MODEL=ref|asbuilt): does the step machine of HtmlSkip.tla predict the observed word set
    exactly?  Prints the count of differing observations; never influences the verdict."""
    f = ctx.scratch / "model-traces.json"
    f.write_text(json.dumps([_strip(t) for t in traces]))
    r = run_tlc("HtmlSkipTrace", "SPECIFICATION ModelSpec\n", scratch=ctx.scratch / "tlc-model", workers=1,
                timeout=1500, heap="8g", env={"TRACE_FILE": str(f), "MBV_PROGRESS": "0", "MBV_MODEL": model})
    diffs = re.findall(r'<<"DIFF", (\d+), (\d+), (\{.*?\})>>', r.output)
    n = sum(1 for t in traces for e in t["ev"] if e["w"] != "eml")
    ctx.log(f"MODEL-AGREEMENT model={model}: {n - len(diffs)} of {n} observations equal the step machine's output, "
            f"{len(diffs)} differ")
    for tid, l, exp in diffs[:10]:
        e = traces[int(tid) - 1]["ev"][int(l) - 1]
        ctx.log(f"   differ: {e['w']} eof={e['eof']} {_compact([(t['k'], t['n']) for t in e['toks']])} "
                f"model={exp} observed={e['seen']} html={e['html']!r}")


# --------------------------------------------------------------------------- driver
def _tree_str(n):
    return n["t"] + ("[" + ", ".join(_tree_str(x) for x in n["k"]) + "]" if n["k"] else "")


def _part_trees(ctx):
    """MIME part trees enumerated by TLC (HtmlSkipParts): every archive with exactly one text/html leaf at depth <= 3
    (siblings: leaves; thorough also depth <= 2 with container siblings)."""
    out = []
    for dep, rich in ([(3, "FALSE"), (2, "TRUE")] if ctx.thorough else [(3, "FALSE")]):
        dump = ctx.scratch / f"trees-{dep}-{rich}.dump"
        r = run_tlc("HtmlSkipParts", f"SPECIFICATION Spec\nCONSTANTS Depth = {dep}\n RichSiblings = {rich}\n"
                    "INVARIANT Inv_AllArchives\n", scratch=ctx.scratch / f"trees-{dep}-{rich}", dump=dump, timeout=900)
        ctx.ev.tlc(f"HtmlSkipParts: all part trees with one text/html leaf, depth<={dep}, rich siblings={rich}", r)
        path = dump if dump.exists() else Path(str(dump) + ".dump")

        def plain(n):
            return {"t": str(n["t"]), "k": [plain(x) for x in n["k"]]}
        got = [plain(s["tr"]) for s in iter_dump(path)]
        if len(got) != r.distinct:
            raise MachineryError(f"tree dump has {len(got)} states, TLC reported {r.distinct}")
        out += got
    out.sort(key=json.dumps)
    return out


def _run_workers(ctx, cases, msgfile, trees=None):
    n = min(NWORKERS, max(1, len(cases) // 50))
    procs = []
    for k in range(n):
        inp, outp = ctx.scratch / f"job-{k}.json", ctx.scratch / f"obs-{k}.json"
        inp.write_text(json.dumps({"seed": ctx.seed * 1000003 + k, "cases": cases[k::n], "msgfile": msgfile,
                                   "trees": trees}))
        procs.append((outp, subprocess.Popen([PY, "-m", "mbv.props.c17", "worker", str(inp), str(outp)],
                                             env=child_env(), cwd=str(VERIF), stdout=subprocess.PIPE,
                                             stderr=subprocess.PIPE, text=True)))
    events, skipped, msg_ok = [], 0, True
    for outp, p in procs:
        so, se = p.communicate(timeout=3000)
        if p.returncode != 0:
            raise MachineryError(f"C17 worker failed (rc={p.returncode}; rc 3 = binding vanished):\n{se[-2000:]}")
        d = json.loads(outp.read_text())
        events += d["events"]
        skipped += d["msg_skipped"]
        msg_ok = msg_ok and d["msgfile_ok"]
    return events, skipped, msg_ok


def _report(ctx, traces, accepted, bad):
    v = ctx.v
    v.ok(sum(len(t["ev"]) for t in traces) - len(bad))
    if not bad:
        return
    v.ok(0)
    items = []
    for (ti, ei), cls in bad.items():
        e = traces[ti]["ev"][ei]
        items.append((len(e["toks"]), e["w"], _compact([(t["k"], t["n"]) for t in e["toks"]]), e, cls))
    items.sort(key=lambda x: (x[0], x[2], x[1], x[3]["html"]))
    tally = {}
    for ln, w, comp, e, cls in items:
        sn, bd = set(e["seen"]), set(e["body"])
        ms = [q for q in e["seq"] if cls[q - 1] == "MUST"]
        kind = ("lost/moved " if any(c == "MUST" and i + 1 not in bd for i, c in enumerate(cls)) else "") + \
               ("leaked " if any(c == "MUSTNOT" and i + 1 in sn for i, c in enumerate(cls)) else "") + \
               ("reordered " if ms != sorted(ms) else "") + ("differs-from-deleted " if e["meta"] and not e["same"] else "")
        ctxn = next((t["n"] for t in e["toks"] if t["n"] in ("td", "th", "li", "h2", "a", "b")), "plain")
        tally[(w, ctxn, kind.strip())] = tally.get((w, ctxn, kind.strip()), 0) + 1
    if items:
        ctx.log("rejected observations by (wrapper, context, kind): " +     json.dumps(sorted((list(k) + [n]) for k, n in tally.items())))
    # report the shortest witnesses per (kind of failure, markup involved), two wrappers each; lost / leaked
    # alternate so that both kinds appear among the lines Verdicts prints
    per, chosen = set(), {True: [], False: []}
    for ln, w, comp, e, cls in items:
        sn = set(e["seen"])
        is_lost = any(c == "MUST" and i + 1 not in set(e["body"]) for i, c in enumerate(cls))
        sig = (is_lost, tuple(sorted({t["k"] + t["n"] for t in e["toks"] if t["k"] != "T"})), w)
        if sig in per or len(chosen[is_lost]) >= 20 or sum(1 for q in per if q[:2] == sig[:2]) >= 2:
            continue
        per.add(sig)
        chosen[is_lost].append((w, comp, e, cls, sn))
    order = [x for pair in zip(chosen[True], chosen[False]) for x in pair]
    k = min(len(chosen[True]), len(chosen[False]))
    order += chosen[True][k:] + chosen[False][k:]
    for w, comp, e, cls, seen in order:
        lost = [i + 1 for i, c in enumerate(cls) if c == "MUST" and i + 1 not in seen]
        leaked = [i + 1 for i, c in enumerate(cls) if c == "MUSTNOT" and i + 1 in seen]
        what = []
        if lost:
            what.append(f"visible text lost (positions {lost})")
        if leaked:
            what.append(f"removed content extracted (positions {leaked})")
        moved = [i + 1 for i, c in enumerate(cls) if c == "MUST" and i + 1 in seen and i + 1 not in set(e["body"])]
        if moved:
            what.append(f"visible text moved out of the body text into another accessor (positions {moved})")
        if e["meta"] and not e["same"] and not what:
            what.append(f"extraction differs from the extraction with the removed elements {e['del']} deleted")
        must_seq = [q for q in e["seq"] if cls[q - 1] == "MUST"]
        if must_seq != sorted(must_seq):
            what.append(f"visible text rearranged (order in the main text {must_seq})")
        if w.startswith("mhtml"):
            comp += "  in " + _tree_str(e["tree"])
        v.violation(what=f"{'; '.join(what) or 'observation rejected'} via {w}: {comp}   "
                         f"[{len(items)} rejected observations in this run]",
                    case={"wrapper": w, "eof": e["eof"], "toks": e["toks"], "base": e["base"], "html": e["html"],
                          "d": e.get("d0", []), "dx": e.get("dx0", []), "mime_tree": _tree_str(e["tree"])},
                    expected=cls, observed={"seen_positions": e["seen"], "order_in_main_text": e["seq"]}, where=WHERE)


def _build_traces(events):
    events.sort(key=lambda e: (json.dumps(e["toks"]), e["w"], e["html"]))
    traces = []
    for k in range(0, len(events), EV_PER_TRACE):
        traces.append({"id": f"t{k}", "ev": events[k:k + EV_PER_TRACE]})
    return traces


def _replay(ctx):
    """./check C17 --replay <violation file>: validate exactly that document again."""
    case = json.loads(Path(ctx.replay).read_text())["case"]
    toks = case["base"]                                   # the enumerated string; the frame adds its own tokens
    cases = [{"toks": toks, "w": [case["wrapper"]], "d": case.get("d", []), "dx": case.get("dx", [])} for _ in range(60)]
    events, _, _ = _run_workers(ctx, cases, case["wrapper"] in ("msgfile", "msgfrag"),
                                _part_trees(ctx) if case["wrapper"].startswith("mhtml") else None)
    traces = _build_traces(events)
    accepted, bad, d, g, wall = validate_events(ctx, traces)
    ctx.ev.tlc_counts("HtmlSkipTrace: replayed case", d, g, wall)
    ctx.ev.replayed(len(events))
    _report(ctx, traces, accepted, bad)


def run(ctx):
    ev = ctx.ev
    import time
    t0 = time.time()

    def _t():
        return round(time.time() - t0, 1)
    if ctx.replay:
        return _replay(ctx)
    # ---- 1. theorem + sensitivity
    if ctx.thorough:
        theorem = [("AlphaQ1", 5), ("AlphaQ2", 5), ("AlphaQ3", 7), ("AlphaQ4", 6), ("AlphaQ5B", 6), ("AlphaQ6", 5),
                   ("AlphaQ7", 6), ("AlphaQ8", 6), ("AlphaQ9", 7), ("AlphaT3", 5), ("AlphaT", 5), ("AlphaT2", 5)]
        gens = [("AlphaT", 4, 0), ("AlphaT2", 4, 0), ("AlphaQ3", 6, 0), ("AlphaQ4", 5, 0), ("AlphaQ5", 5, 0),
                ("AlphaQ6", 4, 0), ("AlphaQ7", 6, 0), ("AlphaQ8", 5, 0), ("AlphaT3", 4, 0), ("AlphaQ1", 5, 5), ("AlphaQ2", 5, 5),
                ("AlphaQ9", 7, 0)]
        sample5, n_eml, n_msgfile = 25000, 4000, 800
    else:
        theorem = [("AlphaQ1", 4), ("AlphaQ2", 4), ("AlphaQ4", 5), ("AlphaQ5B", 5), ("AlphaQ6", 4),
                   ("AlphaQ7", 5), ("AlphaQ8", 5), ("AlphaQ9", 6)]
        gens = [("AlphaQ1", 4, 0), ("AlphaQ2", 4, 0), ("AlphaQ4", 5, 0), ("AlphaQ5", 4, 0), ("AlphaQ6", 3, 0),
                ("AlphaQ7", 5, 0), ("AlphaQ8", 5, 0), ("AlphaQ9", 6, 0)]
        sample5, n_eml, n_msgfile = 0, 1200, 160
    if os.environ.get("C17_ONLY"):                         # development aid: "AlphaT3:4,AlphaQ8:5" restricts both lists
        gens = [(a, int(n), 0) for a, n in (x.split(":") for x in os.environ["C17_ONLY"].split(","))]
        theorem = [(a, n) for a, n, _ in gens]
    _theorems(ctx, theorem)
    ctx.log(f"theorem + sensitivity runs done ({_t()}s)")

    # ---- 2. enumerate the token strings (with TLC's classification, used for evidence only)
    rng = random.Random(ctx.seed)
    strings = {}
    with ThreadPoolExecutor(4) as ex:                      # the enumerations run side by side (private scratch dirs)
        enumerated = list(ex.map(lambda g: _enumerate(ctx, g[0], g[1]), gens))
    for (alpha, n, sampled_len), got in zip(gens, enumerated):
        if sampled_len:                                    # all strings up to 4, a seeded sample of the length-5 strings
            k5 = sorted(k for k, c in got.items() if len(k) == 5 and k not in strings and _oblig(c[0] + c[1]))
            for k in rng.sample(k5, min(sample5, len(k5))):
                strings[k] = got[k]
            strings.update({k: c for k, c in got.items() if len(k) < 5})
        else:
            strings.update(got)
    # a string without a MUST / MUSTNOT word carries no obligation: nothing to observe
    n_all = len(strings)
    keys = sorted(k for k, c in strings.items() if _oblig(c[0] + c[1]))
    nontriv = [k for k in keys if any("MUST" in c and "MUSTNOT" in c for c in strings[k][:2])]
    ctx.log(f"{n_all} token strings enumerated, {len(keys)} with a MUST/MUSTNOT word are replayed, "
            f"{len(nontriv)} have both ({_t()}s)")
    for k in nontriv:
        ev.nontrivial(_compact(k))
    # which wrappers see which string: the cheap ones all, .eml / real .msg a seeded sample biased to non-trivial strings
    pool = nontriv if len(nontriv) > 50 else keys
    eml_set = set(rng.sample(pool, min(n_eml, len(pool))))
    short = [k for k in pool if len(k) <= 6]
    msg_set = set(rng.sample(short, min(n_msgfile, len(short))))
    # fragments for the real .msg path: strings with a <script> / <style> / other start tag, biased to non-trivial ones
    fragpool = [k for k in keys if len(k) <= 6 and _oblig(strings[k][0]) and any(t[0] == "S" for t in k)]
    fragpool = [k for k in fragpool if "MUSTNOT" in strings[k][0]] or fragpool
    frag_set = set(rng.sample(fragpool, min(n_msgfile, len(fragpool))))
    cases = []
    for k in keys:
        w = []
        if _oblig(strings[k][0]):                          # obligations in the HTML dialect
            w += ["html", "msg", "mhtml_b64", "mhtml_qp"]
            if k in eml_set:
                w.append("eml")
            if k in msg_set:
                w.append("msgfile")
            if k in frag_set:
                w.append("msgfrag")
        if _oblig(strings[k][1]):                          # obligations in the XML dialect (EPUB chapters)
            w.append("epub")
        cases.append({"toks": [list(t) for t in k], "w": w, "d": strings[k][2], "dx": strings[k][3]})

    # ---- 3. replay through the library, 4. validate by TLC
    trees = _part_trees(ctx)
    events, msg_skipped, msg_ok = _run_workers(ctx, cases, True, trees)
    by_w = {}
    for e in events:
        by_w[e["w"]] = by_w.get(e["w"], 0) + 1
    ctx.log(f"{len(events)} observations recorded: {by_w}; msgfile skipped {msg_skipped} ({_t()}s)")
    for w in ("html", "msg", "mhtml_b64", "mhtml_qp", "epub", "eml"):
        if not by_w.get(w):
            raise MachineryError(f"no observation recorded for wrapper {w}")
    ctx.log(f"{sum(1 for e in events if '<!--w' in e['html'])} observations spell the text of a script / style element "
            f"with a comment opener (data there)")
    if os.environ.get("C17_DEBUG"):
        sus = [e for e in events if '<!--w' in e['html'] and e['w'].startswith('mhtml')]
        ctx.log(f"DEBUG mhtml with opener: {len(sus)}; trees: {sorted({json.dumps(e['tree'])[:60] for e in sus})[:5]}")
        for e in sus[:8]:
            ctx.log("DEBUG " + json.dumps([e['w'], e['seen'], [t['k'] + t['n'] for t in e['toks']], e['html'][-90:]]))
    traces = _build_traces(events)
    if os.environ.get("C17_MODEL"):                        # self-test of the algorithm part, not a verdict
        _model_agreement(ctx, traces, os.environ["C17_MODEL"])
    accepted, bad, d, g, wall = validate_events(ctx, traces)
    ev.tlc_counts("HtmlSkipTrace: recorded observations validated (+ ExplainSpec on rejected traces)", d, g, wall)
    ev.replayed(len(events))
    ctx.log(f"{len(traces)} traces validated by TLC, {len(bad)} observations rejected ({_t()}s)")
    _report(ctx, traces, accepted, bad)
    step = max(1, len(events) // 7)
    for e in events[::step]:
        ev.sample({"wrapper": e["w"], "eof": e["eof"], "tokens": _compact([(t["k"], t["n"]) for t in e["toks"]]),
                   "html": e["html"][:200], "seen_positions": e["seen"]})
    ev.set(rule="every token string enumerated by TLC (HtmlSkipGen) over the named alphabets up to the length bound "
                "that has at least one MUST or MUSTNOT word in TLC's classification (the others carry no obligation; "
                "thorough: a seeded sample of the length-5 strings), each rendered with unique words and pushed "
                "through read_html, _html_to_text (MSG helper), read_mhtml (base64, quoted-printable), read_epub; a "
                "seeded sample through read_eml_format_mail and read_msg_format_mail; non-trivial = strings whose "
                "classification (TLC) contains both a MUST and a MUSTNOT word",
           exhaustive=not ctx.thorough,
           constants={"alphabets": [f"{a}<={n}" + (" (length 5 sampled)" if sl else "") for a, n, sl in gens], "strings_enumerated": n_all,
                      "strings_replayed": len(keys), "observations": by_w, "mime_part_trees": len(trees),
                      "msgfile_fixture_usable": msg_ok, "msgfile_skipped_too_long": msg_skipped})
    ev.assume("token strings are rendered in body context (lead word or explicit <body>); HTML5 head-context rules "
              "for <noscript> are outside the model",
              "html.parser.HTMLParser tokenisation (CDATA mode, charref hold-back, close()) is modelled from the "
              "CPython 3.12 source, not verified against it beyond the replayed strings",
              ".eml: README documents that an HTML-only mail yields the raw HTML body: only MUST is demanded there",
              ".msg end-to-end uses the repository fixture basic_email.msg with its body stream rewritten in place "
              "(<= 119 characters); when the fixture is unusable only the function-level _html_to_text binding remains")


def _corrupt_demo():
    """Binding demonstration (recorded in c17.selftest.md): a recorded observation is accepted by TLC, the
    same observation with one corrupted field is rejected."""
    from ..tlc import Scratch

    class C:
        pass
    tk = lambda *ts: [{"k": k, "n": n} for k, n in ts]
    good = {"a": "Obs", "w": "html", "eof": True, "html": "",
            "toks": tk(("T", ""), ("S", "noscript"), ("T", ""), ("S", "img"), ("E", "noscript"), ("T", "")), "seen": [1, 6],
            "body": [1, 6], "seq": [1, 6], "meta": True, "del": [2, 3, 4, 5], "same": True,
            "tree": HTML_LEAF}
    variants = {"recorded": good,
                "seen += hidden position 3": dict(good, seen=[1, 3, 6], body=[1, 3, 6], seq=[1, 3, 6]),
                "seen -= visible position 6": dict(good, seen=[1], body=[1], seq=[1]),
                "visible word 6 only in the title (body -= 6)": dict(good, body=[1], seq=[1]),
                "extraction with the removed element deleted differs (same = FALSE)": dict(good, same=False),
                "order of the two visible words swapped": dict(good, seq=[6, 1]),
                "token 5 </noscript> -> </div> (element now unclosed: DON'T-CARE, accepted)":
                    dict(good, toks=good["toks"][:4] + tk(("E", "div")) + good["toks"][5:]),
                "wrapper name corrupted": dict(good, w="htlm")}
    with Scratch("C17demo") as sc:
        ctx = C()
        ctx.scratch = sc
        for name, e in variants.items():
            try:
                acc, bad, *_ = validate_events(ctx, [{"id": name, "ev": [e]}], parallel=1)
            except MachineryError as ex:        # no event enabled at all: malformed observation
                print(f"{name}: rejected (no event enabled; driver raises MachineryError: {str(ex)[:60]}...)")
                continue
            print(f"{name}: {'ACCEPTED' if acc[0] else 'REJECTED'}" + (f" expected={list(bad.values())[0]}" if bad else ""))


if __name__ == "__main__":
    if sys.argv[1] == "worker":
        _worker(sys.argv[2], sys.argv[3])
    elif sys.argv[1] == "corrupt-demo":
        _corrupt_demo()
