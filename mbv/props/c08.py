"""C08 -- encrypted input is rejected as encrypted, plain input never is.
Spec: specs/Encryption.tla (+ EncryptionGen, EncryptionTrace).

1. TLC proves on the bounded universe of abstract containers (9 container kinds) that the reference
   pipeline satisfies: detector verdict = Encrypted(c) wherever the format documents decide,
   no yield before the reject, every MUST container ends in the encrypted error, no MUSTNOT container
   does.  Six sensitivity runs (one per named as-built deviation) must each produce a counterexample.
2. TLC enumerates the universe (-dump); every abstract container is built for real (own CFB / ZIP / 7z
   writers, BIFF record streams, edited ODF manifests, PDFs encrypted by the independent mbv/c08_pdfcrypt.py, EPUB DRM files), projected
   back by independent parsers (self-check), and pushed through the direct extractor, read_file and
   cli.main in worker processes; wrappers record Detect / Yield / Raise / End events.
3. Every recorded trace is validated by TLC against EncryptionTrace (which re-uses the operators and
   invariants of Encryption.tla); the repository's fixtures (10 protected, all others plain) are
   projected to abstract containers and validated the same way.
"""
from __future__ import annotations

import json
import os
import random
import subprocess
import sys
import time
from concurrent.futures import ThreadPoolExecutor
from pathlib import Path

from .. import PY, VERIF, REPO
from ..repo import child_env
from ..tlaval import iter_dump
from ..tlc import MachineryError, run_tlc
from ..traces import validate

DEVIATIONS = ["Odf!SubstringDetector", "Zip!AnyRuntimeErrorIsEncrypted", "SevenZ!EncryptedHeaderIsInvalid",
              "Ppt!StreamNamesOnly", "Pdf!AesFallbackOnlyAtOpen", "Odf!FallbackSubstring"]
SENS_INV = {"Odf!SubstringDetector": "Inv_DetectorAgrees", "Zip!AnyRuntimeErrorIsEncrypted": "Inv_PlainNeverEncrypted",
            "SevenZ!EncryptedHeaderIsInvalid": "Inv_EncryptedRejected", "Ppt!StreamNamesOnly": "Inv_DetectorAgrees",
            "Pdf!AesFallbackOnlyAtOpen": "Inv_EmptyPasswordExtracts", "Odf!FallbackSubstring": "Inv_DetectorAgrees"}
ALL_KINDS = ["ooxml", "ppt", "xls", "doc", "odf", "pdf", "zip", "sevenz", "epub"]
INVS = ["Inv_DetectorAgrees", "Inv_NoYieldBeforeReject", "Inv_EncryptedRejected", "Inv_EncryptedNeverYields",
        "Inv_PlainNeverEncrypted", "Inv_EmptyPasswordExtracts"]
ENTRIES = ["direct", "read_file", "cli"]
# calls recorded per case: (key, entry, stream position, mode); the position / mode variants repeat the direct call
CALLS = [("direct", "direct", "start", "fresh"), ("direct@middle", "direct", "middle", "fresh"),
         ("direct@end", "direct", "end", "fresh"), ("detect+direct", "direct", "middle", "after-detector"),
         ("read_file", "read_file", "start", "fresh"), ("cli", "cli", "start", "fresh")]
DETECTOR_FN = {"ooxml": "is_ooxml_encrypted", "ppt": "is_ppt_encrypted", "xls": "is_xls_encrypted",
               "odf": "is_odf_encrypted"}        # module-level detectors that take the stream (util/encryption.py)
NWORK = 12


def _cfg(spec, dev, bounds, kinds=ALL_KINDS, invs=()):
    ks = ", ".join('"%s"' % k for k in kinds)
    ds = ", ".join('"%s"' % d for d in dev)
    return (f"SPECIFICATION {spec}\nCONSTANTS Deviations = {{{ds}}}\n GenKinds = {{{ks}}}\n PdfSweep = \"{bounds['pdfsweep']}\"\n OdfSweep = \"{bounds['odfsweep']}\"\n"
            f" MaxRecs = {bounds['recs']}\n MaxEntries = {bounds['entries']}\n MaxMembers = {bounds['members']}\n"
            f" MaxFolders = {bounds['folders']}\n" + "".join(f"INVARIANT {i}\n" for i in invs))


def _plain(v):
    """tlaval value -> JSON-able (sets -> sorted lists)."""
    if isinstance(v, (tuple, list)):
        return [_plain(x) for x in v]
    if isinstance(v, (set, frozenset)):
        return sorted(_plain(x) for x in v)
    if isinstance(v, dict):
        return {str(k): _plain(x) for k, x in v.items()}
    return v if isinstance(v, (bool, int)) else str(v)


def _mk_cases(containers, ctx):
    """Abstract containers -> case descriptions (which format / fixture / variant); seeded choices only."""
    rng = random.Random(ctx.seed * 7919 + 8)
    cases = []

    def add(c, cls, ext, **kw):
        cases.append({"id": len(cases), "c": c, "cls": cls, "ext": ext, "seed": rng.randrange(1 << 30), **kw})
    by_kind = {}
    for c, cls in containers:
        by_kind.setdefault(c["kind"], []).append((c, cls))
    for c, cls in by_kind.get("ooxml", []):
        fmts = ["docx", "xlsx", "pptx"]
        if not ctx.thorough:          # quick: every container in one format (rotating), the interesting ones in all
            fmts = fmts if (cls != "MUSTNOT" and len(c["names"]) <= 2) or c["wrap"] == "zip" else [fmts[len(cases) % 3]]
        for f in fmts:
            add(c, cls, f)
    for c, cls in by_kind.get("ppt", []):
        for w in ([0, 1, 2] if ctx.thorough and len(c["names"]) <= 1 else [0]):
            add(c, cls, "ppt", which=w)
    for c, cls in by_kind.get("xls", []):
        add(c, cls, "xls")
    for c, cls in by_kind.get("doc", []):
        for w in (0, 1, 2, 3):            # three repository fixtures + one generated document
            add(c, cls, "doc", which=w)
    odf = by_kind.get("odf", [])
    for n, (c, cls) in enumerate(odf):
        fmts = ["odt", "ods", "odp", "odg", "odf"]
        if not ctx.thorough:
            default = (c["doctype"], c["prolog"], c["order"]) == ("none", "none", "path-first") and c["enc"] in ("utf8", "utf16")
            fmts = fmts if len(c["entries"]) == 1 and default else [fmts[(n + ctx.seed) % 5]]
        for f in fmts:
            add(c, cls, f)
    for c, cls in by_kind.get("pdf", []):
        for rep in range(2 if ctx.thorough else 1):
            add(c, cls, "pdf", rep=rep)
    for c, cls in by_kind.get("zip", []):
        add(c, cls, "zip")
    for c, cls in by_kind.get("sevenz", []):
        add(c, cls, "7z")
    for c, cls in by_kind.get("epub", []):
        add(c, cls, "epub")
    return cases


def run(ctx):
    ev, v = ctx.ev, ctx.v
    bounds = ({"recs": 4, "entries": 3, "members": 3, "folders": 2, "pdfsweep": "full", "odfsweep": "full"} if ctx.thorough
              else {"recs": 3, "entries": 2, "members": 2, "folders": 2, "pdfsweep": "diag", "odfsweep": "star"})
    # the theorem runs may use larger bounds than the replay (no artefact has to be built for them)
    tbounds = dict(bounds, recs=bounds["recs"] + 1)

    # ---- 1. theorem + sensitivity (in parallel: each is a small TLC run)
    def theorem():
        return run_tlc("EncryptionGen", _cfg("Spec", [], tbounds, invs=INVS), scratch=ctx.scratch, workers=4, timeout=900)

    def sens(d):
        return run_tlc("EncryptionGen", _cfg("Spec", [d], bounds, invs=INVS), scratch=ctx.scratch, workers=2,
                       timeout=900, expect_fail=True)

    dump = ctx.scratch / "enc.dump"

    # development knob (mutation self-tests): C08_KINDS=xls,zip restricts the REPLAY to those container kinds;
    # the theorem / sensitivity runs and the fixture traces are never restricted
    kinds = [k for k in os.environ.get("C08_KINDS", "").split(",") if k in ALL_KINDS] or ALL_KINDS

    def gen():
        return run_tlc("EncryptionGen", _cfg("GenSpec", [], bounds, kinds=kinds), scratch=ctx.scratch, workers=2,
                       timeout=900, dump=dump)
    with ThreadPoolExecutor(8) as ex:
        f_th = ex.submit(theorem)
        f_gen = ex.submit(gen)
        f_sens = {d: ex.submit(sens, d) for d in DEVIATIONS}
        r = f_th.result()
        ev.tlc("EncryptionGen: reference pipeline satisfies the 6 invariants on the bounded universe", r)
        if r.violated:
            v.violation(what=f"Encryption.tla: {r.violated} violated on the reference design", observed=r.trace[:3])
        for d, f in f_sens.items():
            rs = f.result()
            ev.tlc(f"sensitivity {d}: must violate {SENS_INV[d]}", rs, note="expected violation")
            if rs.violated != SENS_INV[d]:
                raise MachineryError(f"sensitivity run for {d} gave {rs.violated!r}, expected {SENS_INV[d]}")
        rg = f_gen.result()
    ev.tlc("EncryptionGen: enumeration of the abstract containers", rg)
    ctx.log(f"TLC: theorem {r.distinct} states {r.wall_s:.1f}s, enumeration {rg.distinct} states {rg.wall_s:.1f}s, "
            f"6 sensitivity runs ok")
    dpath = dump if dump.exists() else Path(str(dump) + ".dump")
    containers = sorted(((_plain(s["c"]), str(s["pc"])) for s in iter_dump(dpath)),
                        key=lambda t: json.dumps(t[0], sort_keys=True))
    if len(containers) != rg.distinct:
        raise MachineryError(f"dump has {len(containers)} states, TLC reported {rg.distinct}")
    cases = _mk_cases(containers, ctx)
    ctx.log(f"{len(containers)} abstract containers -> {len(cases)} concrete cases")

    # ---- 2. build (phase A) and run (phase B) in worker processes
    cdir = ctx.scratch / "cases"
    cdir.mkdir()
    t0 = time.time()
    with ThreadPoolExecutor(1) as bg:
        f_fx = bg.submit(_pool, "fixtures", [[{"seed": ctx.seed, "thorough": ctx.thorough, "part": i, "parts": 3}]
                                              for i in range(3)], ctx, cdir, 3)       # ---- 3. fixtures (code -> spec)
        built = _pool("build", [cases[i::NWORK] for i in range(NWORK)], ctx, cdir)
        cases = sorted((c for sh in built for c in sh), key=lambda c: c["id"])
        bad = [c for c in cases if c.get("selfcheck") != "ok"]
        if bad:
            raise MachineryError(f"concretiser self-check failed for {len(bad)} cases, e.g. {bad[0]['c']} -> {bad[0].get('selfcheck')}")
        ctx.log(f"built {len(cases)} artefacts in {time.time() - t0:.1f}s")
        t0 = time.time()
        ran = _pool("run", _shards(cases), ctx, cdir)
        traces = sorted((t for sh in ran for t in sh), key=lambda t: t["id"])
        ctx.log(f"ran {len(traces)} extractions in {time.time() - t0:.1f}s")
        if os.environ.get("C08_TIMING"):
            agg = {}
            for t in traces:
                if t["hdr"]["entry"] == "direct":
                    a = agg.setdefault(t["hdr"]["c"]["kind"], [0, 0.0])
                    a[0] += 1
                    a[1] += t["meta"]["dt"]
            slow = sorted((t for t in traces if t["hdr"]["entry"] == "direct"), key=lambda t: -t["meta"]["dt"])[:6]
            ctx.log("slowest: " + "; ".join(f"{t['meta']['dt']}s {t['hdr']['c'].get('alg', t['hdr']['c']['kind'])}" for t in slow))
            ctx.log("cpu per kind: " + ", ".join(f"{k2}: {n} cases {s2:.1f}s" for k2, (n, s2) in sorted(agg.items())))
        fx = [t for part in f_fx.result() for t in part]
    n_named = sum(1 for t in fx if t["ev"][0].get("named"))
    if len({t["meta"]["file"] for t in fx if t["ev"][0].get("named")}) < 10:
        raise MachineryError(f"only {n_named} protected-fixture traces found (expected 10 files): fixtures moved?")
    traces += fx

    # ---- 4. validation by TLC
    tr_cfg = "SPECIFICATION TraceSpec\nCONSTANT Deviations = {}\nCONSTRAINT TraceAccept\n"
    br = validate("EncryptionTrace", tr_cfg, traces, scratch=ctx.scratch, parallel=12, min_chunk=300, diagnose=6)
    ev.tlc_counts("EncryptionTrace: recorded extractions validated", br.distinct, br.states, br.wall_s)
    groups = {}
    for t, tv in zip(traces, br.verdicts):
        if tv.accepted:
            v.ok(1)
            continue
        # first event TLC refused (undiagnosed traces: the last event, which carries the outcome)
        if 0 <= tv.reached < len(t["ev"]):
            e = t["ev"][tv.reached]
            what = _explain(t, e)
        else:       # prefix not diagnosed for this trace: report the whole event sequence
            e = t["ev"][-1]
            seq = " ".join(x["a"] + (":" + str(x.get("cls", x.get("v", ""))) if x["a"] in ("Raise", "Detect") else "")
                           for x in t["ev"])
            what = (f"{t['hdr']['c']['kind']}: events [{seq}] of a {t['meta'].get('cls', '?')} container are not a "
                    f"behaviour of the specification (via {_via(t)})")
        g = groups.setdefault(what.split(" (via")[0], {"n": 0, "ex": [], "t": t, "e": e, "what": what})
        g["n"] += 1
        if len(g["ex"]) < 4:
            g["ex"].append({"container": t["hdr"]["c"] if len(json.dumps(t["hdr"]["c"])) < 600 else "(large)",
                            "entry": _via(t), **t["meta"], "events": t["ev"]})
    for key in sorted(groups):
        g = groups[key]
        t = g["t"]
        v.violation(what=f"{g['what']} -- {g['n']} traces rejected by EncryptionTrace",
                    case={"examples": g["ex"]},
                    expected=f"class {t['meta'].get('cls', '?')} per Encryption.tla: MUST -> ExtractionFileEncryptedError "
                             f"before any result, through every entry point; MUSTNOT -> never ExtractionFileEncryptedError",
                    observed=t["ev"], where=_where(t["hdr"]["c"]["kind"]))
    ev.replayed(len(traces))

    # ---- 5. binding demonstration, every run: corrupted copies of accepted traces must be rejected by TLC
    def pick(pred):
        return next((t for t, tv in zip(traces, br.verdicts) if tv.accepted and pred(t)), None)
    good_must = pick(lambda t: t["meta"].get("cls") == "MUST" and t["ev"][-1]["a"] == "Raise" and not t["meta"].get("fixture"))
    good_plain = pick(lambda t: t["meta"].get("cls") == "MUSTNOT" and t["ev"][-1]["a"] == "End" and not t["meta"].get("fixture"))
    if good_must and good_plain:
        def mut(t, f, tag):
            t2 = json.loads(json.dumps(t))
            f(t2["ev"])
            t2["id"] = tag
            return t2
        bad = [mut(good_must, lambda e: e[-1].update(cls="Other"), "corrupt:class"),
               mut(good_must, lambda e: e.insert(len(e) - 1, {"a": "Yield"}), "corrupt:yield-before-reject"),
               mut(good_plain, lambda e: e.__setitem__(-1, {"a": "Raise", "cls": "Encrypted", "name": "x", "exit": 1,
                                                            "out": "empty"}), "corrupt:plain-rejected"),
               mut(good_must, lambda e: e.__setitem__(-1, {"a": "End", "same": "n/a", "exit": 0, "out": "text"}),
                   "corrupt:encrypted-accepted")]
        cb = validate("EncryptionTrace", tr_cfg, [good_must, good_plain] + bad, scratch=ctx.scratch, parallel=1, diagnose=0)
        ev.tlc_counts("EncryptionTrace: 2 recorded + 4 corrupted traces (all 4 must be rejected)", cb.distinct, cb.states, cb.wall_s)
        got = [x.accepted for x in cb.verdicts]
        if got != [True, True, False, False, False, False]:
            raise MachineryError(f"binding demonstration failed: verdicts {got} for [good, good, 4 x corrupted]")
    elif kinds == ALL_KINDS:
        raise MachineryError("no accepted MUST / MUSTNOT trace to corrupt: the replay produced nothing usable")
    for t in traces:
        if t["meta"].get("cls") in ("MUST", "DONTCARE") or t["meta"].get("fixture"):
            ev.nontrivial((json.dumps(t["hdr"]["c"], sort_keys=True), t["meta"].get("ext")))
    for kind in ALL_KINDS:
        for t in traces:
            if t["hdr"]["c"]["kind"] == kind and t["meta"].get("cls") == "MUST" and t["hdr"]["entry"] == "cli":
                ev.sample({"container": t["hdr"]["c"], "file": t["meta"].get("ext"), "entry": "cli", "events": t["ev"]}, cap=12)
                break
    ev.set(rule="abstract containers enumerated by TLC (EncryptionGen) for 9 container kinds, each built for real and "
                "run through direct extractor / read_file / cli.main; + every repository fixture projected to its "
                "abstract container; non-trivial = distinct (container, format) classified MUST or DONTCARE, or a fixture",
           exhaustive=bool(ctx.thorough) and kinds == ALL_KINDS,
           constants={**bounds, "kinds": kinds, "containers": len(containers), "cases": len(cases), "entries": ENTRIES,
                      "fixture_traces": len(fx)})
    ev.assume("format-document readings transcribed by hand into Encryption.tla (Class*)",
              "PDF: the encrypted PDFs are written by mbv/c08_pdfcrypt.py (own AES / RC4 / standard security handler, "
              "vectors checked on import), not by the code under test; an empty owner password next to a non-empty user "
              "password is not in the universe",
              "PPT / DOC / XLS / ZIP cases are FLAGGED as encrypted by the format's mechanism (some ZIP members are "
              "really ZipCrypto-encrypted); 7z AES streams carry random bytes",
              "quick tier replays every container in at least one format; thorough in all")


def _via(t):
    h = t["hdr"]
    extra = ("" if h.get("pos", "start") == "start" else f", stream position {h['pos']}") + \
            ("" if h.get("mode", "fresh") == "fresh" else ", detector function called first on the same stream")
    return h["entry"] + extra


def _explain(t, e):
    c = t["hdr"]["c"]
    cls = t["meta"].get("cls", "?")
    a = e.get("a")
    if a == "Detect":
        return f"{c['kind']} detector returned {e.get('v')} for a {cls} container (via {_via(t)})"
    if a == "Yield":
        return f"{c['kind']}: a result was yielded for a {cls} container / after a positive detector verdict (via {_via(t)})"
    if a == "Raise":
        return (f"{c['kind']}: error class {e.get('cls')} ({e.get('name')}) for a {cls} container "
                f"(via {_via(t)}, exit={e.get('exit')}, stdout={e.get('out')})")
    if a == "End":
        return f"{c['kind']}: extraction of a {cls} container ended normally, same-as-plain={e.get('same')} (via {_via(t)})"
    if a == "Fixture":
        return f"fixture {t['meta'].get('file')} named protected={e.get('named')} but its projection is classified differently"
    return f"{c['kind']}: unexpected event {e}"


def _where(kind):
    return {"ooxml": "util/encryption.py:is_ooxml_encrypted; ms_modern/*_extractor.py:read_*",
            "ppt": "util/encryption.py:is_ppt_encrypted", "xls": "util/encryption.py:is_xls_encrypted",
            "doc": "doc_extractor.py:_DocReader._parse_content", "odf": "util/encryption.py:is_odf_encrypted",
            "pdf": "pdf_extractor.py:read_pdf/_open_pdf_reader", "zip": "archive_extractor.py:_extract_from_zip_optimized",
            "sevenz": "archive_extractor.py:_extract_from_7z_optimized; util/sevenzip.py",
            "epub": "epub_extractor.py:_is_epub_encrypted"}.get(kind, "")


def _pool(mode, shards, ctx, cdir, maxpar=14):
    """One fresh interpreter per shard (at most `maxpar` at a time); returns the shards' outputs in order."""
    def one(i_sh):
        i, sh = i_sh
        inp = ctx.scratch / f"{mode}-in-{i}.json"
        out = ctx.scratch / f"{mode}-out-{i}.json"
        inp.write_text(json.dumps(sh))
        p = subprocess.run([PY, "-m", "mbv.props.c08", mode, str(inp), str(out), str(cdir)], env=child_env(),
                           cwd=str(VERIF), capture_output=True, text=True, timeout=3000)
        if p.returncode != 0:
            raise MachineryError(f"c08 {mode} worker failed:\n{p.stderr[-3000:]}")
        return json.loads(out.read_text())
    with ThreadPoolExecutor(maxpar) as ex:
        return list(ex.map(one, list(enumerate(shards))))


def _shards(cases):
    """PDF cases grouped per (algorithm, passwords), a fresh process each: whether pypdf's AES fallback is already patched in is process history, and the
    property speaks about a single extraction (C15 covers histories); everything else in NWORK shards."""
    pdf = [c for c in cases if c["c"]["kind"] == "pdf"]
    rest = [c for c in cases if c["c"]["kind"] != "pdf"]
    groups = {}
    for c in pdf:
        cc = c["c"]
        # the plaintext-length layouts of one (algorithm, passwords) share a process: its first case meets the fresh
        # interpreter; AES-256 revision 6 costs seconds per open (pure-Python key derivation), so one case per process
        key = (cc["alg"], cc["userEmpty"], cc["owner"]) + ((c["id"],) if cc["alg"] == "AES-256" else ())
        groups.setdefault(key, []).append(c)
    pdf_shards = sorted(groups.values(), key=lambda g: (g[0]["c"]["alg"] != "AES-256", -len(g)))
    return pdf_shards + [sh for sh in (rest[i::NWORK] for i in range(NWORK)) if sh]


# =========================================================================== workers
def _build_one(case, cdir, rng, B):
    c, ext = case["c"], case["ext"]
    k = c["kind"]
    if k == "ooxml":
        data, proj = B.build_ooxml(c, ext, rng), B.project_ooxml
    elif k == "ppt":
        data, proj = B.build_ppt(c, rng, case.get("which", 0)), B.project_ppt
    elif k == "xls":
        data, proj = B.build_xls(c, rng), B.project_xls
    elif k == "doc":
        data, proj = B.build_doc(c, case.get("which", 0)), B.project_doc
    elif k == "odf":
        data, proj = B.build_odf(c, ext, rng), B.project_odf
    elif k == "pdf":
        plain = B.plain_pdf_for(c, case.get("rep", 0))
        data, proj = B.build_pdf(c, rng, plain, case.get("rep", 0)), B.project_pdf
        (cdir / f"{case['id']}").mkdir(exist_ok=True)
        (cdir / f"{case['id']}" / "plain.pdf").write_bytes(plain)
    elif k == "zip":
        data, proj = B.build_zip(c, rng), B.project_zip
    elif k == "sevenz":
        data, proj = B.build_sevenz(c, rng), B.project_sevenz
    elif k == "epub":
        data, proj = B.build_epub(c, rng), B.project_epub
    else:
        raise ValueError(k)
    d = cdir / f"{case['id']}"
    d.mkdir(exist_ok=True)
    stem = rng.choice(["report", "Quarterly Report", "x", "données"])
    f = d / f"{stem}.{ext}"
    f.write_bytes(data)
    case["file"] = str(f)
    p = proj(data)
    case["selfcheck"] = "ok" if B.signature(p) == B.signature(c) else f"projection {p}"
    return case


def _worker_build(inp, out, cdir):
    from ..repo import activate
    activate()
    import warnings
    warnings.simplefilter("ignore")
    from .. import c08_build as B
    cases = json.loads(Path(inp).read_text())
    res = []
    for case in cases:
        res.append(_build_one(case, Path(cdir), random.Random(case["seed"]), B))
    Path(out).write_text(json.dumps(res))


class _Recorder:
    """Wrappers (installed by name, nothing is committed to the library) that log Detect events."""

    def __init__(self):
        self.events = None
        self.kind = None
        self.installed = []

    def wrap(self, module, name, kind):
        import importlib
        try:
            mod = importlib.import_module(module)
        except Exception:
            return
        fn = getattr(mod, name, None)
        if fn is None:
            return          # a refactoring may inline a detector: Detect events are optional in the trace
        rec = self

        def wrapper(*a, **kw):
            r = fn(*a, **kw)
            if rec.events is not None and rec.kind == kind:
                rec.events.append({"a": "Detect", "v": bool(r)})
            return r
        wrapper.__name__ = name
        wrapper.__wrapped__ = fn
        setattr(mod, name, wrapper)
        self.installed.append(f"{module}.{name}")

    def install(self):
        X = "sharepoint2text.parsing.extractors."
        for m in ("ms_modern.docx_extractor", "ms_modern.xlsx_extractor", "ms_modern.pptx_extractor"):
            self.wrap(X + m, "is_ooxml_encrypted", "ooxml")
        self.wrap(X + "ms_legacy.ppt_extractor", "is_ppt_encrypted", "ppt")
        self.wrap(X + "ms_legacy.xls_extractor", "is_xls_encrypted", "xls")
        for m in ("odt", "ods", "odp", "odg", "odf"):
            self.wrap(X + f"open_office.{m}_extractor", "is_odf_encrypted", "odf")
        self.wrap(X + "epub_extractor", "_is_epub_encrypted", "epub")
        try:
            from sharepoint2text.parsing.extractors.util import sevenzip
            orig = sevenzip.SevenZipFile.needs_password
            rec = self

            def needs_password(self_):
                r = orig(self_)
                if rec.events is not None and rec.kind == "sevenz":
                    rec.events.append({"a": "Detect", "v": bool(r)})
                return r
            sevenzip.SevenZipFile.needs_password = needs_password
        except Exception:
            pass


def _cls(exc, Enc):
    return "Encrypted" if isinstance(exc, Enc) else "Other"


def _extractor_for(ext):
    import importlib
    from sharepoint2text.parsing.router import _EXTRACTOR_REGISTRY, _EXTENSION_ALIASES
    ft = _EXTENSION_ALIASES.get(ext, ext)
    mod, name = _EXTRACTOR_REGISTRY[ft]
    return getattr(importlib.import_module(mod), name)


def _cli_stdout(cli, path):
    import contextlib
    import io
    so, se = io.StringIO(), io.StringIO()
    with contextlib.redirect_stdout(so), contextlib.redirect_stderr(se):
        try:
            code = cli.main([str(path)])
        except SystemExit as e:
            code = e.code if isinstance(e.code, int) else 1
    return code, so.getvalue()


def _summary(results):
    """Projection of extraction results for the same-as-original comparison (paths dropped: the files differ in name)."""
    import hashlib
    out = []
    for r in results:
        md = dict(r.get_metadata().to_dict())
        for key in ("filename", "file_path", "folder_path"):
            md.pop(key, None)
        out.append({"text": r.get_full_text(), "units": [u.get_text() for u in r.iterate_units()],
                    "tables": [t.get_table() for t in r.iterate_tables()],
                    "images": [hashlib.sha1(i.get_bytes().getvalue()).hexdigest() for i in r.iterate_images()],
                    "meta": md})
    return out


def _observe(path, ext, kind, rec, Enc, same_fn=None, plain_path=None, variants=None):
    """Run one file through the entry points / call variants of CALLS; returns {call key: events}."""
    import contextlib
    import io
    import sharepoint2text
    from sharepoint2text import cli
    out = {}
    data = Path(path).read_bytes()
    # ---- direct extractor: stream at the start, in the middle, at the end; and after the kind's detector function
    # ran first on the same stream object (left wherever the detector leaves it)
    for key, _entry, pos, mode in CALLS:
        if _entry != "direct" or (variants is not None and key not in variants):
            continue
        if mode == "after-detector" and kind not in DETECTOR_FN:
            continue
        evs = []
        rec.events, rec.kind = evs, kind
        try:
            stream = io.BytesIO(data)
            stream.seek({"start": 0, "middle": max(1, len(data) // 2), "end": len(data)}[pos])
            if mode == "after-detector":
                from sharepoint2text.parsing.extractors.util import encryption as _enc
                det = getattr(_enc, DETECTOR_FN[kind], None)
                if det is None:
                    continue                     # detector inlined by a refactoring: this variant does not apply
                evs.append({"a": "Detect", "v": bool(det(stream))})
            fn = _extractor_for(ext)
            results = []
            for r in fn(stream, str(path)):
                evs.append({"a": "Yield"})
                results.append(r)
            evs.append({"a": "End", "same": same_fn(results, "direct") if same_fn else "n/a", "exit": 0, "out": "n/a"})
        except Exception as e:
            evs.append({"a": "Raise", "cls": _cls(e, Enc), "name": type(e).__name__, "exit": 1, "out": "n/a"})
        out[key] = evs
    # ---- read_file
    evs = []
    rec.events, rec.kind = evs, kind
    try:
        results = []
        for r in sharepoint2text.read_file(str(path)):
            evs.append({"a": "Yield"})
            results.append(r)
        evs.append({"a": "End", "same": same_fn(results, "read_file") if same_fn else "n/a", "exit": 0, "out": "n/a"})
    except Exception as e:
        evs.append({"a": "Raise", "cls": _cls(e, Enc), "name": type(e).__name__, "exit": 1, "out": "n/a"})
    out["read_file"] = evs
    # ---- CLI, in process; read_file as the CLI sees it is wrapped to count results and see the error class
    evs = []
    rec.events, rec.kind = evs, kind
    real = sharepoint2text.read_file
    seen = {}

    def counting(*a, **kw):
        try:
            for r in real(*a, **kw):
                evs.append({"a": "Yield"})
                yield r
        except Exception as e:
            seen["exc"] = e
            raise
    sharepoint2text.read_file = counting
    so, se = io.StringIO(), io.StringIO()
    try:
        with contextlib.redirect_stdout(so), contextlib.redirect_stderr(se):
            try:
                code = cli.main([str(path)])
            except SystemExit as e:
                code = e.code if isinstance(e.code, int) else 1
            except Exception as e:       # the CLI must not leak exceptions; class recorded, exit treated as failure
                seen.setdefault("exc", e)
                code = 1
    finally:
        sharepoint2text.read_file = real
    outk = "empty" if so.getvalue().strip() == "" else "text"
    if "exc" in seen:
        e = seen["exc"]
        evs.append({"a": "Raise", "cls": _cls(e, Enc), "name": type(e).__name__, "exit": int(code), "out": outk})
    else:
        same = "n/a"
        if plain_path is not None:       # the CLI prints the full text: compare with what it prints for the original
            pcode, ptext = _cli_stdout(cli, plain_path)
            same = "yes" if (pcode == 0 and code == 0 and ptext == so.getvalue() and ptext.strip()) else "no"
        evs.append({"a": "End", "same": same, "exit": int(code), "out": outk})
    out["cli"] = evs
    rec.events = None
    return out


def _init_worker():
    from ..repo import activate, need
    activate()
    import logging
    import warnings
    warnings.simplefilter("ignore")
    logging.disable(logging.CRITICAL)
    exc = need("sharepoint2text.parsing.exceptions", "ExtractionFileEncryptedError")
    need("sharepoint2text.cli", "main")
    need("sharepoint2text", "read_file")
    rec = _Recorder()
    rec.install()
    return rec, exc.ExtractionFileEncryptedError


def _worker_run(inp, out, cdir):
    import io
    rec, Enc = _init_worker()
    from .. import docrun
    cases = json.loads(Path(inp).read_text())
    traces = []
    for case in cases:
        c, ext, path = case["c"], case["ext"], case["file"]
        same_fn = plain_path = None
        if c["kind"] == "pdf" and c["alg"] != "none" and c["userEmpty"]:
            plain_path = Path(path).parent / "plain.pdf"
            plain = plain_path.read_bytes()
            enc = Path(path).read_bytes()

            def same_fn(results, entry, plain=plain, enc=enc, memo={}):
                # (1) everything the results expose -- text, units, tables, image bytes, metadata -- against the
                #     original's, (2) once per case, the shared token observation docrun.observe on both files
                if "plain" not in memo:
                    memo["plain"] = _summary(list(_extractor_for("pdf")(io.BytesIO(plain), "gen.pdf")))
                    memo["tok"] = (docrun.observe({"fmt": "pdf", "data": plain, "path": "gen.pdf"})
                                   == docrun.observe({"fmt": "pdf", "data": enc, "path": "gen.pdf"}))
                ok = memo["tok"] and memo["plain"] and _summary(results) == memo["plain"]
                return "yes" if ok else "no"
        t0 = time.time()
        # AES-256 revision 6 costs seconds per open: one position variant only
        variants = {"direct", "direct@end"} if c.get("alg") == "AES-256" else None
        obs = _observe(path, ext, c["kind"], rec, Enc, same_fn, plain_path, variants)
        dt = round(time.time() - t0, 3)
        for key, entry, pos, mode in CALLS:
            if key not in obs:
                continue
            traces.append({"id": f"{case['id']}:{key}", "hdr": {"c": c, "entry": entry, "pos": pos, "mode": mode}, "ev": obs[key],
                           "meta": {"ext": ext, "cls": case["cls"], "file": os.path.basename(path), "dt": dt}})
    Path(out).write_text(json.dumps(traces))


def _worker_fixtures(inp, out, cdir):
    """Every fixture of the repository (+ FILEPASS inserted into real workbook streams) as traces."""
    rec, Enc = _init_worker()
    from .. import c08_build as B
    job = json.loads(Path(inp).read_text())[0]
    rng = random.Random(job["seed"] * 31 + 5)
    res_dir = REPO / "sharepoint2text" / "tests" / "resources"
    files = sorted(p for p in res_dir.rglob("*") if p.is_file() and p.stat().st_size > 0)
    if len(files) < 40:
        raise RuntimeError(f"fixtures vanished: only {len(files)} files under {res_dir}")
    traces = []
    from sharepoint2text.parsing.router import is_supported_file
    part, parts = job.get("part", 0), job.get("parts", 1)
    for n, p in enumerate(files):
        if n % parts != part or not is_supported_file(str(p)):
            continue
        named = any(w in p.name.lower() for w in ("password", "protected", "encrypted"))
        c = B.project_fixture(p, named)
        ext = p.suffix.lower().lstrip(".")
        try:
            _extractor_for(ext)
        except Exception:
            continue
        obs = _observe(p, ext, c["kind"], rec, Enc)
        for key, entry, spos, mode in CALLS:
            if key not in obs:
                continue
            traces.append({"id": f"fx:{p.name}:{key}", "hdr": {"c": c, "entry": entry, "pos": spos, "mode": mode},
                           "ev": [{"a": "Fixture", "named": named}] + obs[key],
                           "meta": {"ext": ext, "fixture": True, "file": str(p.relative_to(res_dir)),
                                    "cls": "MUST" if named else "?"}})
    # FILEPASS inserted into the real workbook streams of the fixtures, at many record positions
    d = Path(cdir) / "xlsreal"
    d.mkdir(exist_ok=True)
    for rel, npos in [] if part != 0 else (("legacy_ms/mwe.xls", 24 if job["thorough"] else 8), ("legacy_ms/xls_with_images.xls", 10 if job["thorough"] else 3)):
        _, nrec = B.xls_insertions(rel, [], rng)
        pos = sorted({0, 1, 2, nrec - 1, nrec} | {rng.randrange(nrec + 1) for _ in range(npos)})
        for ovr in (False, True):
            cases, _ = B.xls_insertions(rel, pos if not ovr else pos[:3], rng, ovr_before=ovr)
            for ppos, data in cases:
                f = d / f"{Path(rel).stem}-{ppos}-{int(ovr)}.xls"
                f.write_bytes(data)
                c = B.project_xls(data)
                obs = _observe(f, "xls", "xls", rec, Enc)
                for key, entry, spos, mode in CALLS:
                    if key not in obs:
                        continue
                    traces.append({"id": f"xlsreal:{f.name}:{key}", "hdr": {"c": c, "entry": entry, "pos": spos, "mode": mode},
                                   "ev": obs[key],
                                   "meta": {"ext": "xls", "file": f.name, "cls": "DONTCARE" if ovr else "MUST",
                                            "variant": f"FILEPASS inserted before record {ppos} of {rel}" + (" behind an overrunning record" if ovr else "")}})
    Path(out).write_text(json.dumps(traces))


if __name__ == "__main__":
    mode = sys.argv[1]
    {"build": _worker_build, "run": _worker_run, "fixtures": _worker_fixtures}[mode](*sys.argv[2:5])
