"""C20 -- the built-in AES equals FIPS-197 AES in ECB / CBC; stream wrapper; ValueError on wrong lengths.

Specs: specs/AES.tla (GF(2^8), S-box, tables, key schedule, cipher / inverse cipher as a step
machine, all derived from first principles), AESModes.tla (ECB, CBC, PKCS#7, CryptAES wrapper),
AESVectors.tla (published known answers), AESAlg.tla / AESKat.tla / AESModesKat.tla (what TLC proves about the
specification itself), AESTrace.tla (code -> spec trace validation).

1. TLC, specification only: the algebraic theorems (S-box bijective and inverse, tables linear,
   ShiftRows / MixColumns inverses, Rcon), FIPS-197 appendix A/B/C and SP 800-38A known answers,
   decrypt inverts encrypt, wrapper round trip, rejections; sensitivity runs (invariants that must
   fail; named deviations NoSubWord256 / CbcChainPlain / PadZeroWhenAligned must break them).
2. A worker process imports _pypdf_aes_fallback from $SP2T_REPO, wraps its module-level functions
   by name (no source hooks) and records: the eight tables (+ Rcon), direct calls of every round
   function on unit / basis / covering states and of the padding helpers, and complete round-level
   traces of seeded random calls of aes_ecb_*, aes_cbc_*, _expand_key and CryptAES.encrypt/decrypt
   (after patch_pypdf_fallback_aes()), wrong lengths included, with interleaved / related keys so
   that the round-key cache is exercised.
3. TLC validates every recorded trace against AESTrace (expected values are computed by TLC from
   the specification; Python never computes AES).
"""
from __future__ import annotations

import json
import random
import re
import subprocess
import sys
import time
from concurrent.futures import ThreadPoolExecutor
from pathlib import Path

from .. import PY, VERIF
from ..repo import child_env
from ..tlc import MachineryError, run_tlc
from ..traces import validate

MOD = "sharepoint2text.parsing.extractors.pdf._pypdf_aes_fallback"
WHERE = "sharepoint2text/parsing/extractors/pdf/_pypdf_aes_fallback.py"

ALG_THMS = ("Thm_XorIsBitwise Thm_FieldInverse Thm_GMulCommutes Thm_GMulExample Thm_SBoxInverse "
            "Thm_SBoxBijective Thm_SBoxExample Thm_SBoxNoFixpoint Thm_MulTables Thm_MulLinear "
            "Thm_ShiftRows Thm_MixColumns Thm_Rcon").split()
KAT_INVS = "Inv_KeyExpansion Inv_Cipher Inv_DecryptInvertsEncrypt".split()
MODE_INVS = ("Thm_Pad Thm_ValidPadRejects Inv_ModeKnownAnswer Inv_ModeDecryptInvertsEncrypt Inv_WrapStream "
             "Inv_WrapRoundTrip Inv_ObjectOwnKey Inv_Rejects Inv_NoSpuriousReject Inv_Termination").split()


def _cfg(spec, invs, dev="{}"):
    return f"SPECIFICATION {spec}\nCONSTANTS Deviations = {dev}\n" + "".join(f"INVARIANT {i}\n" for i in invs)


# --------------------------------------------------------------------------- 1. TLC on the specification
def _spec_theorems(ctx):
    ev, v = ctx.ev, ctx.v
    jobs = [
        ("AESAlg: GF(2^8), S-box, tables, ShiftRows, MixColumns, Rcon", "AESAlg",
         _cfg("AlgSpec", ALG_THMS), None),
        ("AESKat known answers: FIPS-197 A.1-A.3, B, C.1-C.3; decrypt inverts encrypt", "AESKat",
         _cfg("KatSpec", KAT_INVS), None),
        ("AESModesKat: SP 800-38A ECB/CBC, PKCS#7, wrapper round trip, rejections", "AESModesKat",
         _cfg("KSpec", MODE_INVS), None),
        # sensitivity: each of these MUST fail
        ("sensitivity: cipher text is reached (AESKat)", "AESKat",
         _cfg("KatSpec", ["Sens_NeverReachesCipherText"]), "Sens_NeverReachesCipherText"),
        ("sensitivity: deviation NoSubWord256 breaks the 256-bit known answers", "AESKat",
         _cfg("KatSpec", KAT_INVS, '{"NoSubWord256"}'), "Inv_"),
        ("sensitivity: deviation CbcChainPlain breaks the CBC known answers", "AESModesKat",
         _cfg("KSpec", ["Inv_ModeKnownAnswer"], '{"CbcChainPlain"}'), "Inv_ModeKnownAnswer"),
        ("sensitivity: deviation SharedWrapperKey (key shared by all wrapper objects) breaks Inv_ObjectOwnKey",
         "AESModesKat", _cfg("KSpec", ["Inv_ObjectOwnKey"], '{"SharedWrapperKey"}'), "Inv_ObjectOwnKey"),
    ]
    if ctx.thorough:
        jobs += [
            ("sensitivity: decryption reaches the plain text (AESKat)", "AESKat",
             _cfg("KatSpec", ["Sens_NeverDecrypts"]), "Sens_NeverDecrypts"),
            ("sensitivity: CBC known answer is reached", "AESModesKat",
             _cfg("KSpec", ["Sens_NoCbcAnswer"]), "Sens_NoCbcAnswer"),
            ("sensitivity: wrapper round trip is reached", "AESModesKat",
             _cfg("KSpec", ["Sens_NoWrapRoundTrip"]), "Sens_NoWrapRoundTrip"),
            ("sensitivity: a rejection is reached", "AESModesKat",
             _cfg("KSpec", ["Sens_NoReject"]), "Sens_NoReject"),
            ("sensitivity: deviation PadZeroWhenAligned breaks the wrapper round trip", "AESModesKat",
             _cfg("KSpec", ["Inv_WrapStream", "Inv_WrapRoundTrip"], '{"PadZeroWhenAligned"}'), "Inv_Wrap"),
        ]

    def one(job):
        name, spec, cfg, must_fail = job
        return job, run_tlc(spec, cfg, scratch=ctx.scratch, workers=2, timeout=900,
                            expect_fail=must_fail is not None)

    with ThreadPoolExecutor(max_workers=7) as ex:
        results = list(ex.map(one, jobs))
    for (name, spec, cfg, must_fail), r in results:
        if must_fail is None:
            ev.tlc(name, r)
            if r.violated:       # run_tlc raises already; kept for clarity
                v.violation(what=f"{spec}: {r.violated} violated on the specification", observed=r.trace[:2])
        else:
            ev.tlc(name, r, note="expected violation")
            if not r.violated or not r.violated.startswith(must_fail):
                raise MachineryError(f"sensitivity run '{name}' did not fail as expected (got {r.violated!r}): "
                                     "the invariant is vacuous")
    ctx.log("specification theorems: " + ", ".join(f"{r.distinct} states/{r.wall_s:.0f}s" for _, r in results))


# --------------------------------------------------------------------------- 3. bulk validation
_ACC = re.compile(r'<<"ACCEPT", (\d+)>>')
TRACE_CFG = "SPECIFICATION TraceSpec\nCONSTANTS Deviations = {}\nCONSTRAINT TraceAccept\n"


def _bulk_validate(ctx, traces, parallel):
    """One TLC run per chunk (workers=1), chunks in parallel.  Returns (accepted flags, distinct, generated, wall).
    Unlike mbv.traces.validate this does not re-run every rejected trace (a broken table rejects thousands);
    the caller re-runs a few of them through validate() to find the first unmatched event."""
    weights = [len(t["ev"]) + 40 for t in traces]
    order = sorted(range(len(traces)), key=lambda i: -weights[i])
    nch = max(1, min(parallel, len(traces)))
    bins = [[] for _ in range(nch)]
    load = [0] * nch
    for i in order:                      # greedy balance by number of events
        k = load.index(min(load))
        bins[k].append(i)
        load[k] += weights[i]
    bins = [sorted(b) for b in bins if b]

    def run_chunk(ci):
        idx = bins[ci]
        f = ctx.scratch / f"aes-traces-{ci}.json"
        f.write_text(json.dumps([traces[i] for i in idx], separators=(",", ":")))
        r = run_tlc("AESTrace", TRACE_CFG, scratch=ctx.scratch, workers=1, timeout=1500,
                    env={"TRACE_FILE": str(f), "MBV_PROGRESS": "0"}, heap="3g")
        acc = {int(x) for x in _ACC.findall(r.output)}
        f.unlink(missing_ok=True)
        return [(gi, (k in acc)) for k, gi in enumerate(idx, start=1)], r

    accepted = [False] * len(traces)
    distinct = generated = 0
    t0 = time.time()
    with ThreadPoolExecutor(max_workers=len(bins)) as ex:
        for flags, r in ex.map(run_chunk, range(len(bins))):
            for gi, ok in flags:
                accepted[gi] = ok
            distinct += r.distinct
            generated += r.generated
    return accepted, distinct, generated, time.time() - t0


def _hex(x):
    if isinstance(x, list) and all(isinstance(b, int) for b in x):
        return bytes(b & 255 for b in x).hex() if all(0 <= b < 256 for b in x) else str(x)
    return x


def _describe(t, reached):
    """Human-readable account of the first event TLC could not match."""
    evs = t["ev"]
    if reached >= len(evs):
        return "trace ends before the specification's call is complete", {}
    e = evs[reached]
    call = next((x for x in reversed(evs[:reached + 1]) if x["a"] == "Call"), None) or \
        next((x for x in evs if x["a"] == "Call"), None)
    if call is not None and call.get("obj"):
        own = next((x["key"] for x in evs if x["a"] == "New" and x["obj"] == call["obj"]), [])
        call = dict(call, key=own)
    ctxd = {}
    if call is not None:
        ctxd = {"fn": call["fn"], "key": _hex(call["key"]), "iv": _hex(call["iv"]), "data": _hex(call["data"])}
    prev_state = next((_hex(x.get("s") or x.get("in")) for x in reversed(evs[:reached]) if "s" in x or "in" in x), None)
    obs = {k: _hex(val) for k, val in e.items()}
    a = e["a"]
    if a == "Table":
        what = f"table {e['name']} of the code differs from the table derived from FIPS-197"
    elif a == "Unit":
        what = f"round function / helper '{e['op']}' called directly returns a value different from the specification's"
    elif a == "Fresh":
        what = "CryptAES.encrypt reused an IV (or produced one that is not 16 bytes) over repeated calls"
    elif a == "KW":
        n = sum(1 for x in evs[:reached] if x["a"] == "KW")
        what = (f"round keys obtained for this call differ from the FIPS-197 key expansion of the call's key "
                f"at word {n} (key schedule or round-key cache)")
        if n == 0:
            what += "; or the call had to be rejected with ValueError (wrong key / IV / data length) and was not"
    elif a in ("ARK", "SUB", "SHIFT", "MIX", "ISHIFT", "ISUB", "IMIX"):
        what = f"round step {a} is not the specification's next step or gives a different state (state before: {prev_state})"
    elif a == "Blk":
        what = "block cipher entered with a block different from the specification's (mode chaining / block order)"
    elif a == "BlkOut":
        what = "block function returned something else than the final state"
    elif a in ("Ret", "SubRet", "BadRet"):
        what = "call returned a value different from the specification's result (or returned where ValueError is required)"
    elif a in ("Raise", "SubRaise"):
        what = f"call raised {e.get('exc')} where the specification does not allow it (or another error class than ValueError)"
    elif a == "Perms":
        what = ("pypdf AlgV5.verify_perms answered differently from what the specification's ECB decryption of the "
                "/Perms block implies")
    elif a == "Sub":
        what = "stream wrapper handed other arguments to the CBC layer than key / IV / padded message"
    else:
        what = f"event {a} not accepted"
    if t["hdr"].get("fn") == "wrap_history":
        objs = {x["obj"]: _hex(x["key"]) for x in evs[:reached + 1] if x["a"] == "New"}
        what = (f"history with {len(objs)} live CryptAES objects: the call on object {call.get('obj') if call else '?'} "
                f"is not what the specification gives under the key of ITS OWN object: " + what)
        return what, {"call": ctxd, "objects": objs, "event_index": reached, "event": obs}
    if t["hdr"].get("binding"):
        what = (f"{t['hdr']['binding']} (installed by patch_pypdf_fallback_aes) does not behave as the function "
                f"its name promises ({t['hdr']['fn']}): " + what)
    return what, {"call": ctxd, "event_index": reached, "event": obs}


# --------------------------------------------------------------------------- driver
def run(ctx):
    ev, v = ctx.ev, ctx.v
    t0 = time.time()
    # 2. start the recorder first (it runs while TLC checks the specification)
    out = ctx.scratch / "aes-traces.json"
    job = {"seed": ctx.seed, "thorough": ctx.thorough, "out": str(out)}
    if ctx.replay:      # re-run exactly the call of a replay file (tables + that call); the cache history is not replayed
        call = ((json.loads(Path(ctx.replay).read_text()).get("case") or {}).get("call")) or {}
        if call.get("fn"):
            job["replay"] = call
            ctx.log(f"replaying {call['fn']} key={call['key']} iv={call['iv']} data={call['data']}")
    proc = subprocess.Popen([PY, "-m", "mbv.props.c20", "worker", json.dumps(job)], env=child_env(),
                            cwd=str(VERIF), stdout=subprocess.PIPE, stderr=subprocess.PIPE, text=True)
    try:
        if "replay" not in job:
            _spec_theorems(ctx)
    except BaseException:
        proc.kill()
        raise
    so, se = proc.communicate(timeout=1500)
    if proc.returncode == 3:
        raise MachineryError("binding vanished: " + se.strip()[-800:])
    if proc.returncode != 0:
        raise MachineryError(f"AES recorder failed (rc={proc.returncode}):\n{se[-2500:]}")
    rec = json.loads(out.read_text())
    traces, stats = rec["traces"], rec["stats"]
    n_events = sum(len(t["ev"]) for t in traces)
    ctx.log(f"recorded {len(traces)} traces / {n_events} events / {stats['blocks']} cipher blocks "
            f"in {stats['wall_s']:.1f}s (spec theorems + recording {time.time() - t0:.0f}s)")

    accepted, distinct, generated, wall = _bulk_validate(ctx, traces, parallel=12 if ctx.thorough else 8)
    ev.tlc_counts("AESTrace: recorded tables, unit calls and round-level call traces validated", distinct, generated, wall)
    rejected = [i for i, ok in enumerate(accepted) if not ok]
    for i, ok in enumerate(accepted):
        if ok:
            v.ok(1)
    ev.replayed(len(traces))
    if rejected:
        # find the first unmatched event for a few of them (one of each kind first), report the rest in bulk
        by_kind = {}
        for i in rejected:
            by_kind.setdefault(traces[i]["hdr"]["kind"], []).append(i)
        detail = []
        for kind in sorted(by_kind):
            detail += by_kind[kind][:2]
        detail = detail[:8]
        br = validate("AESTrace", TRACE_CFG, [traces[i] for i in detail], scratch=ctx.scratch, parallel=8, min_chunk=1)
        for i, tv in zip(detail, br.verdicts):
            t = traces[i]
            if tv.accepted:
                raise MachineryError(f"trace {t['id']} rejected in the batch but accepted alone")
            what, case = _describe(t, tv.reached)
            v.violation(what=f"[{t['id']}] {what}", case=case, observed=case.get("event"),
                        expected="the value AESTrace.tla computes from FIPS-197 (see specs/AES.tla) for this step",
                        where=WHERE + ":" + t["hdr"].get("where", ""))
        rest = [traces[i]["id"] for i in rejected if i not in detail]
        if rest:
            v.violation(what=f"{len(rest)} more recorded traces rejected by AESTrace", case={"ids": rest[:200]}, where=WHERE)
    # evidence
    for t in traces:
        h = t["hdr"]
        if h["kind"] == "call" and h.get("blocks", 0) > 0:
            ev.nontrivial((h["fn"], h["keylen"], h["blocks"], h.get("len", 0)))
        elif h["kind"] in ("tables", "unit"):
            ev.nontrivial((h["kind"], t["id"]))
    for t in traces[:: max(1, len(traces) // 7)]:
        c = next((x for x in t["ev"] if x["a"] == "Call"), None)
        r = next((x for x in reversed(t["ev"]) if x["a"] in ("Ret", "Raise")), None)
        if c and r:
            ev.sample({"trace": t["id"], "fn": c["fn"], "key": _hex(c["key"]), "iv": _hex(c["iv"]),
                       "data": _hex(c["data"]), "outcome": _hex(r.get("out", r.get("exc"))), "events": len(t["ev"])})
        else:
            ev.sample({"trace": t["id"], "events": len(t["ev"]), "first": {k: _hex(x) for k, x in t["ev"][0].items()}})
    ev.set(rule="tables: all 256 inputs of each of the 8 tables (+Rcon 1..10); SubBytes/InvSubBytes on states covering "
                "all byte values, ShiftRows/InvShiftRows on the 16 unit states + the index state, MixColumns/"
                "InvMixColumns on all 128 single-bit states; PKCS#7 pad/unpad lengths 0..64 with random and padding-hostile messages (tail bytes equal to the pad byte, all-pad-byte, ending in 00/10/01); seeded random "
                "(key, iv, message) calls of ECB/CBC enc/dec for 128/192/256-bit keys with related / repeated keys; "
                "CryptAES.encrypt/decrypt for the message lengths listed under constants (thorough: every length 0..64) plus padding-hostile plaintexts round-tripped and decrypted from hand-padded streams; wrong key / IV / data lengths. "
                "non-trivial = distinct (function, key length, blocks, message length) with >= 1 cipher block, "
                "plus each table / unit group",
           exhaustive=False,
           constants={"traces": len(traces), "events": n_events, "cipher_blocks": stats["blocks"],
                      "calls": stats["calls"], "rejections_expected": stats["bad_calls"],
                      "wrapper_lengths": stats["wrapper_lengths"],
                      "hostile_plaintexts": stats.get("hostile_plaintexts", 0), "key_sizes": [16, 24, 32],
                      "object_histories": stats.get("object_histories", 0),
                      "pypdf_bindings_driven": stats.get("bindings", []),
                      "pypdf_bindings_changed_but_not_modelled": stats.get("bindings_not_modelled", [])})
    ev.assume("FIPS-197 / SP 800-38A known answers and the affine map were transcribed by hand into AESVectors.tla / "
              "AES.tla (cross-checked: TLC derives the published ciphertexts from the first-principles model)",
              "Bitwise!^^ of the TLA+ CommunityModules is trusted as XOR (checked against bitwise addition mod 2 on all byte pairs)",
              "IV freshness is observable only as length 16 + pairwise distinctness over repeated calls",
              "binding is by name: the module-level round functions, _get_round_keys/_expand_key, block and mode functions; "
              "if one vanishes the check exits 2",
              "composition (random keys/blocks) is sampled, the byte-level tables and linear layers are exhaustive")


# =========================================================================== recorder (worker process)
class _Vanished(Exception):
    pass


def _bl(x):
    """bytes-like -> list of ints; None when x is not bytes-like."""
    try:
        return list(bytes(x))
    except Exception:
        return None


class Recorder:
    ROUND = [("_add_round_key", "ARK"), ("_sub_bytes", "SUB"), ("_shift_rows", "SHIFT"), ("_mix_columns", "MIX"),
             ("_inv_sub_bytes", "ISUB"), ("_inv_shift_rows", "ISHIFT"), ("_inv_mix_columns", "IMIX")]
    MODES = [("aes_ecb_encrypt", "ecb_enc", False), ("aes_ecb_decrypt", "ecb_dec", False),
             ("aes_cbc_encrypt", "cbc_enc", True), ("aes_cbc_decrypt", "cbc_dec", True)]
    TABLES = [("_SBOX", "SBOX"), ("_INV_SBOX", "INV_SBOX"), ("_MUL2", "MUL2"), ("_MUL3", "MUL3"), ("_MUL9", "MUL9"),
              ("_MUL11", "MUL11"), ("_MUL13", "MUL13"), ("_MUL14", "MUL14")]

    def __init__(self, M):
        self.M = M
        self.log = []
        self.depth = 0
        self.in_keys = 0
        self.blocks = 0
        self.orig = {}
        need = [n for n, _ in self.ROUND] + [n for n, _, _ in self.MODES] + [n for n, _ in self.TABLES] + \
               ["_aes_encrypt_block", "_aes_decrypt_block", "_expand_key", "_pkcs7_pad", "_pkcs7_unpad",
                "patch_pypdf_fallback_aes"]
        for n in need:
            if not hasattr(M, n):
                raise _Vanished(f"{MOD}.{n}")
            self.orig[n] = getattr(M, n)

    # ---- wrappers
    def install(self):
        M = self.M
        for name, op in self.ROUND:
            setattr(M, name, self._round(name, op))
        for name in ("_aes_encrypt_block", "_aes_decrypt_block"):
            setattr(M, name, self._block(name))
        for name, fn, has_iv in self.MODES:
            setattr(M, name, self._mode(name, fn, has_iv))
        if hasattr(M, "_get_round_keys"):
            self.orig["_get_round_keys"] = M._get_round_keys
            setattr(M, "_get_round_keys", self._keys("_get_round_keys"))
        setattr(M, "_expand_key", self._keys("_expand_key"))

    def _round(self, name, op):
        orig = self.orig[name]
        log = self

        def f(state, *a, **kw):
            r = orig(state, *a, **kw)
            s = r if r is not None else state
            e = {"a": op, "s": [int(x) for x in s]}
            if op == "ARK":
                rk = a[0] if a else kw.get("round_key")
                e["k"] = _bl(rk) or []
            log.log.append(e)
            return r
        f.__name__ = name
        return f

    def _block(self, name):
        orig = self.orig[name]
        rec = self

        def f(block, *a, **kw):
            rec.log.append({"a": "Blk", "in": _bl(block) or []})
            rec.blocks += 1
            out = orig(block, *a, **kw)
            o = _bl(out)
            rec.log.append({"a": "BlkOut", "out": o} if o is not None else {"a": "BadRet", "type": type(out).__name__})
            return out
        f.__name__ = name
        return f

    def _keys(self, name):
        orig = self.orig[name]
        rec = self

        def f(key, *a, **kw):
            rec.in_keys += 1
            try:
                rks = orig(key, *a, **kw)
            finally:
                rec.in_keys -= 1
            if rec.in_keys == 0:           # only the outermost (a cache miss calls _expand_key inside)
                rec.log_round_keys(rks)
            return rks
        f.__name__ = name
        return f

    def log_round_keys(self, rks):
        try:
            flat = [bytes(rk) for rk in rks]
        except Exception:
            self.log.append({"a": "BadRet", "type": type(rks).__name__})
            return
        for rk in flat:
            if len(rk) % 4:
                self.log.append({"a": "KW", "w": list(rk)})
                continue
            for j in range(0, len(rk), 4):
                self.log.append({"a": "KW", "w": list(rk[j:j + 4])})

    def _mode(self, name, fn, has_iv):
        orig = self.orig[name]
        rec = self

        def f(*args, **kw):
            top = rec.depth == 0
            names = ("key", "iv", "data") if has_iv else ("key", "data")
            b = dict(zip(names, args))
            b.update(kw)
            rec.log.append({"a": "Call" if top else "Sub", "fn": fn, "key": _bl(b.get("key")) or [],
                            "iv": (_bl(b.get("iv")) or []) if has_iv else [], "data": _bl(b.get("data")) or []})
            rec.depth += 1
            try:
                out = orig(*args, **kw)
            except Exception as e:
                rec.log.append({"a": "Raise" if top else "SubRaise", "exc": type(e).__name__})
                raise
            finally:
                rec.depth -= 1
            o = _bl(out)
            rec.log.append({"a": "Ret" if top else "SubRet", "out": o} if o is not None
                           else {"a": "BadRet", "type": type(out).__name__})
            return out
        f.__name__ = name
        f._c20_orig = orig
        return f

    # ---- recording one top-level call as one trace
    def begin(self):
        self.log = []
        self.depth = 0

    def call_mode(self, name, *args):
        """aes_ecb_* / aes_cbc_* through the (wrapped) module attribute; returns bytes or None."""
        self.begin()
        try:
            return getattr(self.M, name)(*args)
        except Exception:
            return None

    def call_expand(self, key):
        self.begin()
        self.log.append({"a": "Call", "fn": "expand", "key": list(key), "iv": [], "data": []})
        try:
            self.M._expand_key(key)          # the wrapper logs the KW events
        except Exception as e:
            self.log.append({"a": "Raise", "exc": type(e).__name__})
            return
        self.log.append({"a": "Ret", "out": []})

    def call_binding(self, func, fn, has_iv, key, iv, data):
        """Call a function object found under a pypdf module attribute; the trace is labelled with the
        function the attribute's NAME promises (fn), whatever object is bound there."""
        self.begin()
        self.log.append({"a": "Call", "fn": fn, "key": list(key), "iv": list(iv) if has_iv else [], "data": list(data)})
        args = (key, iv, data) if has_iv else (key, data)
        try:
            out = func(*args)
        except Exception as e:
            self.log.append({"a": "Raise", "exc": type(e).__name__})
            return None
        o = _bl(out)
        self.log.append({"a": "Ret", "out": o} if o is not None else {"a": "BadRet", "type": type(out).__name__})
        return out if o is not None else None

    # ---- histories over several live wrapper objects (one trace = the whole history, the log is not reset)
    def new_obj(self, cls, oid, key):
        self.log.append({"a": "New", "obj": oid, "key": list(key)})
        return cls(key)

    def call_obj(self, inst, oid, fn, data):
        self.log.append({"a": "Call", "fn": fn, "obj": oid, "key": [], "iv": [], "data": list(data)})
        self.depth = 1
        try:
            out = inst.encrypt(data) if fn == "wrap_enc" else inst.decrypt(data)
        except Exception as e:
            self.log.append({"a": "Raise", "exc": type(e).__name__})
            return None
        finally:
            self.depth = 0
        o = _bl(out)
        self.log.append({"a": "Ret", "out": o} if o is not None else {"a": "BadRet", "type": type(out).__name__})
        return out if o is not None else None

    def call_wrap(self, cls, fn, key, data):
        self.begin()
        self.log.append({"a": "Call", "fn": fn, "obj": 0, "key": list(key), "iv": [], "data": list(data)})
        self.depth = 1
        try:
            obj = cls(key)
            out = obj.encrypt(data) if fn == "wrap_enc" else obj.decrypt(data)
        except Exception as e:
            self.log.append({"a": "Raise", "exc": type(e).__name__})
            return None
        finally:
            self.depth = 0
        o = _bl(out)
        self.log.append({"a": "Ret", "out": o} if o is not None else {"a": "BadRet", "type": type(out).__name__})
        return out if o is not None else None


def _worker(job):
    t0 = time.time()
    import importlib
    try:
        M = importlib.import_module(MOD)
    except Exception as e:
        print(f"cannot import {MOD}: {e!r}", file=sys.stderr)
        return 3
    try:
        rec = Recorder(M)
    except _Vanished as e:
        print(str(e), file=sys.stderr)
        return 3
    seed, thorough = int(job["seed"]), bool(job["thorough"])
    rng = random.Random(seed * 1000003 + 20)
    rb = lambda n: bytes(rng.getrandbits(8) for _ in range(n))
    traces = []
    stats = {"calls": 0, "bad_calls": 0}

    def add(tid, kind, events, **hdr):
        traces.append({"id": tid, "hdr": {"kind": kind, **hdr}, "ev": events})

    def hostile(n):
        """Plaintexts of length n that are adversarial with respect to PKCS#7: the last 1, 2, 3 bytes equal the
        padding byte that will be appended (16 - n % 16), the whole message is that byte, and messages ending in
        0x00 / 0x10 / 0x01.  An unpad that strips by value, or a pad that skips 'already padded' data, shows here."""
        if n == 0:
            return [b""]
        p = 16 - n % 16
        out = [rb(n - k) + bytes([p]) * k for k in (1, 2, 3) if k <= n]
        out.append(bytes([p]) * n)
        out += [rb(n - 1) + bytes([e]) for e in (0x00, 0x10, 0x01)]
        seen, uniq = set(), []
        for m in out:
            if m not in seen:
                seen.add(m)
                uniq.append(m)
        return uniq

    # ---- tables (read before anything is wrapped; they are data)
    tev = []
    for attr, name in rec.TABLES:
        tab = getattr(M, attr)
        tev.append({"a": "Table", "name": name, "v": [int(x) for x in tab]})
    if hasattr(M, "_RCON") and len(M._RCON) >= 11:
        tev.append({"a": "Table", "name": "RCON", "v": [int(x) for x in M._RCON[1:11]]})
    for e in tev:
        add("table:" + e["name"], "tables", [e], where=e["name"])

    # ---- direct calls of the (unwrapped) round functions and padding helpers
    def unit(op, fname, state, key=None):
        s = list(state)
        r = rec.orig[fname](s, bytes(key)) if key is not None else rec.orig[fname](s)
        o = r if r is not None else s
        e = {"a": "Unit", "op": op, "in": list(state), "out": [int(x) for x in o], "k": list(key or []), "exc": ""}
        return e

    cover = [[(16 * k + i) & 255 for i in range(16)] for k in range(16)]
    perm = list(range(256))
    rng.shuffle(perm)
    cover += [perm[16 * k:16 * k + 16] for k in range(16)]
    add("unit:sub", "unit", [unit("sub", "_sub_bytes", s) for s in cover], where="_sub_bytes")
    add("unit:isub", "unit", [unit("isub", "_inv_sub_bytes", s) for s in cover], where="_inv_sub_bytes")
    units16 = [[1 if i == p else 0 for i in range(16)] for p in range(16)] + [list(range(16)), list(rb(16))]
    add("unit:shift", "unit", [unit("shift", "_shift_rows", s) for s in units16], where="_shift_rows")
    add("unit:ishift", "unit", [unit("ishift", "_inv_shift_rows", s) for s in units16], where="_inv_shift_rows")
    bits = [[(1 << b) if i == p else 0 for i in range(16)] for p in range(16) for b in range(8)]
    bits += [list(rb(16)) for _ in range(8)] + [[255] * 16]
    add("unit:mix", "unit", [unit("mix", "_mix_columns", s) for s in bits], where="_mix_columns")
    add("unit:imix", "unit", [unit("imix", "_inv_mix_columns", s) for s in bits], where="_inv_mix_columns")
    add("unit:ark", "unit", [unit("ark", "_add_round_key", rb(16), rb(16)) for _ in range(8)]
        + [unit("ark", "_add_round_key", [255] * 16, [255] * 16)], where="_add_round_key")
    pev = []
    for n in range(0, 65):
        m = rb(n)
        try:
            o, exc = _bl(M._pkcs7_pad(m, 16)), ""
        except Exception as e:
            o, exc = [], type(e).__name__
        pev.append({"a": "Unit", "op": "pad", "in": list(m), "out": o if o is not None else [], "k": [], "exc": exc})
    for n in range(1, 65):
        for m in hostile(n):
            try:
                o, exc = _bl(M._pkcs7_pad(m, 16)), ""
            except Exception as e:
                o, exc = [], type(e).__name__
            pev.append({"a": "Unit", "op": "pad", "in": list(m), "out": o if o is not None else [], "k": [], "exc": exc})
    add("unit:pad", "unit", pev, where="_pkcs7_pad")
    uev = []
    unpad_inputs = []
    for n in range(0, 65):
        m = rb(n)
        p = 16 - n % 16
        unpad_inputs.append(m + bytes([p]) * p)                      # valid padding: MUST be removed exactly
    for n in range(1, 65):                                           # message tail looks like padding
        p = 16 - n % 16
        unpad_inputs += [m + bytes([p]) * p for m in hostile(n)]
    unpad_inputs += [rb(15) + b"\x01", rb(16) + bytes([16]) * 16, bytes([16]) * 16,
                     b"", rb(15) + b"\x00", rb(15) + b"\x11", rb(13) + b"\x03\x02\x03", rb(16), rb(32)]   # DON'T-CARE ones too
    for d in unpad_inputs:
        try:
            o, exc = _bl(M._pkcs7_unpad(d, 16)), ""
        except Exception as e:
            o, exc = [], type(e).__name__
        uev.append({"a": "Unit", "op": "unpad", "in": list(d), "out": o if o is not None else [], "k": [], "exc": exc})
    add("unit:unpad", "unit", uev, where="_pkcs7_unpad")

    # ---- patch pypdf, then wrap
    try:
        import pypdf._crypt_providers as _prov
        import pypdf._crypt_providers._fallback as _fbm
        import pypdf._encryption as _encm
    except Exception as e:
        print(f"cannot import pypdf crypto modules: {e!r}", file=sys.stderr)
        return 4
    pymods = {"_crypt_providers": _prov, "_crypt_providers._fallback": _fbm, "_encryption": _encm}
    before = {(mn, n): getattr(m, n) for mn, m in pymods.items() for n in dir(m) if not n.startswith("__")}
    cls_before = {mn: {k: getattr(m, "CryptAES").__dict__.get(k) for k in ("__init__", "encrypt", "decrypt")}
                  for mn, m in pymods.items() if hasattr(m, "CryptAES")}
    try:
        patched = M.patch_pypdf_fallback_aes()
    except Exception as e:
        print(f"patch_pypdf_fallback_aes failed: {e!r}", file=sys.stderr)
        return 4
    if not patched:
        print("patch_pypdf_fallback_aes() returned False (pypdf is not on its fallback crypto provider)", file=sys.stderr)
        return 4
    import pypdf._crypt_providers._fallback as fb
    CryptAES = fb.CryptAES          # the class whose encrypt / decrypt the patch replaced
    # every binding the patch installed: module attributes that changed + CryptAES classes whose methods changed
    BIND_FN = {"aes_ecb_encrypt": ("ecb_enc", False), "aes_ecb_decrypt": ("ecb_dec", False),
               "aes_cbc_encrypt": ("cbc_enc", True), "aes_cbc_decrypt": ("cbc_dec", True)}
    fn_bindings, cls_bindings, other_bindings = [], [], []
    for mn in sorted(pymods):
        m = pymods[mn]
        for n in sorted(x for x in dir(m) if not x.startswith("__")):
            if n == "CryptAES":
                continue
            if getattr(m, n) is not before.get((mn, n), None):
                (fn_bindings if n in BIND_FN else other_bindings).append((mn, n))
        if hasattr(m, "CryptAES"):
            c = m.CryptAES
            now = {k: c.__dict__.get(k) for k in ("__init__", "encrypt", "decrypt")}
            if c is not before.get((mn, "CryptAES")) or now != cls_before.get(mn) or c is CryptAES:
                cls_bindings.append((mn, "CryptAES"))
    rec.install()

    # ---- key pool: related keys (shared prefixes / suffixes, same bytes at other lengths), reused keys
    base = rb(32)
    pool = {16: [base[:16], base[16:], rb(16), bytes(16), b"\xff" * 16],
            24: [base[:24], base[8:], base[:16] + rb(8), bytes(24), rb(24)],
            32: [base, base[:16] + rb(16), rb(16) + base[16:], bytes(32), rb(32)]}
    sizes = [16, 24, 32]

    def pick_key(size=None):
        size = size or rng.choice(sizes)
        return rng.choice(pool[size]) if rng.random() < 0.75 else rb(size)

    def mode_call(name, fn, key, iv, data, tag):
        args = (key, iv, data) if iv is not None else (key, data)
        b0 = rec.blocks
        out = rec.call_mode(name, *args)
        stats["calls"] += 1
        add(f"{tag}:{len(traces)}:{fn}:k{len(key)}:n{len(data)}", "call", rec.log, fn=fn, keylen=len(key),
            blocks=rec.blocks - b0, len=len(data), where=name)
        return out

    names = {fn: (name, has_iv) for name, fn, has_iv in rec.MODES}
    if job.get("replay"):
        c = job["replay"]
        k, i, d = (bytes.fromhex(c.get(x) or "") for x in ("key", "iv", "data"))
        del traces[:]
        for e in tev:
            add("table:" + e["name"], "tables", [e], where=e["name"])
        if c["fn"] in names:
            mode_call(names[c["fn"]][0], c["fn"], k, i if names[c["fn"]][1] else None, d, "replay")
        elif c["fn"] == "expand":
            rec.call_expand(k)
            add(f"replay:expand:k{len(k)}", "call", rec.log, fn="expand", keylen=len(k), blocks=0, where="_expand_key")
        else:
            b0 = rec.blocks
            rec.call_wrap(CryptAES, c["fn"], k, d)
            add(f"replay:{c['fn']}:k{len(k)}:n{len(d)}", "call", rec.log, fn=c["fn"], keylen=len(k),
                blocks=rec.blocks - b0, len=len(d), where="patch_pypdf_fallback_aes")
        stats.update(blocks=rec.blocks, wall_s=time.time() - t0, wrapper_lengths="replay", calls=1)
        Path(job["out"]).write_text(json.dumps({"traces": traces, "stats": stats}, separators=(",", ":")))
        return 0
    # ---- random mode calls
    budget = 5000 if thorough else 200
    last_ct = {}
    while rec.blocks < budget:
        fn = rng.choice(["ecb_enc", "ecb_dec", "cbc_enc", "cbc_dec"])
        name, has_iv = names[fn]
        key = pick_key()
        nb = rng.choice([0, 1, 1, 1, 2, 2, 3, 4])
        style = rng.random()
        if fn.endswith("dec") and (len(key), fn[:3]) in last_ct and style < 0.4:
            k2, iv2, data = last_ct[(len(key), fn[:3])]
            key, iv = k2, iv2
        else:
            data = rb(16 * nb) if style < 0.85 else (bytes(16 * nb) if style < 0.92 else rb(16) * nb)
            iv = rb(16) if has_iv else None
        out = mode_call(name, fn, key, iv if has_iv else None, data, "rnd")
        if fn.endswith("enc") and out is not None:
            last_ct[(len(key), fn[:3])] = (key, iv, out)
    # ---- key expansion alone, all pool keys + wrong lengths
    for size in sizes:
        for key in pool[size][: (5 if thorough else 2)]:
            rec.call_expand(key)
            stats["calls"] += 1
            add(f"expand:{len(traces)}:k{size}", "call", rec.log, fn="expand", keylen=size, blocks=0, where="_expand_key")
    for n in [0, 1, 15, 17, 20, 23, 25, 31, 33, 48, 64]:
        rec.call_expand(rb(n))
        stats["calls"] += 1
        stats["bad_calls"] += 1
        add(f"expand-bad:{len(traces)}:k{n}", "call", rec.log, fn="expand", keylen=n, blocks=0, where="_expand_key")
    # ---- wrong lengths -> ValueError
    good_key = {16: base[:16], 24: base[:24], 32: base}
    for name, fn, has_iv in rec.MODES:
        for kn in [0, 1, 15, 17, 24 + 7, 33, 64]:
            mode_call(name, fn, rb(kn), rb(16) if has_iv else None, rb(16 * rng.choice([0, 1, 2])), "badkey")
            stats["bad_calls"] += 1
        for dn in [1, 15, 17, 31, 33, 47]:
            mode_call(name, fn, good_key[rng.choice(sizes)], rb(16) if has_iv else None, rb(dn), "baddata")
            stats["bad_calls"] += 1
        if has_iv:
            for vn in [0, 1, 15, 17, 32]:
                mode_call(name, fn, good_key[rng.choice(sizes)], rb(vn), rb(16 * rng.choice([0, 1, 2])), "badiv")
                stats["bad_calls"] += 1
            mode_call(name, fn, rb(5), rb(3), rb(7), "badall")
            stats["bad_calls"] += 1

    # ---- stream wrapper: every message length 0..64
    def wrap(fn, key, data, tag):
        b0 = rec.blocks
        out = rec.call_wrap(CryptAES, fn, key, data)
        stats["calls"] += 1
        add(f"{tag}:{len(traces)}:{fn}:k{len(key)}:n{len(data)}", "call", rec.log, fn=fn, keylen=len(key),
            blocks=rec.blocks - b0, len=len(data), where="patch_pypdf_fallback_aes:_cryptaes_" + fn[5:] + "rypt")
        return out

    # thorough: every length 0..64 x every key size; quick: two full padding periods 0..34, the block
    # boundaries 47..49 and 63, 64, key size rotating with the length
    if thorough:
        lengths = list(range(0, 65))
    else:       # block boundaries + a seeded choice of the rest (lengths 1..16, 32 get hostile round trips below)
        fixed = [0, 15, 16, 17, 31, 32, 33, 47, 48, 49, 63, 64]
        lengths = sorted(fixed + rng.sample([n for n in range(0, 65) if n not in fixed], 8))
    for n in lengths:
        ks = sizes if thorough else [sizes[(n + seed) % 3]]
        for size in ks:
            key = pick_key(size)
            m = rb(n)
            stream = wrap("wrap_enc", key, m, "wrap")
            if stream is not None:
                wrap("wrap_dec", key, stream, "wrap")
    # plaintexts hostile to PKCS#7 (see hostile()): every residue n mod 16 (n = 1..16), n = 0 and 32 (thorough:
    # 0..33, 47..49, 63, 64); decrypt(encrypt(m)) must be m exactly -- the specification's Unpad removes p bytes,
    # not a run of equal bytes.  Then the decrypt-only direction on streams built from hand-padded plaintext
    # through the code's CBC encryption (the inner CBC decryption is validated step by step by TLC, so the
    # plaintext the wrapper has to unpad is the specification's).
    hostile_lengths = (list(range(0, 34)) + [47, 48, 49, 63, 64]) if thorough else list(range(0, 17)) + [32]
    n_hostile = 0
    for n in hostile_lengths:
        cases = hostile(n)
        pick = rng.randrange(len(cases))
        for ci, m in enumerate(cases):
            size = sizes[(n + ci + seed) % 3] if thorough else 16
            key = pick_key(size)
            stream = wrap("wrap_enc", key, m, "wrap-hostile")
            if stream is not None:
                wrap("wrap_dec", key, stream, "wrap-hostile")
            n_hostile += 1
            if thorough or ci == pick:
                key2 = pick_key(size)
                iv = rb(16)
                p = 16 - n % 16
                rec.begin()                                        # throw-away log for the helper call
                try:
                    ct = rec.orig["aes_cbc_encrypt"](key2, iv, m + bytes([p]) * p)
                except Exception:
                    continue                                       # broken CBC shows in the CBC traces
                wrap("wrap_dec", key2, iv + ct, "wrap-hostile-deconly")
    stats["hostile_plaintexts"] = n_hostile
    # decrypt side on streams not produced by the wrapper: valid paddings 1..16 built by hand, garbage,
    # empty payloads (every length 0..16), unaligned payloads (DON'T-CARE, the inner CBC call is still validated)
    for p in range(1, 17):
        key = pick_key()
        iv = rb(16)
        body = rb(32 - p) + bytes([p]) * p
        rec.begin()                                            # throw-away log for the helper call
        ct = rec.orig["aes_cbc_encrypt"](key, iv, body)       # bytes for the test input; validated when decrypted
        wrap("wrap_dec", key, iv + ct, "wrap-handpad")
    for n in range(0, 17):
        wrap("wrap_dec", pick_key(), rb(n), "wrap-empty")
    for n in ([16, 32, 48, 64] if not thorough else [16, 16, 32, 32, 48, 48, 64, 80]):
        wrap("wrap_dec", pick_key(), rb(16 + n), "wrap-garbage")
    for n in [17, 20, 31, 33, 47, 50]:
        wrap("wrap_dec", pick_key(), rb(n), "wrap-unaligned")
    for kn in [0, 5, 15, 17, 33]:
        wrap("wrap_enc", rb(kn), rb(rng.choice([0, 7, 16])), "wrap-badkey")
        wrap("wrap_dec", rb(kn), rb(48), "wrap-badkey")
        wrap("wrap_dec", rb(kn), rb(16), "wrap-badkey-empty")
        stats["bad_calls"] += 2
    # ---- every binding patch_pypdf_fallback_aes() installed into pypdf: driven through the vectors of the
    # function its NAME promises and validated by the same trace specification (a name *decrypt* must decrypt)
    def unwrapped(obj):          # never one of this recorder's own mode wrappers (they would log Sub events)
        return getattr(obj, "_c20_orig", obj)

    for mn, n in fn_bindings:
        fn, has_iv = BIND_FN[n]
        func = unwrapped(getattr(pymods[mn], n))
        good = [(sz, nb) for sz in sizes for nb in ((2, 3) if thorough else (2,))]
        if not thorough:
            rng.shuffle(good)
            good = good[:2] + [(32, 1)]
        for sz, nb in good + [(rng.choice(sizes), 0)]:
            key = pick_key(sz)
            b0 = rec.blocks
            rec.call_binding(func, fn, has_iv, key, rb(16), rb(16 * nb))
            stats["calls"] += 1
            add(f"bind:{mn}.{n}:{len(traces)}:{fn}:k{sz}:n{16 * nb}", "call", rec.log, fn=fn, keylen=sz,
                blocks=rec.blocks - b0, len=16 * nb, binding=f"pypdf.{mn}.{n}",
                where=f"patch_pypdf_fallback_aes: pypdf.{mn}.{n}")
        bad = [(rb(17), rb(16), rb(16)), (good_key[16], rb(16), rb(15))] + ([(good_key[24], rb(15), rb(16))] if has_iv else [])
        if thorough:
            bad += [(rb(0), rb(16), rb(16)), (rb(48), rb(16), rb(32)), (good_key[32], rb(16), rb(33))]
        for key, iv, data in bad:
            rec.call_binding(func, fn, has_iv, key, iv, data)
            stats["calls"] += 1
            stats["bad_calls"] += 1
            add(f"bind-bad:{mn}.{n}:{len(traces)}:{fn}:k{len(key)}:n{len(data)}", "call", rec.log, fn=fn,
                keylen=len(key), blocks=0, len=len(data), binding=f"pypdf.{mn}.{n}",
                where=f"patch_pypdf_fallback_aes: pypdf.{mn}.{n}")
    for mn, n in cls_bindings:
        cls = getattr(pymods[mn], n)
        msgs = [b"", rb(12) + b"\x03", bytes([16]) * 16, rb(31)] + ([rb(33), rb(47) + b"\x01"] if thorough else [])
        for i, m in enumerate(msgs):
            key = pick_key(sizes[(i + seed) % 3])
            b0 = rec.blocks
            stream = rec.call_wrap(cls, "wrap_enc", key, m)
            add(f"bind:{mn}.{n}:{len(traces)}:wrap_enc:k{len(key)}:n{len(m)}", "call", rec.log, fn="wrap_enc",
                keylen=len(key), blocks=rec.blocks - b0, len=len(m), binding=f"pypdf.{mn}.{n}",
                where=f"patch_pypdf_fallback_aes: pypdf.{mn}.{n}.encrypt")
            stats["calls"] += 1
            if stream is not None:
                b0 = rec.blocks
                rec.call_wrap(cls, "wrap_dec", key, stream)
                add(f"bind:{mn}.{n}:{len(traces)}:wrap_dec:k{len(key)}:n{len(stream)}", "call", rec.log, fn="wrap_dec",
                    keylen=len(key), blocks=rec.blocks - b0, len=len(stream), binding=f"pypdf.{mn}.{n}",
                    where=f"patch_pypdf_fallback_aes: pypdf.{mn}.{n}.decrypt")
                stats["calls"] += 1
        for data, key in ((b"", pick_key()), (rb(16), pick_key()), (rb(48), rb(5))):
            rec.call_wrap(cls, "wrap_dec", key, data)
            add(f"bind:{mn}.{n}:{len(traces)}:wrap_dec:k{len(key)}:n{len(data)}", "call", rec.log, fn="wrap_dec",
                keylen=len(key), blocks=0, len=len(data), binding=f"pypdf.{mn}.{n}",
                where=f"patch_pypdf_fallback_aes: pypdf.{mn}.{n}.decrypt")
            stats["calls"] += 1
    stats["bindings"] = [f"pypdf.{mn}.{n}" for mn, n in fn_bindings + cls_bindings]
    stats["bindings_not_modelled"] = [f"pypdf.{mn}.{n}" for mn, n in other_bindings]

    # ---- end to end: pypdf's AlgV5 /Perms computation and check (AES-256 documents), which reach the built-in AES
    # through the names bound in pypdf._encryption.  A logging shim on those two names records what pypdf asked
    # for; the label is the NAME pypdf calls.  TLC decides what verify_perms must answer (event Perms).
    AlgV5 = getattr(_encm, "AlgV5", None)
    if AlgV5 is not None and hasattr(AlgV5, "verify_perms"):
        import struct

        def shim(name):
            fn, has_iv = BIND_FN[name]
            bound = unwrapped(getattr(_encm, name))

            def f(key, data):
                rec.log.append({"a": "Call", "fn": fn, "key": _bl(key) or [], "iv": [], "data": _bl(data) or []})
                try:
                    out = bound(key, data)
                except Exception as e:
                    rec.log.append({"a": "Raise", "exc": type(e).__name__})
                    raise
                o = _bl(out)
                rec.log.append({"a": "Ret", "out": o} if o is not None else {"a": "BadRet", "type": type(out).__name__})
                return out
            return f

        saved = {n: getattr(_encm, n) for n in ("aes_ecb_encrypt", "aes_ecb_decrypt") if hasattr(_encm, n)}
        try:
            for n in saved:
                setattr(_encm, n, shim(n))
            vectors = [(p_ & 0xFFFFFFFF, m_) for p_, m_ in
                       [(-1084, True), (-4, False), (-3904, True)] + ([(-44, True), (0, False)] if thorough else [])]
            for vi, (pflags, meta) in enumerate(vectors):
                fkey = pick_key(32)
                perms = None
                if hasattr(AlgV5, "compute_Perms_value"):
                    rec.begin()
                    try:
                        perms = AlgV5.compute_Perms_value(fkey, pflags, meta)
                    except Exception:
                        perms = None
                    add(f"e2e:compute_Perms_value:{len(traces)}", "call", rec.log, fn="ecb_enc", keylen=32, blocks=1,
                        len=16, binding="pypdf._encryption.aes_ecb_encrypt", where="pypdf AlgV5.compute_Perms_value -> aes_ecb_encrypt")
                    stats["calls"] += 1
                if perms is None:
                    rec.begin()
                    try:
                        perms = rec.orig["aes_ecb_encrypt"](fkey, struct.pack("<I", pflags) + b"\xff" * 4
                                                            + (b"T" if meta else b"F") + b"adb" + rb(4))
                    except Exception:
                        continue
                for variant, pblock, pf in (("correct", perms, pflags), ("other-flags", perms, pflags ^ 8),
                                            ("garbage", rb(16), pflags))[: (3 if vi == 0 or thorough else 1)]:
                    rec.begin()
                    p1 = struct.pack("<I", pf) + b"\xff\xff\xff\xff" + (b"T" if meta else b"F") + b"adb"
                    try:
                        ok = AlgV5.verify_perms(fkey, pblock, pf, meta)
                        rec.log.append({"a": "Perms", "p1": list(p1), "ok": bool(ok)})
                    except Exception as e:
                        if not rec.log or rec.log[-1]["a"] != "Raise":
                            rec.log.append({"a": "Raise", "exc": type(e).__name__})
                    add(f"e2e:verify_perms:{variant}:{len(traces)}", "call", rec.log, fn="ecb_dec", keylen=32, blocks=1,
                        len=16, binding="pypdf._encryption.aes_ecb_decrypt", where="pypdf AlgV5.verify_perms -> aes_ecb_decrypt")
                    stats["calls"] += 1
        finally:
            for n, o in saved.items():
                setattr(_encm, n, o)

    # ---- histories with SEVERAL LIVE wrapper objects: different keys, mixed key sizes, the same key twice,
    # construction and use interleaved; every call is validated against the specification under the key of ITS
    # OWN object (AESModes!objs: object id -> key), streams are also decrypted by another object of the same key
    classes = []
    for mn, n in cls_bindings or [("_crypt_providers._fallback", "CryptAES")]:
        c = getattr(pymods[mn], n)
        if not any(c is x for _, x in classes):
            classes.append((f"pypdf.{mn}.{n}", c))
    n_hist = 12 if thorough else 4
    stats["object_histories"] = 0
    for hi in range(n_hist):
        bname, cls = classes[hi % len(classes)]
        rec.begin()
        b0 = rec.blocks
        live = {}                     # oid -> (instance, key)
        streams = []                  # (key, stream, message) produced so far
        next_id = 1

        def construct(key):
            nonlocal next_id
            oid = next_id
            next_id += 1
            live[oid] = (rec.new_obj(cls, oid, key), key)
            return oid

        k_a, k_b = pick_key(sizes[hi % 3]), pick_key(sizes[(hi + 1) % 3])      # mixed sizes
        k_c = rb(len(k_a))                                                      # same size as k_a, other key
        construct(k_a)
        construct(k_b)                # a younger object with another key is alive from now on
        plan = ["use", "use", "new", "use", "use", "newsame", "use", "use"] + (["new", "use", "use", "use"] if thorough else [])
        ok = True
        for step in plan:
            if step == "new":
                construct(rng.choice([k_c, pick_key()]))
            elif step == "newsame":
                construct(rng.choice([k for _, k in live.values()]))           # the same key twice
            else:
                # prefer an object that is NOT the most recently constructed one
                oids = sorted(live)
                oid = rng.choice(oids[:-1]) if rng.random() < 0.7 else oids[-1]
                inst, key = live[oid]
                mine = [t for t in streams if t[0] == key]
                if mine and rng.random() < 0.5:
                    if rec.call_obj(inst, oid, "wrap_dec", mine[-1][1]) is None:
                        ok = False
                else:
                    m = rng.choice(hostile(rng.choice([5, 13, 16, 20]))) if rng.random() < 0.3 else rb(rng.choice([0, 1, 15, 16, 17, 30]))
                    st_ = rec.call_obj(inst, oid, "wrap_enc", m)
                    if st_ is None:
                        ok = False
                    else:
                        streams.append((key, st_, m))
            if not ok:
                break
        if ok:                        # finally every object decrypts a stream made under its key (by any object)
            for oid in sorted(live):
                inst, key = live[oid]
                mine = [t for t in streams if t[0] == key]
                if mine:
                    rec.call_obj(inst, oid, "wrap_dec", rng.choice(mine)[1])
        stats["calls"] += sum(1 for e in rec.log if e["a"] == "Call")
        stats["object_histories"] += 1
        add(f"objects:{hi}:{len(live)}objs", "call", rec.log, fn="wrap_history", keylen=len(k_a), blocks=rec.blocks - b0,
            len=len(rec.log), binding=bname, where="patch_pypdf_fallback_aes:_cryptaes_init / _cryptaes_encrypt / _cryptaes_decrypt")

    # ---- IV freshness: repeated encrypt calls, same key and message
    ivs = []
    key = pick_key(16)
    obj = CryptAES(key)
    for i in range(64 if thorough else 24):
        rec.begin()
        try:
            s = obj.encrypt(b"same message") if i % 2 else CryptAES(key).encrypt(b"same message")
            ivs.append(list(bytes(s[:16])))
        except Exception:
            ivs.append([])
    add("fresh-iv", "fresh", [{"a": "Fresh", "ivs": ivs}], where="patch_pypdf_fallback_aes:_cryptaes_encrypt")

    stats["blocks"] = rec.blocks
    stats["wrapper_lengths"] = ("0..64 x 3 key sizes" if thorough else
                                "0,15..17,31..33,47..49,63,64 + 8 seeded others (key size rotating)") + \
                               "; PKCS#7-hostile plaintexts for lengths " + \
                               ("0..33,47..49,63,64" if thorough else "0..16,32")
    stats["wall_s"] = time.time() - t0
    Path(job["out"]).write_text(json.dumps({"traces": traces, "stats": stats}, separators=(",", ":")))
    return 0


if __name__ == "__main__":
    if len(sys.argv) >= 3 and sys.argv[1] == "worker":
        sys.exit(_worker(json.loads(sys.argv[2])))
