"""C04 -- every result honours the common interface, for any input.
Specs: Iface.tla (what a conforming return of every accessor is; FromPath on abstract paths; document
properties; reference \\uN decoding), IfaceGen.tla (bounded universes + laws), IfaceTrace.tla (validation).

1. TLC proves the FromPath laws on every abstract path with <= 3 segments and the \\uN decoding laws on every
   run of <= 3 code units (+ two sensitivity runs: suffix-from-first-dot, unpaired code units).
2. spec -> code: every abstract path, every (path form x property value x format) case and every \\uN run that
   TLC enumerated is concretised (mbv/c04_lib.py): the generated rich document of the format is rendered with
   those document properties, the file is created / not created in a scratch directory as the abstract path
   says, the real extractor is called with the concretised path argument.
2b. Further TLC-enumerated input families (IfaceGen modes heads / opfs / alts), built in mbv/c04_lib.py by an own
   head renderer or by post-processing the shared writers' packages: every layout of an HTML / MHTML head
   (optional <html>/<head>/<body> tags omitted or not, <title> before / after the <meta> elements, letter case of
   tags and metadata names, attribute order) and of an EPUB package document (prefixed / default namespace,
   title first / last, dc elements with attributes, version 2 / 3) x 3 property values -- the document-property
   clause must hold for each; and the pictures' alternative texts (name x title x description, each absent /
   empty / blank / text) in ODT / ODS / ODP / ODG (svg:title, svg:desc, draw:name) and DOCX / PPTX / XLSX
   (name / title / descr attributes) -- every text accessor of every image must return str, through
   iterate_images() and through the units.
2c. Round-4 families (IfaceGen modes srcs / lens / pdfs / ncrs): where a picture's bytes come from (first / middle /
   last of four pictures linked by http(s) URL, dangling package path, path outside the package; ODF xlink:href,
   OOXML external relationship + r:link) -- image numbers stay positive; picture geometry (ODF svg:width / height /
   x / y with cm, mm, in, pt, px, pc, %, decimal comma, exponent, negative, empty, garbage, missing, ...; OOXML
   extents 0 / negative / huge / non-numeric / ...) -- no accessor raises, width / height in the metadata are None
   or a number (Size event); tagged PDFs from an own minimal writer whose figure caption / ActualText / Alt strings
   hold every byte 127..255 (literal and hex strings, Tj and TJ) or an unpaired UTF-16 surrogate, and HTML numeric
   character references that denote no character -- every text accessor and every string of the metadata object
   (FileMeta.strsutf8) must encode to UTF-8.
2d. Round-5 families (IfaceGen modes degens / names, opfs extended): degenerate-but-accepted inputs (MHTML without an
   HTML part, e-mail without body, empty sheet, zero-page PDF, DOCX / ODT without body paragraphs, deck without
   slides, empty HTML / RTF / plain files, EPUB without spine items, archive with empty members, ...) x every
   designated path form -- the path clause holds for every result; names of the unit containers (ODS table:name,
   ODP / ODG draw:name, XLSX sheet name, PPTX cSld name, EPUB chapter title: absent / empty / blank / 1 char / 31
   chars / non-ASCII) -- no accessor raises, text accessors return str; package documents with no namespace and
   with the OEB 1.x package namespace, dc elements in a <dc-metadata> wrapper (open finding KF-C04-01: a rejected
   trace of that domain counts as KNOWN only if TLC accepts it with the deviation Epub!DcMetadataWrapperIgnored on).
2e. Round-6 families (IfaceGen modes members / structs): one-member zip / tar / tar.gz / 7z archives whose member is
   stored under a plain, nested, dotted, unicode or ABSOLUTE name, read with every kind of archive path argument --
   the member's metadata must be FromPath(<archive path>!/<member name>) (Iface!MemberPath, law Inv_Member); heading
   structures of DOCX / ODT: every sequence of <= 4 (thorough 5) items over h1 h2 h3 paragraph empty-paragraph table
   (trailing heading, trailing empty paragraphs, no level-1 heading, no preamble, ...) with and without pictures --
   no accessor of any unit raises (quick: all structures of <= 3 items + a seeded 40 % of those with 4).
2f. Round-7 families: inputs that yield more than one result -- mailboxes with 2 and 3 messages (degens universe, every
   path form) and archives with 2..3 members (IfaceGen mode multis; FileMeta events carry the result index, the
   header the member of every result): the path clause holds for EVERY result; picture parts whose extension is
   outside the extractors' content-type tables (svg, webp, jp2, none, upper case, unknown, dotted) in DOCX / PPTX /
   XLSX / ODT / ODS / ODP / ODG / EPUB (mode picexts): every image accessor returns its declared type, none raises.
3. code -> spec: a recorder calls the WHOLE accessor protocol on every result and every unit, image and table
   reachable from it and logs one event per call with the projected return (or the exception); the same is done
   for every repository fixture, for seeded mutants (truncation, byte flips, zeroed / 0xFF ranges, applied to
   the file or to the content of one ZIP member) of fixtures and generated files that the extractor still
   accepts, and for generated containers whose picture payloads are damaged (header wiped, no image format,
   empty, CRC mismatch).  IfaceTrace.tla validates: it has no action for a non-conforming return.
   (Quick tier: the property-value cases record the result-level accessors only; the full protocol of the same
   documents is recorded by the path cases.)
Extractions run in worker processes with a per-case timer; a case that does not finish is skipped (termination
is C01's business)."""
from __future__ import annotations

import json
import os
import random
import re
import time
from concurrent.futures import ProcessPoolExecutor, ThreadPoolExecutor, wait
from pathlib import Path

from .. import REPO
from ..tlaval import iter_dump, to_tla
from ..tlc import MachineryError, run_tlc
from ..traces import validate
from .. import c04_lib as L

SKIP_FIXTURE_PARTS = ("password", "protected", "encrypted")
ARCHIVE_EXT = (".zip", ".7z", ".tar", ".gz", ".tgz", ".bz2", ".xz", ".tbz2", ".txz")
KF_WRAPPER, KF_WRAPPER_DEV = "KF-C04-01", "Epub!DcMetadataWrapperIgnored"
LAWS = ["Inv_NoneWhenNoPath", "Inv_Acceptable", "Inv_Suffix", "Inv_Idempotent", "Inv_FolderOfFile", "Inv_NameOnly",
        "Inv_FormsInUniverse", "Inv_DecodeWellFormed", "Inv_DecodeInvertsToUnits", "Inv_ReportedUnchanged"]


def _gen_cfg(mode, formats, max_dirs, max_val, full, dev=(), invs=LAWS, pdf_bytes=(173,), max_struct=1):
    return ("SPECIFICATION Spec\nCONSTANTS\n"
            f' Mode = "{mode}"\n MaxDirs = {max_dirs}\n MaxVal = {max_val}\n MaxUnits = 3\n Full = {to_tla(bool(full))}\n'
            f" Formats = {to_tla(set(formats))}\n Deviations = {to_tla(set(dev))}\n PdfBytes = {to_tla(set(pdf_bytes))}\n MaxStruct = {max_struct}\n"
            + "".join(f"INVARIANT {i}\n" for i in invs))


def _dump_states(path):
    p = path if path.exists() else Path(str(path) + ".dump")
    return list(iter_dump(p))


def _plain(v):
    """tlaval value -> JSON-able."""
    if isinstance(v, tuple):
        return [_plain(x) for x in v]
    if isinstance(v, dict):
        return {k: _plain(x) for k, x in v.items()}
    if isinstance(v, bool) or isinstance(v, int):
        return v
    return str(v)


def _fixtures(limit_bytes):
    root = REPO / "sharepoint2text" / "tests" / "resources"
    out = []
    for p in sorted(root.rglob("*")):
        if not p.is_file() or p.stat().st_size == 0 or p.stat().st_size > limit_bytes:
            continue
        if any(s in str(p.relative_to(root)).lower() for s in SKIP_FIXTURE_PARTS):
            continue
        if p.name.startswith(".") or ".." in p.name or p.name.endswith("."):
            continue
        out.append(p)
    return root, out


def _run_pool(jobs, ctx, budget_s, batch=12):
    """Run jobs in worker processes; returns {id: result}.  Unfinished batches are skipped cases."""
    if not jobs:
        return {}
    order = list(jobs)
    random.Random(ctx.seed).shuffle(order)          # spread slow formats over the batches
    batches = [order[i:i + batch] for i in range(0, len(order), batch)]
    res = {}
    ex = ProcessPoolExecutor(max_workers=min(16, os.cpu_count() or 4))
    try:
        futs = {ex.submit(L.run_batch, b): b for b in batches}
        done, pending = wait(list(futs), timeout=budget_s)
        for f in done:
            try:
                for r in f.result():
                    res[r["id"]] = r
            except Exception as e:  # a worker died (e.g. killed by the OS): its batch is skipped
                ctx.log(f"worker batch lost: {type(e).__name__}: {e}")
        if pending:
            ctx.log(f"{len(pending)} batches did not finish within {budget_s}s: skipped")
            procs = list(getattr(ex, "_processes", {}).values())
            for f in pending:
                f.cancel()
            for p in procs:                        # only processes this pool started
                try:
                    p.kill()
                except Exception:
                    pass
    finally:
        ex.shutdown(wait=False, cancel_futures=True)
    for j in jobs:
        res.setdefault(j["id"], {"id": j["id"], "status": "timeout", "events": [], "nres": 0, "msg": "batch unfinished",
                                 "hdr": {}})
    return res


_AT = re.compile(r'<<"AT", (\d+), (\d+)>>')


def _diagnose(rejected, scratch):
    """One TLC run (MBV_PROGRESS=1) over all rejected traces: index of the first event TLC refuses, per trace."""
    if not rejected:
        return []
    f = scratch / "rejected-traces.json"
    f.write_text(json.dumps(rejected))
    r = run_tlc("IfaceTrace", "SPECIFICATION TraceSpec\nCONSTANTS Deviations = {}\nCONSTRAINT TraceAccept\n", scratch=scratch,
                workers=1, timeout=900, env={"TRACE_FILE": str(f), "MBV_PROGRESS": "1"}, expect_fail=True, keep_going=True)
    reached = {}
    for tid, l in _AT.findall(r.output):
        reached[int(tid)] = max(reached.get(int(tid), 1), int(l))
    out = []
    for k, t in enumerate(rejected, start=1):
        idx = reached.get(k, 1) - 1
        if idx >= len(t["ev"]):
            raise MachineryError(f"trace {t['id']} was rejected in the batch but is accepted alone")
        out.append(idx)
    return out


def _describe(e):
    a = e["a"]
    who = e.get("who", "?")
    if a == "Raise":
        return f"{who}() raised {e['exc']}: {e.get('msg', '')}"
    if a == "Text":
        return (f"{who}() returned {e['cls']}" if e["cls"] != "str"
                else f"{who}() returned a str that is not well-formed Unicode (encode('utf-8') fails: lone surrogate)")
    if a == "Size":
        return f"{who} is neither None nor a number: {e['cls']}"
    if a in ("Num", "OptNum"):
        return f"{who} is not a positive integer: {e['cls']} {e['n']}"
    if a == "Stream":
        return (f"{who}: get_bytes() not a readable binary stream at position 0 whose length equals the reported size: "
                f"class={e['cls']} bytes={e['bytes']} pos={e['pos']} len={e['len']} second call pos={e['pos2']} len={e['len2']} "
                f"size_bytes={e['size'] if e['hassize'] else 'n/a'}")
    if a == "Table":
        return (f"{who}: get_dim()=({e['dimrows']},{e['dimcols']}) [{e['dimcls']}] but get_table() has {e['rows']} rows, "
                f"row widths {e['widths']} [{e['gridcls']}], cells utf8={e['cellsutf8']}")
    if a == "FileMeta":
        if not e.get("strsutf8", True):
            return f"{who}: a string of the metadata object ({e['mtype']}) is not well-formed Unicode (lone surrogate)"
        return (f"{who}: file metadata not derived from the path argument: filename={e['fnk']}:{'.'.join(e['fn'])} "
                f"extension={e['extk']}:{'.'.join(e['ext'])} folder={e['dir']} file_path dir={e['fdir']} name={'.'.join(e['fpn'])} "
                f"type={e['mtype']}")
    if a == "Prop":
        return (f"{who}: stored document property {e['field']} = {''.join(map(chr, e['stored']))!r} reported as "
                f"{(''.join(map(chr, e['got'])) if e['cls'] == 'str' else e['cls'])!r} (metadata type {e['mtype']}, has field: {e['has']})")
    if a == "Units":
        return (f"RTF \\uN run {e['units']} -> {e['who']} code points {e['cps']} ({e['cls']}): not well-formed Unicode / "
                f"not the stored characters")
    if a == "Json":
        return f"{who}() returned {e['cls']}, not a dict"
    return json.dumps(e)[:300]


def run(ctx):
    ev, v = ctx.ev, ctx.v
    rng = random.Random(ctx.seed)
    from ..docrun import EXTRACTOR, render, rich_doc
    formats = []
    for f in sorted(EXTRACTOR):          # formats docrun can generate a rich document for
        try:
            render(L.enrich(rich_doc(f, ctx.seed)), f)
            formats.append(f)
        except (ValueError, KeyError):
            ctx.log(f"format {f}: docrun.rich_doc has no document for it: not part of the generated cases")
    if len(formats) < 10:
        raise MachineryError(f"docrun generates rich documents for {formats} only (binding vanished?)")
    max_dirs = 2 if ctx.thorough else 1
    max_val = 3 if ctx.thorough else 2

    # ------------------------------------------------------------------ 1. TLC: laws + enumeration
    d_paths, d_cases, d_units = (ctx.scratch / f"{m}.dump" for m in ("paths", "cases", "units"))
    sens = (("paths", "SuffixFromFirstDot", "Inv_Suffix"), ("units", "Rtf!UnitsUnpaired", "Inv_DecodeWellFormed"),
            ("opfs", KF_WRAPPER_DEV, "Inv_ReportedUnchanged"))
    runs = {
        "laws": lambda: run_tlc("IfaceGen", _gen_cfg("paths", formats, 2, 1, False), scratch=ctx.scratch, timeout=900,
                                workers=4, dump=d_paths if max_dirs == 2 else None),
        "replay": (lambda: run_tlc("IfaceGen", _gen_cfg("paths", formats, max_dirs, 1, False), scratch=ctx.scratch,
                                   workers=2, dump=d_paths)) if max_dirs != 2 else None,
        "units": lambda: run_tlc("IfaceGen", _gen_cfg("units", formats, 1, 1, False), scratch=ctx.scratch, workers=2,
                                 dump=d_units),
        "cases": lambda: run_tlc("IfaceGen", _gen_cfg("cases", formats, 1, max_val, False), scratch=ctx.scratch,
                                 workers=4, dump=d_cases, timeout=900),
    }
    d_extra = {m: ctx.scratch / f"{m}.dump" for m in ("heads", "opfs", "alts", "srcs", "lens", "pdfs", "ncrs", "degens", "names", "members", "structs", "picexts", "multis")}
    for m in d_extra:
        runs[m] = (lambda m=m: run_tlc("IfaceGen", _gen_cfg(m, formats, 1, 1, False, invs=["Inv_Member"] if m == "members" else [],
                                                            pdf_bytes=range(127, 256), max_struct=5 if ctx.thorough else 4),
                                       scratch=ctx.scratch, workers=2, dump=d_extra[m]))
    runs["opfs"] = lambda: run_tlc("IfaceGen", _gen_cfg("opfs", formats, 1, 1, False, invs=["Inv_ReportedUnchanged"]),
                                   scratch=ctx.scratch, workers=2, dump=d_extra["opfs"])
    for mode, dev, inv in sens:
        runs["sens:" + dev] = (lambda mode=mode, dev=dev, inv=inv: run_tlc(
            "IfaceGen", _gen_cfg(mode, formats, 1, 1, False, dev=[dev], invs=[inv]), scratch=ctx.scratch, workers=2,
            expect_fail=True))
    runs = {k: f for k, f in runs.items() if f}
    t0 = time.time()
    with ThreadPoolExecutor(len(runs)) as tex:
        futs = {k: tex.submit(f) for k, f in runs.items()}
        tr = {k: f.result() for k, f in futs.items()}
    ctx.log(f"TLC: {len(runs)} IfaceGen runs in {time.time() - t0:.1f}s")
    ev.tlc("IfaceGen paths: FromPath laws on every abstract path with <= 3 segments", tr["laws"])
    if "replay" in tr:
        ev.tlc("IfaceGen paths: replay universe (<= 2 segments)", tr["replay"])
    ev.tlc("IfaceGen units: reference \\uN decoding is well-formed and inverts ToUnits, all runs <= 3 units", tr["units"])
    ev.tlc("IfaceGen cases: (path form x property value x format)", tr["cases"])
    ev.tlc("IfaceGen heads: layouts of the HTML / MHTML head x property values", tr["heads"])
    ev.tlc("IfaceGen opfs: layouts of the EPUB package document x property values", tr["opfs"])
    ev.tlc("IfaceGen alts: (format x picture name x title x description), each absent / empty / blank / text", tr["alts"])
    ev.tlc("IfaceGen srcs: (format x first / middle / last picture x linked / dangling / outside)", tr["srcs"])
    ev.tlc("IfaceGen lens: picture geometry values (ODF lengths, OOXML extents)", tr["lens"])
    ev.tlc("IfaceGen pdfs: tagged PDFs, caption / description strings with a byte 127..255 or an unpaired surrogate", tr["pdfs"])
    ev.tlc("IfaceGen ncrs: HTML numeric character references that denote no character", tr["ncrs"])
    ev.tlc("IfaceGen degens: degenerate-but-accepted inputs x path forms", tr["degens"])
    ev.tlc("IfaceGen names: naming attributes of unit containers", tr["names"])
    ev.tlc("IfaceGen members: archive x member name form x archive path form; member-path law", tr["members"])
    ev.tlc("IfaceGen structs: heading structures of DOCX / ODT, with and without pictures", tr["structs"])
    ev.tlc("IfaceGen picexts: picture parts with extensions outside the extractors' tables", tr["picexts"])
    ev.tlc("IfaceGen multis: archives with 2..3 members x archive path forms", tr["multis"])
    for k in ("laws", "units", "cases", "opfs", "members"):
        if tr[k].violated:
            v.violation(what=f"IfaceGen ({k}): {tr[k].violated} violated on the specification", observed=tr[k].trace[:1])
    for mode, dev, inv in sens:
        rs = tr["sens:" + dev]
        ev.tlc(f"IfaceGen sensitivity: deviation {dev} must violate {inv}", rs, note="expected violation")
        if rs.violated != inv:
            raise MachineryError(f"sensitivity run for {dev} did not fail ({rs.violated})")
    n_paths = tr.get("replay", tr["laws"]).distinct

    paths = sorted((_plain(s["c"]["path"]) for s in _dump_states(d_paths)), key=lambda d: json.dumps(d, sort_keys=True))
    cases = sorted((_plain(s["c"]) for s in _dump_states(d_cases)), key=lambda d: json.dumps(d, sort_keys=True))
    units = sorted(_plain(s["c"]["units"]) for s in _dump_states(d_units))
    extra = {m: sorted((_plain(s["c"]) for s in _dump_states(d_extra[m])), key=lambda d: json.dumps(d, sort_keys=True))
             for m in d_extra}
    if not all(extra.values()):
        raise MachineryError("empty dump of the heads / opfs / alts universes: " + str({m: len(x) for m, x in extra.items()}))
    if len(paths) != n_paths or not cases or not units:
        raise MachineryError(f"dump sizes: paths {len(paths)}/{n_paths}, cases {len(cases)}, units {len(units)}")
    ctx.log(f"TLC enumerated {len(paths)} abstract paths, {len(cases)} (form x value x format) cases, {len(units)} \\uN runs, "
            f"{len(extra['heads'])} head layouts, {len(extra['opfs'])} OPF layouts, {len(extra['alts'])} picture alt-text cases, "
            f"{len(extra['srcs'])} picture sources, {len(extra['lens'])} geometry values, {len(extra['pdfs'])} tagged PDFs, "
            f"{len(extra['ncrs'])} character-reference cases, {len(extra['degens'])} degenerate inputs x path forms, "
            f"{len(extra['names'])} container-name cases, {len(extra['members'])} archive-member cases, "
            f"{len(extra['structs'])} heading structures, {len(extra['picexts'])} picture-extension cases, "
            f"{len(extra['multis'])} multi-member archives")

    # ------------------------------------------------------------------ 2. jobs
    if os.path.exists(L.NX_ROOT):
        raise MachineryError(f"{L.NX_ROOT} exists: it stands for a root that does not")
    wroot = ctx.scratch / "w"
    wroot.mkdir()
    tmo = 40 if ctx.thorough else 15
    base = {f: render(L.enrich(rich_doc(f, ctx.seed)), f) for f in formats}      # 3 x 2 table: rows != columns
    jobs, meta = [], {}

    def add(job, **m):
        job["wd"] = str(wroot / f"{len(jobs):06d}")
        job["timeout"] = tmo
        jobs.append(job)
        meta[job["id"]] = m

    none_sp0 = {"root": "none", "dirs": [], "stem": "", "exts": [], "fexists": False, "dexists": False}
    replay_paths = list(enumerate(paths))
    if not ctx.thorough and len(replay_paths) > 400:      # quick: a seeded sample (the laws are decided on all of them)
        replay_paths = sorted(random.Random(ctx.seed + 1).sample(replay_paths, 400))
    for i, ap in replay_paths:
        f = formats[(i + ctx.seed) % len(formats)]
        sp = L.spell_path(ap, random.Random(f"{ctx.seed}:p:{i}"), own_ext=f)
        add({"id": f"path:{i}", "fmt": f, "data": base[f], "sp": sp}, kind="path", abstract=ap, fmt=f)
    for i, c in enumerate(cases):
        f = c["fmt"]
        sp = L.spell_path(c["path"], random.Random(f"{ctx.seed}:c:{i}"), own_ext=f)
        props = {k: L.spell_val(c["val"], k) for k in L.FIELDS}
        doc = L.enrich(rich_doc(f, ctx.seed))
        doc["props"] = props
        add({"id": f"case:{i}", "fmt": f, "doc": doc, "sp": sp, "props": props, "thin": not ctx.thorough},
            kind="case", abstract=c, fmt=f)
    for i, u in enumerate(units):
        ap = paths[(i * 7) % len(paths)]
        sp = L.spell_path(ap, random.Random(f"{ctx.seed}:u:{i}"), own_ext="rtf")
        add({"id": f"units:{i}", "fmt": "rtf", "data": L.units_rtf(u), "sp": sp, "units": u}, kind="units", abstract=u, fmt="rtf")

    # markup layouts of the stored properties: HTML / MHTML head, EPUB package document
    form_paths = [c["path"] for c in cases if c["val"] == ["a", "e1"] and c["fmt"] == cases[0]["fmt"]]
    for i, c in enumerate(extra["heads"] + extra["opfs"]):
        f = c["fmt"]
        r2 = random.Random(f"{ctx.seed}:layout:{i}")
        props = {k: L.spell_val(c["val"], k) for k in L.FIELDS}
        doc = L.enrich(rich_doc(f, ctx.seed))
        doc["props"] = props
        if c["kind"] == "head":
            data = L.html_variant(doc, c["layout"], r2)
            if f == "mhtml":
                data = L.mhtml_wrap(data, r2)
        else:
            data = L.epub_variant(render(doc, f), props, c["layout"])
        sp = L.spell_path(form_paths[i % len(form_paths)], r2, own_ext=f)
        add({"id": f"{c['kind']}:{i}", "fmt": f, "data": data, "sp": sp, "props": props,
             "dcwrapper": c["kind"] == "opf" and c["layout"]["wrapper"] == "dc-metadata"}, kind=c["kind"], abstract=c, fmt=f)
    # degenerate-but-accepted inputs x every path form; names of the unit containers
    degen_cache = {}
    for i, c in enumerate(extra["degens"]):
        if c["input"] not in degen_cache:
            degen_cache[c["input"]] = L.degenerate_input(c["input"])
        f, data = degen_cache[c["input"]]
        sp = L.spell_path(c["path"], random.Random(f"{ctx.seed}:degen:{i}"), own_ext=f)
        if f == "zip":
            sp = dict(sp, root="dc", dirs=[], stem="", exts=[], fexists=False, dexists=False)
            add({"id": f"degen:{i}", "fmt": f, "data": data, "sp": sp, "parg": "some dir/arch.zip" if c["form"] % 2 else None,
                 "mat": False}, kind="degen", abstract={"input": c["input"], "form": c["form"]}, fmt=f)
        else:
            add({"id": f"degen:{i}", "fmt": f, "data": data, "sp": sp}, kind="degen",
                abstract={"input": c["input"], "form": c["form"], "path": c["path"]}, fmt=f)
    # archive members: member path = <archive path>!/<member name>
    for i, c in enumerate(extra["members"]):
        r2 = random.Random(f"{ctx.seed}:member:{i}")
        m, mname = L.spell_member(c["member"], r2)
        try:
            data = L.archive_bytes(c["arch"], mname)
        except ImportError:
            continue                                   # no 7z writer available: those cases are left out
        sp = L.spell_path(c["path"], r2)
        if sp["root"] == "none":
            sp = dict(sp, root="dc")
            parg = None
        else:
            sp["exts"] = list(L.ARCH_EXTS[c["arch"]])
            parg = "use-sp"
        member = {"k": "member", "archseg": ".".join([sp["stem"]] + sp["exts"]) + "!", **m}
        job = {"id": f"member:{i}", "fmt": c["arch"], "data": data, "sp": sp, "member": member}
        if parg is None:
            job.update(parg=None, mat=False)
        add(job, kind="member", abstract={"arch": c["arch"], "member": c["member"], "member_name": mname, "path": c["path"]},
            fmt=c["arch"])
    # archives with several members: every result reports its own member's path
    for i, c in enumerate(extra["multis"]):
        r2 = random.Random(f"{ctx.seed}:multi:{i}")
        spelled = []
        for am in c["members"]:
            am = dict(am, abs=am["abs"] and c["arch"] != "7z")        # the 7z reader refuses absolute names
            spelled.append(L.spell_member(am, r2))
        names = [nm for _, nm in spelled]
        if len(set(n.lstrip("/") for n in names)) != len(names):
            continue
        try:
            data = L.archive_bytes(c["arch"], names)
        except ImportError:
            continue
        sp = L.spell_path(c["path"], r2)
        job = {"id": f"multi:{i}", "fmt": c["arch"], "data": data, "sp": sp, "expect_results": len(names)}
        if sp["root"] == "none":
            job.update(sp=dict(sp, root="dc"), parg=None, mat=False)
        else:
            sp["exts"] = list(L.ARCH_EXTS[c["arch"]])
            seg = ".".join([sp["stem"]] + sp["exts"]) + "!"
            job["members"] = [{"k": "member", "archseg": seg, **m} for m, _ in spelled]
        add(job, kind="multi", abstract={"arch": c["arch"], "members": names, "path": c["path"]}, fmt=c["arch"])
    # picture parts with extensions outside the extractors' content-type tables
    for i, c in enumerate(extra["picexts"]):
        x = c["x"]
        d0 = L.enrich(rich_doc(x["fmt"], ctx.seed))
        data = (L.epub_with_images(d0, x["ext"], ctx.seed) if x["fmt"] == "epub"
                else render(L.rename_images(d0, x["ext"]), x["fmt"]))
        add({"id": f"picext:{i}", "fmt": x["fmt"], "data": data, "sp": dict(none_sp0), "parg": None, "mat": False},
            kind="picext", abstract=x, fmt=x["fmt"])
    # heading structures of the flow formats
    struct_rng = random.Random(ctx.seed + 7)
    for i, c in enumerate(extra["structs"]):
        x = c["x"]
        if not ctx.thorough and len(x["items"]) >= 4 and struct_rng.random() >= 0.4:
            continue                  # quick: every structure of <= 3 items, a seeded 40 % of those with 4
        add({"id": f"struct:{i}", "fmt": x["fmt"], "doc": L.struct_doc(x["fmt"], x["items"], x["pics"], ctx.seed),
             "sp": dict(none_sp0), "parg": None, "mat": False}, kind="struct", abstract=x, fmt=x["fmt"])
    for i, c in enumerate(extra["names"]):
        x = c["x"]
        add({"id": f"name:{i}", "fmt": x["fmt"], "data": L.name_variant(base[x["fmt"]], x["fmt"], x["which"], x["name"]),
             "sp": dict(none_sp0), "parg": None, "mat": False}, kind="name", abstract=x, fmt=x["fmt"])
    # alternative texts of pictures (post-processed packages of the shared writers)
    for i, c in enumerate(extra["alts"]):
        a = c["alt"]
        data = L.alt_variant(base[a["fmt"]], a["fmt"], a)
        add({"id": f"alt:{i}", "fmt": a["fmt"], "data": data, "sp": dict(none_sp0), "parg": None, "mat": False},
            kind="alt", abstract=a, fmt=a["fmt"])

    # where a picture's bytes come from / picture geometry (post-processed packages with four pictures)
    base4 = {f: render(L.four_images(L.enrich(rich_doc(f, ctx.seed)), f), f) for f in formats if f in L.ALT_FORMATS}
    for i, c in enumerate(extra["srcs"]):
        x = c["x"]
        add({"id": f"src:{i}", "fmt": x["fmt"], "data": L.src_variant(base4[x["fmt"]], x["fmt"], x["pos"], x["src"]),
             "sp": dict(none_sp0), "parg": None, "mat": False}, kind="src", abstract=x, fmt=x["fmt"])
    for i, c in enumerate(extra["lens"]):
        x = c["x"]
        add({"id": f"len:{i}", "fmt": x["fmt"], "data": L.len_variant(base4[x["fmt"]], x["fmt"], x["attr"], x["len"]),
             "sp": dict(none_sp0), "parg": None, "mat": False}, kind="len", abstract=x, fmt=x["fmt"])
    # strings that are not Unicode text in the file: tagged PDFs (own writer), HTML character references
    if "pdf" in formats:
        for i, c in enumerate(extra["pdfs"]):
            add({"id": f"pdf:{i}", "fmt": "pdf", "data": L.tagged_pdf(c["x"]), "sp": dict(none_sp0), "parg": None, "mat": False},
                kind="pdf", abstract=c["x"], fmt="pdf")
    for i, c in enumerate(extra["ncrs"]):
        x = c["x"]
        data = L.ncr_html(x["place"], x["ref"])
        if x["fmt"] == "mhtml":
            data = L.mhtml_wrap(data, random.Random(f"{ctx.seed}:ncr:{i}"))
        add({"id": f"ncr:{i}", "fmt": x["fmt"], "data": data, "sp": dict(none_sp0), "parg": None, "mat": False},
            kind="ncr", abstract=x, fmt=x["fmt"])

    # well-formed containers whose picture payloads are not recognisable images (accepted by every extractor)
    none_sp = {"root": "none", "dirs": [], "stem": "", "exts": [], "fexists": False, "dexists": False}
    for f in formats:
        if not L.doc_images(rich_doc(f, ctx.seed)):
            continue
        for how in sorted(L.IMAGE_DAMAGE):
            doc = L.damage_images(L.enrich(rich_doc(f, ctx.seed)), how)
            add({"id": f"img:{f}:{how}", "fmt": f, "doc": doc, "sp": dict(none_sp), "parg": None, "mat": False},
                kind="imgdamage", abstract={"fmt": f, "images": how}, fmt=f)
        doc = L.enrich(rich_doc(f, ctx.seed))       # picture members whose CRC does not match (unreadable pictures)
        add({"id": f"img:{f}:badcrc", "fmt": f, "doc": doc, "sp": dict(none_sp), "parg": None, "mat": False,
             "badcrc": [i["part"] for i in L.doc_images(doc)]}, kind="imgdamage", abstract={"fmt": f, "images": "badcrc"}, fmt=f)

    root, fixtures = _fixtures(3_000_000 if ctx.thorough else 450_000)
    if not fixtures:
        raise MachineryError("no repository fixtures found (binding vanished?)")
    if not ctx.thorough:
        rng.shuffle(fixtures)
        fixtures = sorted(fixtures[:34])
    rootreal = os.path.realpath(root)
    nmut_gen, nmut_fix = (24, 10) if ctx.thorough else (4, 2)
    for i, p in enumerate(fixtures):
        rel = str(p.relative_to(root))
        pieces = p.name.split(".")
        archive = p.name.lower().endswith(ARCHIVE_EXT)
        mode = ["rel", "cwd", "none"][(i + ctx.seed) % 3]
        sp = {"root": "dc" if archive else mode, "dirs": rel.split("/")[:-1] if mode != "none" else [],
              "stem": pieces[0] if mode != "none" else "", "exts": pieces[1:] if mode != "none" else [],
              "fexists": mode != "none", "dexists": mode != "none"}
        if archive:
            sp.update(dirs=[], stem="", exts=[], fexists=False, dexists=False)
        parg = {"rel": rel, "cwd": rootreal + "/" + rel, "none": None}[mode]
        add({"id": f"fix:{rel}", "route": str(p), "file": str(p), "sp": sp, "parg": parg, "cwd": rootreal, "mat": False},
            kind="fixture", file=rel, fmt="")
        for m in range(nmut_fix):
            spm = {"root": "dc" if archive else "none", "dirs": [], "stem": "", "exts": [], "fexists": False, "dexists": False}
            add({"id": f"mut:{rel}#{m}", "route": str(p), "file": str(p), "sp": spm, "parg": None, "mat": False,
                 "mut": f"{ctx.seed}:{rel}:{m}"}, kind="mutant", file=rel, fmt="")
    for f in formats:
        for m in range(nmut_gen):
            spm = {"root": "none", "dirs": [], "stem": "", "exts": [], "fexists": False, "dexists": False}
            add({"id": f"mut:gen.{f}#{m}", "fmt": f, "data": base[f], "sp": spm, "parg": None, "mat": False,
                 "mut": f"{ctx.seed}:gen:{f}:{m}"}, kind="mutant", file=f"generated.{f}", fmt=f)
    t0 = time.time()
    results = _run_pool(jobs, ctx, budget_s=780 if ctx.thorough else 200)
    ctx.log(f"{len(jobs)} extractions in {time.time() - t0:.1f}s")

    # ------------------------------------------------------------------ 3. traces
    traces, owner = [], []
    stat = {}
    for j in jobs:
        r, m = results[j["id"]], meta[j["id"]]
        stat[(m["kind"], r["status"])] = stat.get((m["kind"], r["status"]), 0) + 1
        if r["status"] == "harness":
            raise MachineryError(f"worker failed on {j['id']}: {r['msg']}")
        if r["status"] != "ok":
            continue
        if j.get("expect_results") and r["nres"] != j["expect_results"]:
            stat[(m["kind"], "other-result-count")] = stat.get((m["kind"], "other-result-count"), 0) + 1
            continue                      # which members yield a result is C10's business: the mapping result -> member is lost
        hdr = dict(r["hdr"])
        if m["kind"] == "mutant":
            hdr["fmt"] = ""
        evs = [{k: x for k, x in e.items() if k != "msg"} for e in r["events"]]
        for k in range(0, max(1, len(evs)), L.MAX_EVENTS_PER_TRACE):
            traces.append({"id": f"{j['id']}@{k}", "hdr": hdr, "ev": evs[k:k + L.MAX_EVENTS_PER_TRACE]})
            owner.append((j, r, k))
    ctx.log("extraction outcomes: " + ", ".join(f"{k[0]}/{k[1]}={n}" for k, n in sorted(stat.items())))
    gen_kinds = ("path", "case", "units", "imgdamage", "head", "opf", "alt", "src", "len", "pdf", "ncr", "degen", "name", "member", "struct", "multi", "picext")
    gen_total = sum(n for (k, s), n in stat.items() if k in gen_kinds)
    gen_ok = sum(n for (k, s), n in stat.items() if k in gen_kinds and s == "ok")
    if gen_ok < 0.9 * gen_total:
        bad = next(results[j["id"]] for j in jobs if meta[j["id"]]["kind"] in gen_kinds
                   and results[j["id"]]["status"] != "ok")
        raise MachineryError(f"only {gen_ok}/{gen_total} generated cases were extracted (e.g. {bad['id']}: {bad['status']} {bad['msg']})")
    traces_nonempty = [(t, o) for t, o in zip(traces, owner) if t["ev"]]
    traces = [t for t, _ in traces_nonempty]
    owner = [o for _, o in traces_nonempty]
    br = validate("IfaceTrace", "SPECIFICATION TraceSpec\nCONSTANTS Deviations = {}\nCONSTRAINT TraceAccept\n", traces,
                  scratch=ctx.scratch, parallel=12, min_chunk=150, timeout=900, diagnose=0)
    ev.tlc_counts("IfaceTrace: recorded accessor protocols validated", br.distinct, br.states, br.wall_s)
    ctx.log(f"IfaceTrace validated {len(traces)} traces in {br.wall_s:.1f}s")

    # ------------------------------------------------------------------ 4. verdicts
    n_events = 0
    rej = [i for i, tv in enumerate(br.verdicts) if not tv.accepted]
    first_bad = dict(zip(rej, _diagnose([traces[i] for i in rej], ctx.scratch)))
    # KF-C04-01: a rejected trace in the finding's domain (EPUB, dc elements in a <dc-metadata> wrapper) is a known
    # finding iff TLC accepts it under the as-built model (deviation on); anything else stays a violation
    dom = [i for i in rej if traces[i]["hdr"].get("dcwrapper")]
    asbuilt_ok = set()
    if dom and v.open_finding(KF_WRAPPER):
        bra = validate("IfaceTrace", f'SPECIFICATION TraceSpec\nCONSTANTS Deviations = {{"{KF_WRAPPER_DEV}"}}\nCONSTRAINT TraceAccept\n',
                       [traces[i] for i in dom], scratch=ctx.scratch, parallel=4, min_chunk=150, timeout=900, diagnose=0)
        ev.tlc_counts("IfaceTrace as-built (Epub!DcMetadataWrapperIgnored): rejected traces of the finding's domain", bra.distinct,
                      bra.states, bra.wall_s)
        asbuilt_ok = {i for i, tv in zip(dom, bra.verdicts) if tv.accepted}
    for i, (t, (j, r, k0), tv) in enumerate(zip(traces, owner, br.verdicts)):
        m = meta[j["id"]]
        if tv.accepted:
            v.ok(tv.length)
            n_events += tv.length
            continue
        idx = first_bad[i]
        e = r["events"][k0 + idx]
        what = _describe(e)
        if i in asbuilt_ok:
            v.known(KF_WRAPPER, f"[{m['kind']}: generated {m['fmt']} document] {what}", case={"abstract": m.get("abstract")})
            continue
        src = m.get("file") or f"generated {m['fmt']} document"
        inp = {"kind": m["kind"], "input": src, "mutation": r.get("msg", "") if m["kind"] == "mutant" else "",
               "path_argument": r.get("parg"), "abstract": m.get("abstract"), "props": j.get("props")}
        v.violation(what=f"[{m['kind']}: {src}{' ' + r.get('msg', '') if m['kind'] == 'mutant' else ''}] {what}",
                    case={"input": inp, "event": e, "trace": t["id"], "event_index": k0 + idx},
                    where="data_types.py accessor / extractor metadata reader")
    ev.replayed(len(traces))
    for j in jobs:
        m, r = meta[j["id"]], results[j["id"]]
        if r["status"] == "ok" and m["kind"] != "fixture":
            ev.nontrivial((m["kind"], json.dumps(m.get("abstract"), sort_keys=True), m.get("file"), r.get("msg")))
    shown = 0
    for want in ("path", "case", "units", "head", "opf", "alt", "src", "len", "pdf", "ncr", "degen", "name", "member", "struct", "multi", "picext", "imgdamage", "fixture", "mutant"):
        for j in jobs:
            m, r = meta[j["id"]], results[j["id"]]
            if m["kind"] == want and r["status"] == "ok" and r["events"]:
                ev.sample({"kind": want, "input": m.get("file") or m.get("fmt"), "abstract": m.get("abstract"),
                           "path_argument": r.get("parg"), "mutation": r.get("msg"), "results": r["nres"],
                           "events": len(r["events"]),
                           "some_events": [e for e in r["events"] if e["a"] in ("FileMeta", "Prop", "Units", "Stream", "Table")][:3]})
                shown += 1
                break
    acc = stat.get(("mutant", "ok"), 0)
    ev.set(rule="abstract paths, (path form x property value x format) cases and \\uN runs enumerated by TLC (IfaceGen), "
                "each concretised and run through the real extractor of a generated rich document, + repository fixtures, "
                "+ seeded mutants of fixtures and generated files that are still accepted; the whole accessor protocol is "
                "recorded on every result and validated by TLC (IfaceTrace); non-trivial = distinct generated case or accepted mutant",
           exhaustive=bool(ctx.thorough),       # quick replays a seeded sample of the enumerated paths
           constants={"MaxDirs": max_dirs, "MaxVal": max_val, "paths": len(paths), "paths_replayed": len(replay_paths), "cases": len(cases), "unit_runs": len(units), "head_layout_cases": len(extra["heads"]),
                      "opf_layout_cases": len(extra["opfs"]), "picture_alt_cases": len(extra["alts"]), "picture_source_cases": len(extra["srcs"]),
                      "geometry_cases": len(extra["lens"]), "tagged_pdf_cases": len(extra["pdfs"]), "ncr_cases": len(extra["ncrs"]),
                      "degenerate_cases": len(extra["degens"]), "container_name_cases": len(extra["names"]),
                      "archive_member_cases": len(extra["members"]), "heading_structures": len(extra["structs"]),
                      "picture_extension_cases": len(extra["picexts"]), "multi_member_archives": len(extra["multis"]),
                      "fixtures": len(fixtures), "mutants_tried": sum(n for (k, s), n in stat.items() if k == "mutant"),
                      "mutants_accepted": acc, "accessor_events_validated": n_events,
                      "skipped_timeouts": sum(n for (k, s), n in stat.items() if s == "timeout"), "formats": formats})
    ev.assume("fixtures larger than the size limit and protected fixtures are left out",
              "a case whose extraction does not finish within the per-case timer is skipped (termination is C01)",
              "metadata of results that come out of an archive is DON'T-CARE here (member naming: C10)",
              "path strings are projected structurally (split at '/' and '.'); working directory = a fresh scratch directory",
              "Carries / MetaTypeOf in Iface.tla are transcribed by hand from data_types.py")


# --------------------------------------------------------------------------- binding demonstration
def corrupt_demo():
    """Record the accessor protocol of one real extraction, then corrupt one recorded field at a time:
    TLC (IfaceTrace) must accept the recorded trace and reject every corrupted one at the corrupted event."""
    import copy
    from ..tlc import Scratch
    from ..docrun import rich_doc
    with Scratch("C04demo") as sc:
        doc = L.enrich(rich_doc("docx", 0))
        props = {k: L.spell_val(["a", "em", "lb"], k) for k in L.FIELDS}
        doc["props"] = props
        sp = {"root": "rel", "dirs": ["données"], "stem": "my file", "exts": ["tar", "docx"], "fexists": True, "dexists": True}
        r = L.run_job({"id": "demo", "fmt": "docx", "doc": doc, "sp": sp, "props": props, "wd": str(sc / "w"), "timeout": 60})
        if r["status"] != "ok":
            raise MachineryError(f"demo extraction failed: {r}")
        evs = [{k: x for k, x in e.items() if k != "msg"} for e in r["events"]]
        base = {"id": "recorded", "hdr": r["hdr"], "ev": evs}

        def first(a, **kw):
            return next(i for i, e in enumerate(evs) if e["a"] == a and all(e.get(k) == x for k, x in kw.items()))
        variants = [("recorded", None, None)]

        def corrupt(label, idx, fn):
            t = copy.deepcopy(base)
            t["id"] = label
            fn(t["ev"][idx])
            variants.append((label, idx, t))
        corrupt("Stream.len + 1 (length != size_bytes)", first("Stream"), lambda e: e.update(len=e["len"] + 1, len2=e["len2"] + 1))
        corrupt("Stream.pos2 = len (second get_bytes() not rewound)", first("Stream"), lambda e: e.update(pos2=e["len"]))
        corrupt("Table.dimcols + 1", first("Table"), lambda e: e.update(dimcols=e["dimcols"] + 1))
        corrupt("Text.utf8 = false", first("Text"), lambda e: e.update(utf8=False))
        corrupt("Num.n = 0 (unit number)", first("Num"), lambda e: e.update(n=0))
        corrupt("FileMeta.ext = .tar.docx", first("FileMeta"), lambda e: e.update(ext=["", "tar", "docx"]))
        corrupt("FileMeta.folder = other directory", first("FileMeta"), lambda e: e["dir"].update(segs=["elsewhere"]))
        corrupt("Prop(title).got: one code point changed", first("Prop", field="title"),
                lambda e: e.update(got=e["got"][:-1] + [e["got"][-1] + 1]))
        corrupt("Prop(author).got: surrogate pair left unpaired", first("Prop", field="author"),
                lambda e: e.update(got=[55357, 56832] + e["got"]))
        corrupt("event replaced by Raise", first("Json"), lambda e: (e.clear(), e.update(a="Raise", who="x", exc="TypeError")))
        traces = [base] + [t for _, _, t in variants[1:]]
        br = validate("IfaceTrace", "SPECIFICATION TraceSpec\nCONSTANTS Deviations = {}\nCONSTRAINT TraceAccept\n", traces,
                      scratch=sc, parallel=1, diagnose=0)
        rej = [i for i, tv in enumerate(br.verdicts) if not tv.accepted]
        where = dict(zip(rej, _diagnose([traces[i] for i in rej], sc)))
        print(f"recorded trace: {len(evs)} events, path argument {r['parg']!r}")
        ok = br.verdicts[0].accepted
        for i, ((label, idx, _), tv) in enumerate(zip(variants, br.verdicts)):
            if i == 0:
                print(f"  recorded: {'ACCEPTED' if tv.accepted else 'REJECTED'}")
                continue
            at = where.get(i)
            good = (not tv.accepted) and at == idx
            ok = ok and good
            print(f"  {label}: {'ACCEPTED' if tv.accepted else f'REJECTED at event {at}'} (corrupted event {idx})"
                  + ("" if good else "   <-- UNEXPECTED"))
        return 0 if ok else 1


if __name__ == "__main__":
    import sys
    if sys.argv[1:] == ["corrupt-demo"]:
        sys.exit(corrupt_demo())
