"""C18 -- SharePoint listing is complete, exact and fault-contained.
Spec: specs/Graph.tla (+ GraphFilter, GraphGen, GraphTrace).

1. TLC proves on ALL small libraries (trees x page sizes x trailing-empty-page) x all listing calls
   x a fault of any kind at any request of the first call + retry: Inv_Complete, Inv_Once,
   Inv_Closed, Inv_Family, Inv_CacheOnlyAfterSuccess, Inv_RetryComplete, Inv_ReqCount,
   Inv_FaultRaises (Graph!MCSpec), and -- sensitivity -- that each named deviation breaks one.
2. spec -> code: TLC (GraphGen) enumerates the cases (library, call, fault position < NReq computed
   by the specification, fault kind) and the filter lattice; each case is concretised into a fake
   Graph server passed through the client's public request_func parameter and driven through
   list_all_files / list_files_filtered / list_files_modified_since / list_files_created_since /
   list_files_in_folder, followed by a retry on the same client against the healthy transport.
3. code -> spec: the recorded traces (requests decoded back to <<kind, folder, page>>, transport
   answers, close() calls, results, exception class / status / url) -- from the replay, from random
   larger libraries (<= 40 nodes, page size <= 7) and from the scenarios of the repo's own
   test_sharepoint_io.py -- are validated by TLC against GraphTrace: every request must be the one
   the walker model sends next, every healthy answer the one the server model gives, every
   response closed, results / errors as specified.  Traces the strict pass rejects are
   re-validated at property level (Strict = FALSE): accepted there = the code's algorithm drifted
   from the model but the property holds (note, no violation); rejected = VIOLATION.
   FileFilter.matches observations are validated against GraphFilter!Verdict (three-valued).
"""
from __future__ import annotations

import io
import json
import os
import random
import re
import subprocess
import sys
import time
from concurrent.futures import ThreadPoolExecutor
from pathlib import Path

from .. import PY, VERIF
from ..repo import child_env
from ..tlaval import iter_dump
from ..tlc import MachineryError, run_tlc
from ..traces import validate

FAULT_KINDS = ["http", "url", "non2xx", "non2xx_nonobject", "non2xx_badjson", "badjson", "nonobject", "badutf8",
               "nofield", "readerr"]
NON2XX = ("non2xx", "non2xx_nonobject", "non2xx_badjson")
MC_KINDS = [k for k in FAULT_KINDS if k not in NON2XX[1:]]     # (the status is checked before the body: one body
                                                               #  kind suffices in the quick theorem run)
ALL_CALLS = ["all", "filtered", "modsince", "crsince", "infolder"]
INVS = ["Inv_Complete", "Inv_Once", "Inv_Closed", "Inv_Family", "Inv_CacheOnlyAfterSuccess",
        "Inv_RetryComplete", "Inv_ReqCount", "Inv_FaultRaises"]
SENSITIVITY = [("NonObjectEscapes", "Inv_Family"), ("BadUtf8TokenEscapes", "Inv_Family"),
               ("DirPassFirstPageOnly", "Inv_Complete"), ("NoCloseOnReadError", "Inv_Closed"),
               ("CacheSiteBeforeCheck", "Inv_CacheOnlyAfterSuccess")]


def _consts(n, p, calls=ALL_CALLS, dev=(), extra="", kinds=None):
    q = lambda xs: "{" + ", ".join('"%s"' % x for x in xs) + "}"
    return (f"CONSTANTS Deviations = {q(dev)}\n MaxNodes = {n}\n MaxP = {p}\n FaultKinds = {q(kinds or FAULT_KINDS)}\n"
            f" Calls = {q(calls)}\n{extra}")


# =========================================================================== fake Graph server
BASE_V = 0                      # time line origin; v seconds after 2024-01-15T10:00:00Z
A_V, B_V = 100, 200             # the lattice of GraphGen (A, B)
FOLDER_NAMES = ["Re", "x", "a b#%", "Üñï 文", "Docs+1&2", "re", "2024-Q1", "Ünterlagen (alt)", "tmp;=@$!'", "q?x"]
FILE_STEMS = ["a", "b", "report 2024 (1)", "ünï", "a b#%", "x+y&z", "Re", "données_été", "q?=1"]
FILE_EXTS = [".pdf", ".PDF", ".Pdf", ".pdf.bak", ".docx", ".DOCX", "", ".txt"]
SPECIAL_FILES = ["apdf", ".pdf", "a.pdf", "a.PDF"]


def codes(s):
    return [ord(c) for c in s]


def uncodes(cs):
    return "".join(chr(c) for c in cs)


def _dt(v):
    from datetime import datetime, timedelta, timezone
    return datetime(2024, 1, 15, 10, 0, 0, tzinfo=timezone.utc) + timedelta(seconds=v)


def date_string(d, rng):
    """Concretise a spec date [t, v] into what the server puts into the JSON (None = field omitted)."""
    from datetime import timedelta, timezone
    if d["t"] == "missing":
        return rng.choice([None, None, "", "null"])          # "null" -> JSON null
    if d["t"] == "garbage":
        return rng.choice(["not-a-date", "2024-13-45T99:00:00Z", 12345, "15/01/2024 10:00", "2024-01-15T10:00:00+0x:00",
                           ["2024"], "T", "Z"])
    t = _dt(d["v"])
    form = rng.randrange(6)
    if form == 0:
        return t.strftime("%Y-%m-%dT%H:%M:%SZ")
    if form == 1:
        return t.strftime("%Y-%m-%dT%H:%M:%S") + ".000Z"
    if form == 2:
        return t.strftime("%Y-%m-%dT%H:%M:%S") + ".0000000Z"
    if form == 3:
        return t.strftime("%Y-%m-%dT%H:%M:%S") + "+00:00"
    if form == 4:
        z = timezone(timedelta(hours=2))
        return t.astimezone(z).strftime("%Y-%m-%dT%H:%M:%S") + "+02:00"
    z = timezone(-timedelta(hours=5, minutes=30))
    return t.astimezone(z).strftime("%Y-%m-%dT%H:%M:%S") + ".000-05:30"


def bound_datetime(v, rng):
    from datetime import timedelta, timezone
    t = _dt(v)
    if rng.random() < 0.4:
        t = t.astimezone(timezone(timedelta(hours=rng.choice([-8, 1, 9]))))
    return t


def error_body(rng, code=500):
    """Body of a failed answer (raised HTTPError or returned non-2xx / unparsable 2xx): every encoding a gateway,
    proxy or Graph itself may hand back.  None of them is a JSON object."""
    return rng.choice([
        b"",
        b"<html><body><h1>502 Bad Gateway</h1></body></html>",
        "<html><head><title>Erreur %d</title></head><body>Passerelle incorrecte \xe9\xe8\xe0 \xfc</body></html>".encode("latin-1") % code,
        "\ufeff{\"error\": {\"code\": \"x\"}}".encode("utf-16"),                 # UTF-16 with BOM
        b"\xff\xfe\x00\x81\x8d\xc3\x28\xf0\x28\x8c\x28 binary \x00\x01\x02",      # invalid UTF-8 / binary garbage
        b"\x1f\x8b\x08\x00\x00\x00\x00\x00\x00\x03garbage-gzip",
        ("<html>" + "Service Unavailable \u2013 bitte sp\u00e4ter erneut versuchen. " * 1500 + "</html>").encode("utf-8"),   # long
        b'{"error": {"code": "generalException"',                                # truncated JSON
    ])


def error_object(rng, code=500):
    """A JSON OBJECT as error payload: ASCII, UTF-8 with non-ASCII, escaped, very long."""
    return rng.choice([
        json.dumps({"error": {"code": "x%d" % code, "message": "itemNotFound"}}).encode(),
        json.dumps({"error": {"code": "accessDenied", "message": "Zugriff verweigert \u2013 \u6587\u66f8 \u00e9"}}, ensure_ascii=False).encode("utf-8"),
        json.dumps({"error": {"code": "activityLimitReached", "message": "throttled " * 8000, "innerError": {"date": "2024-01-15T10:00:00"}}}).encode(),
    ])


class FakeResponse:
    def __init__(self, log, serial, status, body, *, read_error=False, use_getcode=False):
        self._log, self._serial, self._body, self._read_error = log, serial, body, read_error
        if use_getcode:
            self._code = status
        else:
            self.status = status
            self._code = status

    def getcode(self):
        return self._code

    def read(self, *a):
        if self._read_error:
            raise ConnectionResetError(104, "Connection reset by peer (injected)")
        return self._body

    def close(self):
        self._log.append({"a": "Close", "r": self._serial})


class FakeGraph:
    """The simulated tenant: token endpoint + one site + one drive, behind request_func."""
    GRAPH = "https://graph.microsoft.com/v1.0"
    OPTIONAL = ("webUrl", "size", "@microsoft.graph.downloadUrl", "parentReference", "listItem", "eTag", "createdBy")

    def __init__(self, srv, names, dates, *, site_url, drive_id, rng, log, creds):
        self.srv, self.names, self.dates = srv, names, dates      # names[i-1]: str ; dates[i-1]: (created, modified)
        self.rng, self.log = rng, log
        self.drive_id = drive_id
        self.creds = creds
        from urllib.parse import urlparse
        u = urlparse(site_url.rstrip("/"))
        sp = u.path.rstrip("/")
        self.site_lookup = f"{u.netloc}:{sp}" if sp else u.netloc
        self.site_id = f"{u.netloc},{rng.getrandbits(64):016x}-aaaa,{rng.getrandbits(64):016x}-bbbb"
        self.item_id = {i: f"01{rng.getrandbits(40):010X}N{i}" for i in range(1, srv["n"] + 1)}
        self.node_of = {v: k for k, v in self.item_id.items()}
        self.tokens = set()
        self.skip = {}                      # opaque skiptoken -> (folder node, page, drive id)
        self.serial = 0
        self.nreq = 0                       # request index within the current call
        self.call_no = 0
        self.plan = None                    # (at, kind, code) for call 1
        self.last_url = None
        # per-item rendering variants (Graph omits optional members freely): facet shape and which optional
        # members are present.  The abstract kind is carried by the PRESENCE of the facet key alone.
        self.shape = {}
        for i in range(1, srv["n"] + 1):
            r = rng.random()
            omit = set(self.OPTIONAL) if r < 0.2 else set() if r < 0.4 else {k for k in self.OPTIONAL if rng.random() < 0.35}
            self.shape[i] = {"facet": rng.randrange(3), "omit": omit, "listitem": rng.randrange(4)}
        self.ascii = rng.random() < 0.5

    # ---- server model, concretised
    def children(self, f):
        return [i for i in range(1, self.srv["n"] + 1) if self.srv["parent"][i - 1] == f]

    def is_folder(self, f):
        return f == 0 or (1 <= f <= self.srv["n"] and self.srv["kind"][f - 1] == "folder")

    def npages(self, f):
        c, P = len(self.children(f)), self.srv["P"]
        if c == 0:
            return 1
        lead = 1 if self.srv.get("lead") else 0      # an empty first page with a nextLink
        if self.srv["tail"] and c % P == 0:
            return lead + c // P + 1
        return lead + (c + P - 1) // P

    def resolve(self, path):
        f = 0
        for nm in path:
            nxt = [i for i in self.children(f) if self.names[i - 1] == nm]
            if not nxt:
                return -1
            f = nxt[0]
        return f

    def item_json(self, i):
        kind = self.srv["kind"][i - 1]
        name = self.names[i - 1]
        it = {"id": self.item_id[i], "name": name}
        sh = self.shape[i]
        nch = len(self.children(i))
        if kind == "folder":        # facet: empty object (childCount omitted) | childCount | childCount + view
            it["folder"] = [{}, {"childCount": nch}, {"childCount": nch, "view": {"viewType": "thumbnails", "sortBy": "name"}}][sh["facet"]]
        elif kind == "file":        # facet: empty object | mimeType | mimeType + hashes
            it["file"] = [{}, {"mimeType": "application/octet-stream"},
                          {"mimeType": "application/pdf", "hashes": {"quickXorHash": "x", "sha1Hash": "y"}}][sh["facet"]]
        else:
            it["package"] = [{}, {"type": "oneNote"}, {"type": "oneNote", "x": 1}][sh["facet"]]
        cr, mo = self.dates[i - 1]
        for key, val in (("createdDateTime", cr), ("lastModifiedDateTime", mo)):
            if val == "null":
                it[key] = None
            elif val is not None:
                it[key] = val
        opt = {"webUrl": "https://contoso.sharepoint.com/sites/x/Shared%20Documents/" + self.item_id[i],
               "size": [0, 1000 + i][sh["facet"] > 0],
               "@microsoft.graph.downloadUrl": "https://dl.example/" + self.item_id[i],
               "parentReference": {"driveId": self.drive_id or "b!default", "path": "/drive/root:"},
               "listItem": [{"fields": {"id": str(i), "Title": "t", "CustomCategory": "Finance", "@odata.etag": "x"}},
                            {"fields": {}}, {}, {"fields": None}][sh["listitem"]],
               "eTag": "\"{%d},1\"" % i, "createdBy": {"user": {"displayName": "U"}}}
        for key in self.OPTIONAL:
            if key not in sh["omit"] and not (key == "@microsoft.graph.downloadUrl" and kind != "file"):
                it[key] = opt[key]
        return it

    def page_body(self, f, p, drive):
        P = self.srv["P"]
        ch = self.children(f)
        q = p - (1 if self.srv.get("lead") and ch else 0)
        items = ch[(q - 1) * P: q * P] if q >= 1 else []
        doc = {"@odata.context": self.GRAPH + "/$metadata#x", "value": [self.item_json(i) for i in items]}
        nxt = p < self.npages(f)
        if nxt:
            tok = f"{self.rng.getrandbits(96):024x}"
            self.skip[tok] = (f, p + 1, drive)
            d = "drive" if drive is None else f"drives/{drive}"
            where = "root" if f == 0 else f"items/{self.item_id[f]}"
            doc["@odata.nextLink"] = (f"{self.GRAPH}/sites/{self.site_id}/{d}/{where}/children"
                                      f"?$expand=listItem($expand=fields)&$skiptoken={tok}")
        return doc, items, nxt

    # ---- URL -> abstract request
    def decode(self, request):
        from urllib.parse import parse_qs, unquote, urlsplit
        url = request.full_url
        u = urlsplit(url)
        ev = {"a": "Req", "k": "unknown", "f": 0, "p": 1, "path": [], "auth": True, "site": True, "drive": True}
        if u.netloc == "login.microsoftonline.com":
            ev["k"] = "token"
            body = request.data or b""
            q = parse_qs(body.decode("utf-8", "replace"))
            ok = (request.get_method() == "POST" and u.path == f"/{self.creds.tenant_id}/oauth2/v2.0/token"
                  and q.get("client_id") == [self.creds.client_id] and q.get("client_secret") == [self.creds.client_secret]
                  and q.get("grant_type") == ["client_credentials"] and q.get("scope") == [self.creds.scope])
            ev["auth"] = bool(ok)
            return ev, None
        if u.netloc != "graph.microsoft.com" or not u.path.startswith("/v1.0/sites/") or u.fragment:
            return ev, None
        hdr = request.get_header("Authorization") or ""
        ev["auth"] = hdr.startswith("Bearer ") and hdr[7:] in self.tokens and request.get_method() == "GET"
        rest = u.path[len("/v1.0/sites/"):]
        if rest == self.site_lookup and not u.query:
            ev["k"] = "site"
            return ev, None
        m = re.match(r"^(?P<sid>[^/]+)/(?:drive|drives/(?P<did>[^/]+))/(?P<tail>.*)$", rest, re.S)
        if not m:
            return ev, None
        ev["site"] = m.group("sid") == self.site_id
        did = m.group("did")
        ev["drive"] = did == self.drive_id
        tail = m.group("tail")
        q = parse_qs(u.query)
        if "$skiptoken" in q:
            ent = self.skip.get(q["$skiptoken"][0])
            if ent is None:
                return ev, did
            f, p, drv = ent
            where = "root" if f == 0 else f"items/{self.item_id[f]}"
            if tail != where + "/children" or drv != did:
                return ev, did
            ev.update(k="children", f=f, p=p)
            return ev, did
        if tail == "root/children":
            ev.update(k="children", f=0, p=1)
        elif (m2 := re.match(r"^items/([^/]+)/children$", tail)):
            node = self.node_of.get(unquote(m2.group(1)))
            if node is not None:
                ev.update(k="children", f=node, p=1)
        elif tail.startswith("root:/") and tail.endswith(":/children"):
            path = unquote(tail[len("root:/"):-len(":/children")])
            ev.update(k="childrenByPath", path=[codes(x) for x in path.split("/")])
        elif tail.startswith("root:/") and not u.query:
            path = unquote(tail[len("root:/"):])
            ev.update(k="folderByPath", path=[codes(x) for x in path.split("/")])
        return ev, did

    # ---- transport
    def start_call(self, plan):
        self.call_no += 1
        self.nreq = 0
        self.plan = plan
        self.log.append({"a": "Call"})

    def _respond(self, status, doc_or_bytes, meta, *, inj, read_error=False):
        self.serial += 1
        if isinstance(doc_or_bytes, bytes):
            body = doc_or_bytes
        else:
            body = json.dumps(doc_or_bytes, ensure_ascii=self.ascii).encode("utf-8")
        ev = {"a": "Resp", "r": self.serial, "status": status, "body": "ok", "items": [], "next": False,
              "node": 0, "isFolder": False, "inj": inj}
        ev.update(meta)
        self.log.append(ev)
        return FakeResponse(self.log, self.serial, status, body, read_error=read_error,
                            use_getcode=self.rng.random() < 0.25)

    def _raise_http(self, url, code, *, inj):
        from email.message import Message
        from urllib.error import HTTPError
        self.log.append({"a": "Fault", "kind": "http", "code": code, "inj": inj})
        body = error_object(self.rng, code) if self.rng.random() < 0.4 else error_body(self.rng, code)
        raise HTTPError(url, code, "Error %d" % code, Message(), io.BytesIO(body))

    def __call__(self, request, timeout=None, **kw):
        from urllib.error import URLError
        ev, did = self.decode(request)
        idx = self.nreq
        self.nreq += 1
        self.last_url = request.full_url
        self.log.append(ev)
        url = request.full_url
        if self.plan is not None and idx == self.plan[0]:
            at, kind, code = self.plan
            self.plan = None
            if kind == "http":
                self._raise_http(url, code, inj=True)
            if kind == "url":
                self.log.append({"a": "Fault", "kind": "url", "code": 0, "inj": True})
                raise URLError(self.rng.choice(["Connection refused", OSError(111, "Connection refused"), TimeoutError("timed out")]))
            if kind in NON2XX:          # a response RETURNED with a 1xx / 3xx / 4xx / 5xx status; bodies of every shape,
                if kind == "non2xx":    # among them objects every caller would happily consume as a page / token / site
                    b = self.rng.choice([
                        error_object(self.rng, code),
                        b'{"value": []}',
                        json.dumps({"value": [], "id": self.site_id, "access_token": "tok-not-issued", "name": "x", "folder": {}}).encode(),
                    ])
                    tag = "ok"
                elif kind == "non2xx_nonobject":
                    b, tag = self.rng.choice([b"[]", b'"Not Modified"', b"null", b"304"]), "nonobject"
                else:
                    b, tag = error_body(self.rng, code), "badjson"
                return self._respond(code, b, {"body": tag}, inj=True)
            if kind == "readerr":
                return self._respond(200, b"", {"body": "readerr"}, inj=True, read_error=True)
            if kind == "badjson":
                b = self.rng.choice([b'{"value": [', b"{'id': 'x'}", b'{"id": "x"} trailing', error_body(self.rng), error_body(self.rng)])
            elif kind == "nonobject":
                b = self.rng.choice([b"[]", b'["a", 1]', b'"text"', b"7", b"null", b"true", b"1.5"])
            elif kind == "badutf8":
                b = self.rng.choice([b'\xff\xfe{"access_token": "t", "id": "s", "value": []}', b'\x80{"id": "s"}', b"\xc3\x28 {}"])
            elif kind == "nofield":
                b = json.dumps(self.rng.choice([{"error": "invalid_grant"}, {"access_token": ""}, {"access_token": None}])
                               if ev["k"] == "token" else
                               self.rng.choice([{"displayName": "x"}, {"id": 5}, {"id": None}, {"id": ["s"]}])).encode()
            else:
                raise BaseException(f"unknown fault kind {kind}")       # harness bug: must not be swallowed
            st = self.rng.choice([200, 200, 200, 201, 206] + ([204] if b == b"" else []))    # any 2xx: still no page
            return self._respond(st, b, {"body": kind}, inj=True)
        # ---- healthy server (any 2xx status carrying the JSON object is a success)
        ok = self.rng.choice([200] * 9 + [203, 206])
        k = ev["k"]
        if k == "token":
            if not ev["auth"]:
                self._raise_http(url, 401, inj=False)
            tok = f"eyJ{self.rng.getrandbits(80):020x}"
            self.tokens.add(tok)
            return self._respond(ok, {"token_type": "Bearer", "expires_in": 3599, "access_token": tok}, {}, inj=False)
        if not ev["auth"]:
            self._raise_http(url, 401, inj=False)
        if k == "site":
            return self._respond(ok, {"id": self.site_id, "displayName": "Site", "webUrl": "https://contoso.sharepoint.com"},
                                 {}, inj=False)
        if k == "unknown" or not ev["site"] or not ev["drive"]:
            self._raise_http(url, 404 if k != "unknown" else 400, inj=False)
        if k == "children":
            f, p = ev["f"], ev["p"]
            if not self.is_folder(f) or not (1 <= p <= self.npages(f)):
                self._raise_http(url, 404, inj=False)
            doc, items, nxt = self.page_body(f, p, did)
            return self._respond(ok, doc, {"items": items, "next": nxt, "node": f, "isFolder": True}, inj=False)
        node = self.resolve([uncodes(c) for c in ev["path"]])
        if node == -1:
            self._raise_http(url, 404, inj=False)
        if k == "childrenByPath":
            if not self.is_folder(node):
                self._raise_http(url, 404, inj=False)
            doc, items, nxt = self.page_body(node, 1, did)
            return self._respond(ok, doc, {"items": items, "next": nxt, "node": node, "isFolder": True}, inj=False)
        # folderByPath
        return self._respond(ok, self.item_json(node), {"node": node, "isFolder": self.is_folder(node)}, inj=False)


# =========================================================================== concretisation
def _unique_names(srv, rng, rot):
    names = []
    for i in range(1, srv["n"] + 1):
        sibs = {names[j - 1] for j in range(1, i) if srv["parent"][j - 1] == srv["parent"][i - 1]}
        for attempt in range(200):
            cls = (i + rot + attempt) % 3 if attempt < 3 else rng.randrange(3)
            if srv["kind"][i - 1] == "folder":
                pool = [["Re", "x", "re", "2024-Q1"],
                        ["a b#%", "Docs+1&2", "tmp;=@$!'", "q?x", "Budget%20Draft", "Budget Draft", "100%25", "100%", "50%zz off",
                         "A%20B", "A B", "C%2FD", "x%23y", "x#y", "%41bc"],
                        ["Üñï 文", "Ünterlagen (alt)", "%C3%9Cber", "Über"]][cls]
                nm = rng.choice(pool)
            else:
                if rng.random() < 0.15:
                    nm = rng.choice(SPECIAL_FILES)
                else:
                    stem = rng.choice([["a", "b", "Re"], ["a b#%", "x+y&z", "q?=1", "report 2024 (1)", "a%20b", "a b", "100%25", "7%"],
                                       ["ünï", "données_été"]][cls])
                    nm = stem + rng.choice(FILE_EXTS)
            # pairs that collide after ONE round of percent-decoding ("A%20B" next to "A B"): a client that encodes
            # the path zero or two times reaches the wrong sibling
            from urllib.parse import quote as _q, unquote as _u
            if attempt == 0 and rng.random() < 0.3:
                twins = [t for s0 in sorted(sibs) for t in (_u(s0), _q(s0, safe="")) if t != s0 and t not in sibs and "/" not in t
                         and (srv["kind"][i - 1] == "folder") == (srv["kind"][[j for j in range(1, i) if names[j - 1] == s0
                                                                             and srv["parent"][j - 1] == srv["parent"][i - 1]][0] - 1] == "folder")]
                if twins:
                    nm = rng.choice(twins)
            if attempt >= 10:
                nm = f"{nm}~{attempt}"
            if nm not in sibs:
                break
        names.append(nm)
    return names


def _pick_filter(job_call, rng, filters):
    """Concretisation choice: which filter a filtered listing run uses (from TLC's lattice)."""
    F = rng.choice(filters)
    return F


def concretise(case, rng, filters, idx):
    """case: {"srv": {n,parent,kind,P,tail}, "job": {call, targets: [node id | -1 missing]}, "fault": {at,kind,code}}"""
    srv = dict(case["srv"])
    n = srv["n"]
    names = case.get("names") or _unique_names(srv, rng, idx)
    lattice = [A_V - 1, A_V, A_V + 1, B_V - 1, B_V, B_V + 1]
    def rdate():
        r = rng.random()
        if r < 0.1:
            return {"t": "missing", "v": 0}
        if r < 0.2:
            return {"t": "garbage", "v": 0}
        return {"t": "ok", "v": rng.choice(lattice)}
    cr = case.get("cr") or [rdate() if srv["kind"][i] == "file" else {"t": "ok", "v": 0} for i in range(n)]
    mo = case.get("mo") or [rdate() if srv["kind"][i] == "file" else {"t": "ok", "v": 0} for i in range(n)]
    srv.update(name=[codes(x) for x in names], cr=cr, mo=mo)
    call = case["job"]["call"]
    nobound = {"set": False, "v": 0}
    flt = {"ca": nobound, "cb": nobound, "ma": nobound, "mb": nobound, "exts": [], "pats": []}
    since, exts = 0, []
    if call == "filtered":
        flt = case["job"].get("flt") or _pick_filter(call, rng, filters)
    elif call in ("modsince", "crsince"):
        since = rng.choice([A_V, B_V])
        exts = rng.choice([[], [codes(".pdf")], [codes(".PDF"), codes(".docx")]])
    # targets: node ids -> name paths
    def path_of(node):
        if node == -1:
            return [rng.choice(["nope-zz", "Missing Folder", "nö"])]
        out = []
        while node != 0:
            out.append(names[node - 1])
            node = srv["parent"][node - 1]
        return out[::-1]
    tpaths = [path_of(t) for t in case["job"]["targets"]]
    job = {"call": call, "targets": [[codes(x) for x in p] for p in tpaths], "flt": flt, "since": since, "exts": exts}
    return srv, names, job, tpaths


def _mk_filter(FileFilter, flt, rng):
    kw = {}
    for key, attr in (("ca", "created_after"), ("cb", "created_before"), ("ma", "modified_after"), ("mb", "modified_before")):
        if flt[key]["set"]:
            kw[attr] = bound_datetime(flt[key]["v"], rng)
    return FileFilter(extensions=[uncodes(e) for e in flt["exts"]], path_patterns=[uncodes(p) for p in flt["pats"]], **kw)


def run_case(case, idx, seed, filters, sp):
    """Drive the real client through one case; returns a trace {id, hdr, ev}."""
    rng = random.Random(f"{seed}:{case.get('id', idx)}")
    srv, names, job, tpaths = concretise(case, rng, filters, idx)
    dates = [(date_string(srv["cr"][i], rng), date_string(srv["mo"][i], rng)) for i in range(srv["n"])]
    log = []
    site_url = rng.choice(["https://contoso.sharepoint.com/sites/testsite", "https://contoso.sharepoint.com/sites/testsite/",
                           "https://contoso.sharepoint.com", "https://fabrikam.sharepoint.com/teams/A-Team/sub"])
    drive_id = rng.choice([None, None, "b!dRiVe-1_x"])
    creds = sp.EntraIDAppCredentials(tenant_id="tenant-%d" % rng.randrange(100), client_id="cid", client_secret="s3cr=t&/+")
    server = FakeGraph(srv, names, dates, site_url=site_url, drive_id=drive_id, rng=rng, log=log, creds=creds)
    client = sp.SharePointRestClient(site_url, creds, request_func=server, timeout=5.0)
    call = job["call"]
    dkw = {} if drive_id is None and rng.random() < 0.5 else {"drive_id": drive_id}
    folder_paths = ["/".join(p) for p in tpaths]

    def invoke():
        if call == "all":
            return client.list_all_files()
        if call == "filtered":
            f = _mk_filter(sp.FileFilter, job["flt"], rng)
            f.folder_paths = list(folder_paths)
            return client.list_files_filtered(f, **dkw)
        if call in ("modsince", "crsince"):
            m = client.list_files_modified_since if call == "modsince" else client.list_files_created_since
            kw = dict(dkw)
            if folder_paths or rng.random() < 0.5:
                kw["folder_paths"] = list(folder_paths)
            if job["exts"] or rng.random() < 0.5:
                kw["extensions"] = [uncodes(e) for e in job["exts"]]
            return m(bound_datetime(job["since"], rng), **kw)
        if call == "infolder":
            p = folder_paths[0]
            if p == "":
                p = rng.choice(["/", ""])
                if p == "/" and rng.random() < 0.5:
                    return client.list_files_in_folder(**dkw)
            elif rng.random() < 0.3:
                p = "/" + p + rng.choice(["", "/"])
            return client.list_files_in_folder(p, **dkw)
        raise BaseException("unknown call " + call)                     # harness bug

    if call == "all" and drive_id is not None:
        server.drive_id = None          # list_all_files has no drive parameter
    f = case["fault"]
    plans = [(f["at"], f["kind"], f["code"]) if f["at"] >= 0 else None] + [None] * case.get("extra_calls", 1)
    for plan in plans:
        server.start_call(plan)
        try:
            res = list(invoke())
        except Exception as e:          # noqa: BLE001 -- the class is the observation
            if isinstance(e, sp.SharePointRequestError):
                cls = "request"
            elif isinstance(e, sp.SharePointAuthError):
                cls = "auth"
            elif isinstance(e, sp.SharePointError):
                cls = "base"
            else:
                cls = "other"
            st = getattr(e, "status_code", None)
            log.append({"a": "Raise", "cls": cls, "_pycls": type(e).__name__, "status": st if isinstance(st, int) else -1,
                        "url_ok": getattr(e, "url", None) == server.last_url, "_msg": str(e)[:120]})
        else:
            out = []
            for m in res:
                node = server.node_of.get(getattr(m, "id", None), -1)
                pp = m.parent_path
                out.append({"id": node, "nm": codes(m.name if isinstance(m.name, str) else "?"),
                            "pp": [codes(x) for x in pp.split("/")] if pp else []})
            log.append({"a": "Return", "res": out})
    hdr = {"srv": srv, "job": job, "fault": case["fault"]}
    return {"id": str(case.get("id", idx)), "hdr": hdr, "ev": log,
            "info": {"case": {k: x for k, x in case.items() if k != "idx"}, "idx": idx,
                     "names": names, "targets": folder_paths, "site_url": site_url, "drive_id": drive_id,
                     "dates": [[str(a), str(b)] for a, b in dates],
                     "shapes": [[server.shape[i]["facet"], sorted(server.shape[i]["omit"])] for i in range(1, srv["n"] + 1)]}}


def match_events(filter_cases, seed, sp):
    """FileFilter.matches on the synthetic (filter, file) lattice enumerated by TLC."""
    rng = random.Random(f"{seed}:match")
    evs = []
    for c in filter_cases:
        F, file = c["F"], c["file"]
        flt = _mk_filter(sp.FileFilter, F, rng)
        cr, mo = date_string(file["cr"], rng), date_string(file["mo"], rng)
        meta = sp.SharePointFileMetadata(name=uncodes(file["name"]), id="i", web_url="u",
                                         created=None if cr == "null" else cr, last_modified=None if mo == "null" else mo,
                                         parent_path="/".join(uncodes(x) for x in file["pp"]) or None)
        try:
            r = flt.matches(meta)
            obs = "T" if r is True else "F" if r is False else "E:" + repr(r)[:20]
        except Exception as e:          # noqa: BLE001
            obs = "E:" + type(e).__name__
        evs.append({"a": "Match", "F": F, "file": file, "obs": obs, "_cr": str(cr), "_mo": str(mo)})
    return evs


# =========================================================================== worker process
def _worker(inp, out):
    from ..repo import need
    need("sharepoint2text.sharepoint_io.client", "SharePointRestClient", "FileFilter", "SharePointFileMetadata",
         "EntraIDAppCredentials")
    import sharepoint2text.sharepoint_io as sp
    for n in ("SharePointError", "SharePointAuthError", "SharePointRequestError"):
        if not hasattr(sp, n):
            raise MachineryError("binding vanished: sharepoint_io." + n)
    c = sp.SharePointRestClient("https://x.example", sp.EntraIDAppCredentials("t", "c", "s"), request_func=lambda *a, **k: None)
    for n in ("list_all_files", "list_files_filtered", "list_files_modified_since", "list_files_created_since",
              "list_files_in_folder"):
        if not callable(getattr(c, n, None)):
            raise MachineryError("binding vanished: SharePointRestClient." + n)
    job = json.loads(Path(inp).read_text())
    import logging
    logging.disable(logging.CRITICAL)
    traces = [run_case(c, c["idx"], job["seed"], job["filters"], sp) for c in job["cases"]]
    res = {"traces": traces}
    if job.get("match"):
        res["match"] = match_events(job["match"], job["seed"], sp)
    Path(out).write_text(json.dumps(res))


def _run_workers(ctx, cases, filters, match, nproc):
    for i, c in enumerate(cases):
        c["idx"] = i
    parts = [cases[k::nproc] for k in range(nproc)]
    procs = []
    for k, part in enumerate(parts):
        inp, out = ctx.scratch / f"w{k}.in.json", ctx.scratch / f"w{k}.out.json"
        inp.write_text(json.dumps({"seed": ctx.seed, "filters": filters, "cases": part, "match": match if k == 0 else None}))
        procs.append((out, subprocess.Popen([PY, "-m", "mbv.props.c18", "worker", str(inp), str(out)], env=child_env(),
                                            cwd=str(VERIF), stdout=subprocess.PIPE, stderr=subprocess.PIPE, text=True)))
    traces, mev = [], []
    for out, p in procs:
        so, se = p.communicate(timeout=3000)
        if p.returncode != 0:
            raise MachineryError("C18 worker failed:\n" + se[-3000:])
        d = json.loads(out.read_text())
        traces += d["traces"]
        mev += d.get("match") or []
    return traces, mev


# =========================================================================== TLC side
def _py(v):
    """tlaval FD / tuple / frozenset -> plain JSON-able python."""
    if isinstance(v, dict):
        return {k: _py(x) for k, x in v.items()}
    if isinstance(v, (tuple, list)):
        return [_py(x) for x in v]
    if isinstance(v, frozenset):
        return sorted(_py(x) for x in v)
    return v


def _gen(ctx, mode, n, p, calls, tag):
    dump = ctx.scratch / f"gen-{tag}.dump"
    cfg = "SPECIFICATION GenSpec\n" + _consts(n, p, calls, extra=f' Mode = "{mode}"\n')
    r = run_tlc("GraphGen", cfg, scratch=ctx.scratch, dump=dump, heap="8g", timeout=1800)
    ctx.ev.tlc(f"GraphGen[{tag}]: case enumeration", r)
    path = dump if dump.exists() else Path(str(dump) + ".dump")
    states = [(_py(s["srv"]), _py(s["job"]), _py(s["fault"])) for s in iter_dump(path)]
    if len(states) != r.distinct:
        raise MachineryError(f"GraphGen dump has {len(states)} states, TLC reported {r.distinct}")
    path.unlink(missing_ok=True)
    return states


def _walk_cases(states, faults, keep, rng, prefix):
    """GraphGen "cases" states x "faults" states -> replay cases (targets as node ids; names are
    concretised later).  Returns (cases kept, number enumerated).  The product is formed here from
    the two TLC-enumerated factors: fault f applies at request k iff k < NReq (computed by the
    specification, carried in fault.at of the "cases" states) and (f.at < 0 or k <= f.at)."""
    base = []
    for srv, job, nreq in states:
        def node(path):
            if [list(x) for x in path] == [[63]]:
                return -1
            return path[-1][0] - 96 if path else 0
        base.append(({"n": srv["n"], "parent": list(srv["parent"]), "kind": list(srv["kind"]), "P": srv["P"],
                      "tail": srv["tail"], "lead": srv["lead"]},
                     {"call": job["call"], "targets": [node(p) for p in job["targets"]]}, nreq["at"]))
    base.sort(key=lambda c: json.dumps(c, sort_keys=True))
    faults = sorted(faults, key=lambda f: json.dumps(f, sort_keys=True))
    nofault = {"at": -1, "kind": "none", "code": 0}
    total = sum(1 + sum(1 for k in range(nreq) for f in faults if f["at"] < 0 or k <= f["at"]) for _, _, nreq in base)
    cases = []
    if total <= keep:
        for bi, (srv, job, nreq) in enumerate(base):
            cases.append((bi, nofault))
            cases += [(bi, {"at": k, "kind": f["kind"], "code": f["code"]}) for k in range(nreq) for f in faults
                      if f["at"] < 0 or k <= f["at"]]
    else:       # every fault-free case + a VERIF_SEED-chosen subset of the faulty ones, spread over all libraries
        per = max(1, (keep - len(base)) // max(1, len(base)))
        for bi, (srv, job, nreq) in enumerate(base):
            cases.append((bi, nofault))
            opts = [(k, f) for k in range(nreq) for f in faults if f["at"] < 0 or k <= f["at"]]
            for k, f in rng.sample(opts, min(per, len(opts))):
                cases.append((bi, {"at": k, "kind": f["kind"], "code": f["code"]}))
    out = []
    for i, (bi, f) in enumerate(cases):
        srv, job, _ = base[bi]
        out.append({"id": f"{prefix}{bi}.{f['kind']}{f['at']}.{f['code']}", "srv": srv, "job": job, "fault": f})
    return out, total


def _for_tlc(t):
    """What TLC reads: header + events without the diagnostics-only fields (leading underscore)."""
    return {"id": t["id"], "hdr": t["hdr"], "ev": [{k: x for k, x in e.items() if not k.startswith("_")} for e in t["ev"]]}


def _batch(spec_cfg, traces, ctx, parallel=12, min_chunk=40):
    """Accepted flags for every trace (one TLC run per chunk, ACCEPT lines); no per-trace re-runs."""
    if not traces:
        return [], 0, 0, 0.0
    nch = max(1, min(parallel, len(traces) // min_chunk or 1))
    k = (len(traces) + nch - 1) // nch
    chunks = [list(range(i, min(i + k, len(traces)))) for i in range(0, len(traces), k)]

    def one(ci_ix):
        ci, ix = ci_ix
        f = ctx.scratch / f"tr-{ci}-{time.time_ns()}.json"
        f.write_text(json.dumps([_for_tlc(traces[i]) for i in ix]))
        r = run_tlc("GraphTrace", spec_cfg, scratch=ctx.scratch, workers=1, timeout=3000, heap="3g",
                    env={"TRACE_FILE": str(f), "MBV_PROGRESS": "0"})
        acc = {int(x) for x in re.findall(r'<<"ACCEPT", (\d+)>>', r.output)}
        f.unlink(missing_ok=True)
        return [(i, (j + 1) in acc) for j, i in enumerate(ix)], r
    flags = [False] * len(traces)
    st = di = 0
    wall = 0.0
    with ThreadPoolExecutor(max_workers=nch) as ex:
        for pairs, r in ex.map(one, list(enumerate(chunks))):
            for i, a in pairs:
                flags[i] = a
            st += r.generated
            di += r.distinct
            wall = max(wall, r.wall_s)
    return flags, di, st, wall


def _trace_cfg(strict):
    return ("SPECIFICATION TraceSpec\nCONSTRAINT TraceAccept\n"
            + _consts(1, 1, ["all"], extra=f" Strict = {'TRUE' if strict else 'FALSE'}\n"))


# =========================================================================== extra trace sources
def _random_cases(seed, count):
    rng = random.Random(f"{seed}:big")
    cases = []
    for c in range(count):
        n = rng.randint(5, 40)
        parent, kind = [], []
        for i in range(1, n + 1):
            folders = [0] + [j for j in range(1, i) if kind[j - 1] == "folder"]
            deep = rng.random() < 0.5
            parent.append(folders[-1] if deep and rng.random() < 0.5 else rng.choice(folders))
            kind.append(rng.choice(["file", "file", "file", "folder", "folder", "other"]))
        srv = {"n": n, "parent": parent, "kind": kind, "P": rng.randint(1, 7), "tail": rng.random() < 0.3, "lead": False}
        if not srv["tail"] and n and rng.random() < 0.25:
            srv["lead"] = True
        call = rng.choice(ALL_CALLS)
        folders = [j for j in range(1, n + 1) if kind[j - 1] == "folder"]
        files = [j for j in range(1, n + 1) if kind[j - 1] == "file"]
        targets = []
        if call == "infolder":
            targets = [rng.choice([0] + folders + [-1])]
        elif call != "all" and rng.random() < 0.6:
            def anc(a, b):      # a is b or an ancestor of b
                while b != 0:
                    if a == b:
                        return True
                    b = parent[b - 1]
                return False
            pool = folders + files[:1] + [-1]
            rng.shuffle(pool)
            for t in pool:
                if len(targets) >= 3:
                    break
                if t > 0 and any(u > 0 and (anc(t, u) or anc(u, t)) for u in targets):
                    continue            # overlapping targets are a DON'T-CARE: not generated
                if t == -1 and -1 in targets:
                    continue
                targets.append(t)
        fault = {"at": -1, "kind": "none", "code": 0}
        if rng.random() < 0.7:
            kind_f = rng.choice(FAULT_KINDS)
            code = rng.choice([403, 404, 500, 429]) if kind_f == "http" else \
                rng.choice([100, 101, 300, 302, 304, 307, 400, 404, 429, 500, 503]) if kind_f in NON2XX else 0
            at = rng.randint(0, 1) if kind_f == "nofield" else min(60, int(rng.expovariate(1 / 9.0)))
            fault = {"at": at, "kind": kind_f, "code": code}
        cases.append({"id": f"big{c}", "srv": srv, "job": {"call": call, "targets": targets}, "fault": fault,
                      "extra_calls": rng.choice([1, 1, 2])})
    return cases


def _repo_test_cases():
    """The scenarios of sharepoint2text/tests/test_sharepoint_io.py as libraries for the same transport."""
    ok = {"t": "ok", "v": A_V}
    miss = {"t": "missing", "v": 0}
    nf = {"at": -1, "kind": "none", "code": 0}
    def lib(parent, kind, names, P=10, cr=None, mo=None):
        n = len(parent)
        return {"srv": {"n": n, "parent": parent, "kind": kind, "P": P, "tail": False, "lead": False}, "names": names,
                "cr": cr or [miss] * n, "mo": mo or [miss] * n}
    out = []
    out.append(("test_list_all_files_empty", lib([], [], []), nf))
    out.append(("test_list_all_files_with_files", lib([0, 0], ["file", "file"], ["document.pdf", "spreadsheet.xlsx"],
                                                       cr=[ok, miss], mo=[ok, miss]), nf))
    out.append(("test_list_files_with_folders", lib([0, 0, 1], ["folder", "file", "file"],
                                                     ["Folder A", "root-file.txt", "nested-file.pdf"]), nf))
    out.append(("test_list_files_with_custom_fields", lib([0], ["file"], ["report.pdf"]), nf))
    out.append(("test_list_files_pagination", lib([0, 0], ["file", "file"], ["file1.txt", "file2.txt"], P=1), nf))
    out.append(("test_http_error_raises_request_error", lib([0], ["file"], ["a.txt"]), {"at": 1, "kind": "http", "code": 403}))
    out.append(("test_network_error_raises_request_error", lib([0], ["file"], ["a.txt"]), {"at": 1, "kind": "url", "code": 0}))
    out.append(("test_fetch_access_token_invalid_json", lib([0], ["file"], ["a.txt"]), {"at": 0, "kind": "badjson", "code": 0}))
    out.append(("test_fetch_access_token_missing_token", lib([0], ["file"], ["a.txt"]), {"at": 0, "kind": "nofield", "code": 0}))
    cases = []
    for name, l, f in out:
        cases.append({"id": "repo-test:" + name, **l, "job": {"call": "all", "targets": []}, "fault": f})
    return cases


# =========================================================================== driver
def run(ctx):
    ev, v = ctx.ev, ctx.v
    thorough = ctx.thorough
    if ctx.replay:
        return _replay(ctx)
    T0 = time.time()
    lap = lambda what: ctx.log(f"[{time.time() - T0:6.1f}s] {what}")
    # ---- 1. theorem: all small libraries x calls x one fault anywhere + retry
    mc_n, mc_p = (4, 3) if thorough else (3, 2)
    cfg = ("SPECIFICATION MCSpec\n" + _consts(mc_n, mc_p, ["all", "filtered", "infolder"], kinds=FAULT_KINDS if thorough else MC_KINDS)
           + "".join(f"INVARIANT {i}\n" for i in INVS))
    r = run_tlc("Graph", cfg, scratch=ctx.scratch, timeout=3000, heap="8g", expect_fail=True)
    ev.tlc(f"Graph!MCSpec MaxNodes={mc_n} MaxP={mc_p}: 8 invariants, every fault position x kind + retry", r)
    if r.violated:
        v.violation(what=f"Graph.tla reference design violates {r.violated}", observed=r.trace[-2:], where="specs/Graph.tla")
    if thorough:
        cfg5 = "SPECIFICATION MCSpec\n" + _consts(5, 2, ["all"], kinds=MC_KINDS) + "".join(f"INVARIANT {i}\n" for i in INVS)
        r = run_tlc("Graph", cfg5, scratch=ctx.scratch, timeout=3000, heap="8g", expect_fail=True)
        ev.tlc("Graph!MCSpec MaxNodes=5 MaxP=2 list_all_files", r)
        if r.violated:
            v.violation(what=f"Graph.tla reference design violates {r.violated} (5 nodes)", observed=r.trace[-2:])
    for dev, inv in (SENSITIVITY if thorough else SENSITIVITY[:1] + SENSITIVITY[2:3]):
        sn = 3 if dev == "DirPassFirstPageOnly" else 2      # (needs a folder on the second page with a file in it)
        cfg_s = "SPECIFICATION MCSpec\n" + _consts(sn, 2, ["all", "filtered", "infolder"], dev=[dev]) + f"INVARIANT {inv}\n"
        r = run_tlc("Graph", cfg_s, scratch=ctx.scratch, timeout=900, expect_fail=True)
        ev.tlc(f"Graph sensitivity: deviation {dev} must break {inv}", r, note="expected violation")
        if r.violated != inv:
            raise MachineryError(f"sensitivity run: deviation {dev} did not violate {inv} (got {r.violated}): invariant vacuous")

    lap("theorem + sensitivity runs done")
    # ---- 2. cases enumerated by TLC
    fstates = _gen(ctx, "filter", 0, 1, ["all"], "filter")
    fcases = sorted((j for _, j, _ in fstates), key=lambda j: json.dumps(j, sort_keys=True))
    filters = sorted({json.dumps(j["F"], sort_keys=True) for j in fcases})
    filters = [json.loads(x) for x in filters]
    faults = [f for _, _, f in _gen(ctx, "faults", 0, 1, ["all"], "faults")]
    rng = random.Random(f"{ctx.seed}:subset")
    if thorough:
        walk, n1 = _walk_cases(_gen(ctx, "cases", 4, 2, ["all"], "all"), faults, 20000, rng, "a")
        rest, n2 = _walk_cases(_gen(ctx, "cases", 3, 2, ["filtered", "modsince", "crsince", "infolder"], "rest"),
                               faults, 20000, rng, "r")
    else:
        walk, n1 = _walk_cases(_gen(ctx, "cases", 3, 2, ["all"], "all"), faults, 3000, rng, "a")
        rest, n2 = _walk_cases(_gen(ctx, "cases", 2, 2, ["filtered", "modsince", "crsince", "infolder"], "rest"),
                               faults, 3000, rng, "r")
    n_enum = n1 + n2
    cases = walk + rest
    exhaustive = len(cases) == n_enum
    big = _random_cases(ctx.seed, 400 if thorough else 100)
    repo = _repo_test_cases()
    ctx.log(f"TLC enumerated {n_enum} walk cases (replaying {len(cases)}), {len(fcases)} filter cases; "
            f"+{len(big)} random larger libraries, +{len(repo)} repo-test scenarios")

    lap("cases enumerated")
    # ---- 3. drive the real client (worker processes import the library from $SP2T_REPO)
    all_cases = cases + big + repo
    t0 = time.time()
    traces, mev = _run_workers(ctx, all_cases, filters, fcases, nproc=12)
    by_id = {t["id"]: t for t in traces}
    traces = [by_id[str(c["id"])] for c in all_cases]
    ctx.log(f"replayed {len(traces)} cases + {len(mev)} matches() calls in {time.time() - t0:.1f}s")
    hdr0 = {"srv": {"n": 0, "parent": [], "kind": [], "name": [], "cr": [], "mo": [], "P": 1, "tail": False, "lead": False},
            "job": {"call": "all", "targets": [], "flt": filters[0], "since": 0, "exts": []},
            "fault": {"at": -1, "kind": "none", "code": 0}}
    mtraces = [{"id": f"match:{k}", "hdr": hdr0, "ev": mev[k:k + 300]} for k in range(0, len(mev), 300)]

    # ---- 4. TLC validates: strict pass, then property-level pass for the rejected
    everything = traces + mtraces
    flags, di, st, wall = _batch(_trace_cfg(True), everything, ctx)
    ev.tlc_counts("GraphTrace strict: recorded traces vs walker/server model", di, st, wall)
    rejected = [i for i, a in enumerate(flags) if not a]
    lap(f"strict validation done: {len(rejected)} of {len(everything)} traces rejected")
    n_ok = len(everything) - len(rejected)
    drift, bad = [], []
    if rejected:
        sub = [everything[i] for i in rejected]
        lflags, di2, st2, wall2 = _batch(_trace_cfg(False), sub, ctx, min_chunk=10)
        ev.tlc_counts("GraphTrace property level: traces rejected by the strict pass", di2, st2, wall2)
        for i, a in zip(rejected, lflags):
            (drift if a else bad).append(i)
    for i in range(len(everything)):
        if flags[i]:
            t = everything[i]
            v.ok(len(t["ev"]) if t["id"].startswith("match:") else 1)
    if drift:
        ctx.log(f"NOTE model drift: {len(drift)} trace(s) deviate from Graph.tla's walker algorithm but satisfy the property "
                f"(e.g. {everything[drift[0]]['id']}); Graph.tla needs an update, no violation")
        v.ok(len(drift))
    # ---- 5. verdicts: one VIOLATION per signature (call, fault kind, faulted request, outcomes), with a count
    groups = {}
    for i in bad:
        t = everything[i]
        if t["id"].startswith("match:"):
            key = ("match",)
        else:
            f = t["hdr"]["fault"]
            hitk = next((t["ev"][k - 1]["k"] for k, e in enumerate(t["ev"]) if e.get("inj") and k and t["ev"][k - 1]["a"] == "Req"), "-")
            outs = tuple((e["a"], e.get("_pycls", ""), e.get("status", 0)) for e in t["ev"] if e["a"] in ("Raise", "Return"))
            key = (re.match(r"[a-z\-]*", t["id"]).group(0), t["hdr"]["job"]["call"], f["kind"], f["code"], hitk, outs)
        groups.setdefault(key, []).append(i)
    reps = [ix[0] for _, ix in sorted(groups.items(), key=lambda kv: (-len(kv[1]), repr(kv[0])))]
    detail = reps[:24]
    reach = {}
    if detail:              # first event the specification cannot follow, for one representative per signature
        sub = [_for_tlc(everything[i]) for i in detail]
        brs = validate("GraphTrace", _trace_cfg(True), sub, scratch=ctx.scratch, parallel=12, min_chunk=1)
        brl = validate("GraphTrace", _trace_cfg(False), sub, scratch=ctx.scratch, parallel=12, min_chunk=1)
        reach = {i: (a.reached, b.reached) for i, a, b in zip(detail, brs.verdicts, brl.verdicts)}
    for key, ix in sorted(groups.items(), key=lambda kv: (-len(kv[1]), repr(kv[0]))):
        i = ix[0]
        t = everything[i]
        rs, rl = reach.get(i, (None, None))
        if i in reach and rs == 0 and rl == 0 and key != ("match",):        # even the Call event was refused
            raise MachineryError(f"trace header rejected by GraphTrace!TraceInit (harness bug): {t['id']} {json.dumps(t['hdr'])[:400]}")
        more = f" [{len(ix)} cases with this signature, e.g. {', '.join(everything[j]['id'] for j in ix[:4])}]"
        if key == ("match",):
            e = t["ev"][rl] if rl is not None and rl < len(t["ev"]) else None
            v.violation(what="FileFilter.matches differs from GraphFilter!Verdict: "
                             + (f"filter={_show_filter(e['F'])} file={uncodes(e['file']['name'])!r} in "
                                f"{[uncodes(x) for x in e['file']['pp']]} created={e['_cr']} modified={e['_mo']} -> {e['obs']}"
                                if e else "(one of 300 cases in this batch)") + f" [{len(ix)} batches of 300 rejected]",
                        case=e, where="client.py:FileFilter.matches/_parse_iso_datetime")
            continue
        job, fault = t["hdr"]["job"], t["hdr"]["fault"]
        what = (f"{job['call']} on library {t['id']} (n={t['hdr']['srv']['n']}, P={t['hdr']['srv']['P']}, "
                f"targets={t.get('info', {}).get('targets')}, fault={fault['kind']}@{fault['at']}"
                f"{'/' + str(fault['code']) if fault['code'] else ''}): ")
        if rl is not None and rl < len(t["ev"]):
            what += f"event #{rl} {_show_event(t['ev'][rl])} violates the property-level specification"
            if rs is not None and rs < len(t["ev"]) and rs != rl:
                what += f"; first departure from the walker model at event #{rs} {_show_event(t['ev'][rs])}"
        else:
            what += "trace rejected by GraphTrace (strict and property level)"
        tail = [x for x in t["ev"] if x["a"] in ("Raise", "Return")]
        v.violation(what=what + more, case={"id": t["id"], "hdr": t["hdr"], "info": t.get("info"),
                                            "events": [_show_event(x) for x in t["ev"]][:80], "same_signature": len(ix)},
                    observed=[_show_event(x) for x in tail],
                    expected="complete exact listing / client-family error with status+url, all responses closed, retry complete",
                    where="sharepoint_io/client.py")
    ev.replayed(len(traces) + len(mev))
    for t in traces:
        res = [x for x in t["ev"] if x["a"] == "Return" and x["res"]]
        f = t["hdr"]["fault"]
        if res or f["at"] >= 0:
            s = t["hdr"]["srv"]
            ev.nontrivial((t["hdr"]["job"]["call"], tuple(s["parent"]), tuple(s["kind"]), s["P"], s["tail"], s["lead"],
                           f["at"], f["kind"], f["code"], len(t["hdr"]["job"]["targets"])))
    for t in (traces[0], traces[len(cases) // 2], traces[len(cases)], traces[-1]):
        ev.sample({"id": t["id"], "call": t["hdr"]["job"]["call"], "n": t["hdr"]["srv"]["n"], "P": t["hdr"]["srv"]["P"],
                   "names": t["info"]["names"][:6], "fault": t["hdr"]["fault"],
                   "requests": [f"{e['k']}:{e['f']}:{e['p']}" for e in t["ev"] if e["a"] == "Req"][:14],
                   "outcomes": [_show_event(e) for e in t["ev"] if e["a"] in ("Return", "Raise")]})
    if mev:
        e = mev[len(mev) // 3]
        ev.sample({"match": _show_filter(e["F"]), "file": uncodes(e["file"]["name"]), "created": e["_cr"], "modified": e["_mo"], "obs": e["obs"]})
    ev.set(rule="cases enumerated by TLC (GraphGen: library x call x fault position < NReq x kind; filter lattice), concretised "
                "(names, dates, drive id, site URL, optional fields by VERIF_SEED) into a fake Graph transport; non-trivial = "
                "distinct (call, tree, page size, fault) whose listing is non-empty or that carries a fault",
           exhaustive=exhaustive,
           constants={"MC": {"MaxNodes": mc_n, "MaxP": mc_p}, "enumerated_walk_cases": n_enum, "replayed_walk_cases": len(cases),
                      "filter_cases": len(fcases), "random_libraries": len(big), "repo_test_scenarios": len(repo),
                      "strict_accepted": n_ok, "model_drift": len(drift), "rejected": len(bad)})
    ev.assume("the fake transport is the only model of Microsoft Graph: URL forms, $skiptoken nextLinks and 404 answers are "
              "those of Graph!HealthyAnswer (validated event by event by TLC), not of the real service",
              "list_files_in_folder encodes '/' of nested paths as %2F; the fake server unquotes it like any other character",
              "parent_path of list_files_in_folder results, overlapping folder targets, sub-second timestamps, naive datetimes "
              "and glob details beyond '*'/'?' are DON'T-CAREs (Graph.tla / GraphFilter.tla headers)",
              "an HTTPError's own body stream is owned by the exception and not counted as an opened response")


def _replay(ctx):
    """./check C18 --replay replays/C18/<hash>.json : re-run exactly that case (same VERIF_SEED as recorded)."""
    doc = json.loads(Path(ctx.replay).read_text())
    info = ((doc.get("case") or {}).get("info") or {})
    if "case" not in info:
        raise MachineryError("replay file carries no listing case (FileFilter.matches violations are replayed by a normal run)")
    case = dict(info["case"], idx=info.get("idx", 0))
    seed = doc.get("seed", ctx.seed)
    filters = [case["job"]["flt"]] if case["job"].get("flt") else []
    if not filters:        # the filter was a seed-dependent choice from TLC's lattice: enumerate it again
        fstates = _gen(ctx, "filter", 0, 1, ["all"], "filter")
        filters = [json.loads(x) for x in sorted({json.dumps(j["F"], sort_keys=True) for _, j, _ in fstates})]
    inp, out = ctx.scratch / "replay.in.json", ctx.scratch / "replay.out.json"
    inp.write_text(json.dumps({"seed": seed, "filters": filters, "cases": [case], "match": None}))
    p = subprocess.run([PY, "-m", "mbv.props.c18", "worker", str(inp), str(out)], env=child_env(), cwd=str(VERIF),
                       capture_output=True, text=True)
    if p.returncode != 0:
        raise MachineryError("C18 worker failed:\n" + p.stderr[-3000:])
    t = json.loads(out.read_text())["traces"][0]
    bs = validate("GraphTrace", _trace_cfg(True), [_for_tlc(t)], scratch=ctx.scratch, parallel=1, min_chunk=1)
    bl = validate("GraphTrace", _trace_cfg(False), [_for_tlc(t)], scratch=ctx.scratch, parallel=1, min_chunk=1)
    ctx.ev.tlc_counts("GraphTrace: replayed case (strict + property level)", bs.distinct + bl.distinct, bs.states + bl.states)
    ctx.ev.replayed(1)
    ctx.ev.sample({"id": t["id"], "events": [_show_event(e) for e in t["ev"]][:60]})
    vs, vl = bs.verdicts[0], bl.verdicts[0]
    for k, e in enumerate(t["ev"]):
        ctx.log(f"{k:3d} {_show_event(e)}" + ("   <-- walker model stops here" if not vs.accepted and k == vs.reached else "")
                + ("   <-- property-level specification stops here" if not vl.accepted and k == vl.reached else ""))
    if vl.accepted:
        ctx.v.ok(1)
        if not vs.accepted:
            ctx.log("NOTE model drift: strict pass rejects, property level accepts")
    else:
        e = t["ev"][vl.reached] if vl.reached < len(t["ev"]) else {}
        ctx.v.violation(what=f"replayed case {t['id']}: event #{vl.reached} {_show_event(e) if e else ''} violates the "
                             "property-level specification", case={"id": t["id"], "hdr": t["hdr"], "info": t["info"]},
                        observed=[_show_event(x) for x in t["ev"] if x["a"] in ("Raise", "Return")], where="sharepoint_io/client.py")


def _show_filter(F):
    parts = []
    for k in ("ca", "cb", "ma", "mb"):
        if F[k]["set"]:
            parts.append(f"{k}={F[k]['v']}")
    if F["exts"]:
        parts.append("exts=" + repr([uncodes(e) for e in F["exts"]]))
    if F["pats"]:
        parts.append("pats=" + repr([uncodes(e) for e in F["pats"]]))
    return "{" + ", ".join(parts) + "}"


def _show_event(e):
    a = e["a"]
    if a == "Req":
        flags = "".join(f" !{k}" for k in ("auth", "site", "drive") if not e[k])
        path = "/".join(uncodes(x) for x in e["path"])
        return f"Req {e['k']} f={e['f']} p={e['p']}{(' path=' + repr(path)) if path else ''}{flags}"
    if a == "Raise":
        return f"Raise {e['_pycls']}({e['cls']}) status={e['status']} url_ok={e['url_ok']} {e.get('_msg', '')!r}"
    if a == "Return":
        return "Return " + repr([(x["id"], "/".join(uncodes(y) for y in x["pp"])) for x in e["res"]][:12])
    if a == "Resp":
        return f"Resp #{e['r']} status={e['status']} body={e['body']} items={e['items']} next={e['next']} inj={e['inj']}"
    if a == "Fault":
        return f"Fault {e['kind']} {e['code']} inj={e['inj']}"
    return json.dumps(e)[:200]


if __name__ == "__main__":
    if sys.argv[1] == "worker":
        _worker(sys.argv[2], sys.argv[3])
