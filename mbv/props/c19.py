"""C19 -- OMML -> LaTeX conversion is total, order-preserving and balanced.
Spec: specs/Omml.tla (+ OmmlGen, OmmlTrace).

1. TLC (OmmlGen!SpecEnum, five universe parts in parallel) proves on every tree of the bounded
   universe that the transcribed process_element (reference design, Deviations = {}) is total,
   matches the documented pattern and is brace-balanced; sensitivity runs with each as-built
   deviation must fail.  The trees are dumped.
2. spec -> code: every dumped tree is serialised to OMML XML (property elements interleaved, run text as
   m:t or -- a seeded third of the runs, all runs of some trees -- as w:t, seeded),
   converted twice by the real omml_to_latex, and embedded in generated DOCX paragraphs / PPTX
   shapes read by read_docx / read_pptx.  The output strings are tokenised into atoms.
3. code -> spec: one trace per tree (Total, Shape, Balance, Again, Docx, Pptx) is validated by TLC
   against OmmlTrace: TLC decides totality, order, multiplicity, templates, balance, channel
   agreement.  Also: the formulas of the repo's own test_omml_to_latex.py (recorded by wrapping the
   functions in the test module, re-parsed into trees), a symbol-table family, and (thorough)
   random deeper trees from `tlc -simulate` on OmmlGen!SpecBuild.
"""
from __future__ import annotations

import hashlib
import io
import json
import random
import re
import subprocess
import sys
import threading
import time
import zipfile
from concurrent.futures import ThreadPoolExecutor
from pathlib import Path
from xml.sax.saxutils import escape, quoteattr

from .. import PY, SPECS, VERIF
from ..repo import child_env
from ..tlaval import FD, iter_dump, parse_simulate_file
from ..tlc import MachineryError, run_tlc

PARTS_QUICK = [["wideN"], ["deep2"], ["pairs"], ["deep1", "deep3"], ["wideO", "symbols", "triples", "blanks"]]
PARTS_THOROUGH = [["wideN"], ["pairs"], ["deep2"], ["deep1"], ["deep3"], ["wideO"], ["triples"], ["symbols", "blanks"]]
CLAUSE_WHAT = {
    "Total": "conversion raised an exception (not total)",
    "Shape": "output does not match the documented form: a run is lost / duplicated / out of order, a "
             "template is wrong, or text appears that is in no run",
    "Balance": "braces are not balanced (tree has no literal braces)",
    "Again": "two conversions of the same formula differ (not deterministic)",
    "Alternate": "converting the same element object again (directly / after another tree) gives a different result",
    "History": "after editing the element object in place the result is not that of the edited tree "
               "(differs from a freshly parsed copy / from the documented form): depends on call history",
    "Docx": "read_docx does not print the formula as omml_to_latex renders it (or the document failed)",
    "Pptx": "read_pptx does not report the formula as omml_to_latex renders it (or the document failed)",
}
SENSITIVITY = [  # deviation, universe part, invariant that must fail
    ("NoneAttrIterated", "wideN", "Inv_Total"),
    ("OverwritePendingSqrt", "pairs", "Inv_Balance"),
    ("NoneDelimiterPrinted", "wideO", "Inv_Shape"),
    ("RadContentBeforeDeg", "deep2", "Inv_Balance"),
    ("DescendantPropLookup", "deep2", "Inv_Shape"),
]

M_NS = "http://schemas.openxmlformats.org/officeDocument/2006/math"
W_NS = "http://schemas.openxmlformats.org/wordprocessingml/2006/main"
A_NS = "http://schemas.openxmlformats.org/drawingml/2006/main"
P_NS = "http://schemas.openxmlformats.org/presentationml/2006/main"
R_NS = "http://schemas.openxmlformats.org/officeDocument/2006/relationships"
A14_NS = "http://schemas.microsoft.com/office/drawing/2010/main"
PKG_REL = "http://schemas.openxmlformats.org/package/2006/relationships"
CT = "http://schemas.openxmlformats.org/package/2006/content-types"


# ------------------------------------------------------------------ abstract tree <-> JSON / XML
def plain(v):
    """tlaval value -> JSON-able (tuple -> list, FD -> dict)."""
    if isinstance(v, (tuple, list)):
        return [plain(x) for x in v]
    if isinstance(v, dict):
        return {k: plain(x) for k, x in v.items()}
    return v


def atom_char(a: str) -> str:
    return chr(int(a[2:], 16)) if a.startswith("U+") else a


def char_atom(c: str) -> str:
    if c.isspace():
        return " "
    return c if ord(c) < 128 else "U+%04X" % ord(c)


ROLE_FIELDS = {"f": [("num", "num"), ("den", "den")], "sSup": [("e", "e"), ("sup", "sup")],
               "sSub": [("e", "e"), ("sub", "sub")], "sSubSup": [("e", "e"), ("sub", "sub"), ("sup", "sup")],
               "rad": [("deg", "deg"), ("e", "e")], "nary": [("sub", "sub"), ("sup", "sup"), ("e", "e")],
               "func": [("fName", "fName"), ("e", "e")], "bar": [("e", "e")], "acc": [("e", "e")]}
CTRL = '<m:ctrlPr><w:rPr><w:rFonts w:ascii="Cambria Math" w:hAnsi="Cambria Math"/><w:i/><w:color w:val="FF0000"/><w:sz w:val="24"/></w:rPr></m:ctrlPr>'
PR_EXTRA = {"f": ['<m:type m:val="bar"/>', ""], "rad": ['<m:degHide m:val="1"/>', ""],
            "nary": ['<m:limLoc m:val="undOvr"/>', '<m:subHide m:val="1"/>', ""], "d": ["", '<m:sepChr m:val="|"/>'],
            "m": ['<m:mcs><m:mc><m:mcPr><m:count m:val="2"/><m:mcJc m:val="center"/></m:mcPr></m:mc></m:mcs>', ""],
            "acc": [""], "bar": ['<m:pos m:val="top"/>', ""], "func": [""], "sSup": [""], "sSub": [""],
            "sSubSup": ['<m:alnScr m:val="1"/>', ""]}
UNKNOWN = ["box", "borderBox", "phant"]


def _attr_xml(name, a):
    if a["st"] == "noel":
        return ""
    if a["st"] == "noval":
        return f"<m:{name}/>"
    return f"<m:{name} m:val={quoteattr(atom_char(a['v']) if a['v'] else '')}/>"


def content_xml(nodes, rng):
    return "".join(node_xml(n, rng) for n in nodes)


def node_xml(n, rng):
    k = n["k"]
    if k == "r":
        text = "".join(atom_char(a) for a in n["t"])
        # CT_R of the math schema: the text of a math run is m:t or a WordprocessingML w:t (what Word
        # writes for normal-text runs with w:rPr).  Every third run, and every run of some trees.
        if getattr(rng, "all_wt", False) or rng.random() < 1 / 3:
            mpr = rng.choice(["", '<m:rPr><m:nor/></m:rPr>'])
            wpr = rng.choice(["<w:rPr/>", '<w:rPr><w:rFonts w:ascii="Cambria Math"/><w:i w:val="0"/></w:rPr>'])
            if not text and rng.random() < 0.3:
                return f"<m:r>{mpr}{wpr}<w:t/></m:r>"
            return f'<m:r>{mpr}{wpr}<w:t xml:space="preserve">{escape(text)}</w:t></m:r>'
        pr = rng.choice(["", "", '<m:rPr><m:sty m:val="p"/></m:rPr>',
                         '<w:rPr><w:rFonts w:ascii="Cambria Math"/><w:i/></w:rPr>',
                         '<a:rPr lang="en-US" i="1"><a:latin typeface="Cambria Math"/></a:rPr>'])
        if not text and rng.random() < 0.3:
            return f"<m:r>{pr}<m:t/></m:r>"
        return f'<m:r>{pr}<m:t xml:space="preserve">{escape(text)}</m:t></m:r>'
    if k == "box":
        tag = rng.choice(UNKNOWN)
        pr = rng.choice(["", f"<m:{tag}Pr>{CTRL}</m:{tag}Pr>"])
        return f"<m:{tag}>{pr}<m:e>{content_xml(n['kids'], rng)}</m:e></m:{tag}>"
    attrs = ""
    if k in ("nary", "acc"):
        attrs = _attr_xml("chr", n["chr"])
    elif k == "d":
        attrs = _attr_xml("begChr", n["beg"]) + _attr_xml("endChr", n["end"])
    extra = rng.choice(PR_EXTRA.get(k, [""]))
    ctrl = rng.choice(["", CTRL])
    if attrs or extra or ctrl or rng.random() < 0.3:
        pr = f"<m:{k}Pr>{attrs}{extra}{ctrl}</m:{k}Pr>"
    else:
        pr = ""
    if k == "d":
        body = "".join(f"<m:e>{content_xml(c, rng)}</m:e>" for c in n["es"])
    elif k == "m":
        body = "".join("<m:mr>" + "".join(f"<m:e>{content_xml(c, rng)}</m:e>" for c in row) + "</m:mr>"
                       for row in n["rows"])
    else:
        body = ""
        for field, role in ROLE_FIELDS[k]:
            for c in n[field]:
                body += f"<m:{role}>{content_xml(c, rng)}</m:{role}>" if c or rng.random() < 0.6 else f"<m:{role}/>"
    return f"<m:{k}>{pr}{body}</m:{k}>"


def kids_of(n):
    """contents below a node in document order (mirror of Omml!Kids)."""
    k = n["k"]
    if k == "r":
        return []
    if k == "box":
        return [n["kids"]]
    if k == "d":
        return list(n["es"])
    if k == "m":
        return [c for row in n["rows"] for c in row]
    return [c for f, _ in ROLE_FIELDS[k] for c in n[f]]


def first_run(nodes):
    for n in nodes:
        if n["k"] == "r":
            return n
        for c in kids_of(n):
            r = first_run(c)
            if r is not None:
                return r
    return None


def tree_xml(tree, rng):
    rng.all_wt = rng.random() < 0.15        # some trees: every run carries w:t
    return content_xml(tree, rng)


SKIP = {"rPr", "fPr", "radPr", "ctrlPr", "oMathParaPr", "degHide", "type", "rFonts", "i", "color", "sz", "szCs",
        "jc", "solidFill", "srgbClr", "latin"}


class Unsupported(Exception):
    pass


def _local(tag):
    return tag.split("}")[-1]


def _text_atoms(s):
    if "\\" in s or "$" in s or "#" in s:
        raise Unsupported("text char")
    return [char_atom(c) for c in s]


def _attr_of(pr, name):
    if pr is None:
        return {"st": "noel", "v": ""}
    els = [c for c in pr if _local(c.tag) == name]
    if not els:
        return {"st": "noel", "v": ""}
    if len(els) > 1:
        raise Unsupported("dup attr")
    v = els[0].get("{%s}val" % M_NS)
    if v is None:
        return {"st": "noval", "v": ""}
    if len(v) > 1:
        raise Unsupported("multi-char val")
    return {"st": "val", "v": char_atom(v) if v else ""}


def xml_to_content(elem):
    """children of a role element / m:oMath -> content (list of nodes) in the Omml.tla vocabulary."""
    if (elem.text or "").strip():
        raise Unsupported("stray text")
    out = []
    for ch in elem:
        if (ch.tail or "").strip():
            raise Unsupported("stray text")
        tag = _local(ch.tag)
        if tag in SKIP or tag.endswith("Pr"):
            continue
        out.append(xml_to_node(ch))
    return out


def xml_to_node(el):
    tag = _local(el.tag)
    kids = list(el)
    names = [_local(c.tag) for c in kids]
    if tag == "r":
        text = ""
        for c in kids:
            n = _local(c.tag)
            if n == "t":
                text += c.text or ""
                if len(c):
                    raise Unsupported("t children")
            elif n in SKIP or n.endswith("Pr"):
                continue
            else:
                raise Unsupported("run child " + n)
        return {"k": "r", "t": _text_atoms(text)}
    if tag in ROLE_FIELDS:
        roles = {r for _, r in ROLE_FIELDS[tag]}
        pr = None
        node = {"k": tag}
        for f, r in ROLE_FIELDS[tag]:
            node[f] = []
        for c in kids:
            n = _local(c.tag)
            if n == tag + "Pr":
                pr = c
            elif n in roles:
                node[[f for f, r in ROLE_FIELDS[tag] if r == n][0]].append(xml_to_content(c))
            elif n in SKIP:
                continue
            else:
                raise Unsupported(f"{tag} child {n}")
        # schema order of role children is assumed by the spec (document order = field order)
        order = [n for n in names if n in roles]
        want = [r for _, r in ROLE_FIELDS[tag] for _ in node[[f for f, rr in ROLE_FIELDS[tag] if rr == r][0]]]
        if order != want:
            raise Unsupported("role order")
        if tag in ("nary", "acc"):
            node["chr"] = _attr_of(pr, "chr")
        return node
    if tag == "d":
        pr = None
        es = []
        for c in kids:
            n = _local(c.tag)
            if n == "dPr":
                pr = c
            elif n == "e":
                es.append(xml_to_content(c))
            elif n in SKIP:
                continue
            else:
                raise Unsupported("d child " + n)
        return {"k": "d", "beg": _attr_of(pr, "begChr"), "end": _attr_of(pr, "endChr"), "es": es}
    if tag == "m":
        rows = []
        for c in kids:
            n = _local(c.tag)
            if n == "mr":
                row = []
                for e in c:
                    if _local(e.tag) != "e":
                        raise Unsupported("mr child")
                    row.append(xml_to_content(e))
                rows.append(row)
            elif n == "mPr" or n in SKIP:
                continue
            else:
                raise Unsupported("m child " + n)
        return {"k": "m", "rows": rows}
    if tag in ("t", "chr", "begChr", "endChr", "oMath", "oMathPara"):
        raise Unsupported(tag)
    # anything else: the converter recurses into the children
    flat = []
    for c in kids:
        n = _local(c.tag)
        if n in SKIP or n.endswith("Pr"):
            continue
        if n in ("e", "lim", "num", "den", "sub", "sup", "deg", "fName"):
            flat.extend(xml_to_content(c))
        else:
            flat.append(xml_to_node(c))
    return {"k": "box", "kids": flat}


# ------------------------------------------------------------------ tokeniser (projection only)
def known_commands():
    """every LaTeX command the specification mentions (read from Omml.tla, single source)."""
    text = (SPECS / "Omml.tla").read_text()
    cmds = set(re.findall(r'"\\\\([A-Za-z]+)', text))
    if len(cmds) < 80:
        raise MachineryError("cannot read the command list from Omml.tla")
    return cmds


_CMD = re.compile(r"\\([A-Za-z]+)")
_SPECIAL = re.compile(r"\\mathbb\{[A-Z]\}|\\begin\{matrix\}|\\end\{matrix\}|\\\\")


def lex(s: str, known) -> list:
    out = []
    i = 0
    n = len(s)
    while i < n:
        c = s[i]
        if c == "\\":
            m = _SPECIAL.match(s, i)
            if m:
                out.append(m.group())
                i = m.end()
                continue
            m = _CMD.match(s, i)
            if m:
                w = m.group(1)
                if w not in known:
                    for j in range(len(w) - 1, 0, -1):      # longest known prefix ("\alphaa" = \alpha a)
                        if w[:j] in known:
                            w = w[:j]
                            break
                out.append("\\" + w)
                i += 1 + len(w)
                continue
            out.append("\\")
            i += 1
            continue
        out.append(char_atom(c))
        i += 1
    return out


# ------------------------------------------------------------------ generated documents
def _omath(xml, disp):
    om = f"<m:oMath>{xml}</m:oMath>"
    return f"<m:oMathPara>{om}</m:oMathPara>" if disp else om


def build_docx(items):
    """items: [(idx, xml, display)] -> bytes of a minimal DOCX, one paragraph per formula."""
    paras = "".join(f"<w:p><w:r><w:t>#{i}#</w:t></w:r>{_omath(x, d)}</w:p>" for i, x, d in items)
    doc = (f'<?xml version="1.0" encoding="UTF-8"?><w:document xmlns:w="{W_NS}" xmlns:m="{M_NS}" xmlns:a="{A_NS}">'
           f"<w:body>{paras}</w:body></w:document>")
    b = io.BytesIO()
    with zipfile.ZipFile(b, "w", zipfile.ZIP_DEFLATED) as z:
        z.writestr("[Content_Types].xml",
                   f'<?xml version="1.0"?><Types xmlns="{CT}"><Default Extension="xml" ContentType="application/xml"/>'
                   '<Default Extension="rels" ContentType="application/vnd.openxmlformats-package.relationships+xml"/>'
                   '<Override PartName="/word/document.xml" ContentType="application/vnd.openxmlformats-'
                   'officedocument.wordprocessingml.document.main+xml"/></Types>')
        z.writestr("_rels/.rels", f'<?xml version="1.0"?><Relationships xmlns="{PKG_REL}"><Relationship Id="rId1" '
                                  f'Type="{R_NS}/officeDocument" Target="word/document.xml"/></Relationships>')
        z.writestr("word/document.xml", doc)
    return b.getvalue()


def build_pptx(items):
    """one slide per formula; the formula sits in a text box shape (a14:m).  PowerPoint writes the
    text of a math run as m:t only (run properties as a:rPr), so w:t runs are written as m:t here."""
    items = [(i, x.replace("<w:t", "<m:t").replace("</w:t>", "</m:t>"), d) for i, x, d in items]
    b = io.BytesIO()
    n = len(items)
    with zipfile.ZipFile(b, "w", zipfile.ZIP_DEFLATED) as z:
        z.writestr("[Content_Types].xml",
                   f'<?xml version="1.0"?><Types xmlns="{CT}"><Default Extension="xml" ContentType="application/xml"/>'
                   '<Default Extension="rels" ContentType="application/vnd.openxmlformats-package.relationships+xml"/>'
                   "</Types>")
        z.writestr("_rels/.rels", f'<?xml version="1.0"?><Relationships xmlns="{PKG_REL}"><Relationship Id="rId1" '
                                  f'Type="{R_NS}/officeDocument" Target="ppt/presentation.xml"/></Relationships>')
        ids = "".join(f'<p:sldId id="{256 + i}" r:id="rId{i + 1}"/>' for i in range(n))
        z.writestr("ppt/presentation.xml", f'<?xml version="1.0"?><p:presentation xmlns:p="{P_NS}" xmlns:r="{R_NS}">'
                                           f"<p:sldIdLst>{ids}</p:sldIdLst></p:presentation>")
        z.writestr("ppt/_rels/presentation.xml.rels",
                   f'<?xml version="1.0"?><Relationships xmlns="{PKG_REL}">' + "".join(
                       f'<Relationship Id="rId{i + 1}" Type="{R_NS}/slide" Target="slides/slide{i + 1}.xml"/>'
                       for i in range(n)) + "</Relationships>")
        for k, (i, x, d) in enumerate(items):
            z.writestr(f"ppt/slides/slide{k + 1}.xml",
                       f'<?xml version="1.0"?><p:sld xmlns:p="{P_NS}" xmlns:a="{A_NS}" xmlns:m="{M_NS}" '
                       f'xmlns:w="{W_NS}" xmlns:a14="{A14_NS}"><p:cSld><p:spTree><p:nvGrpSpPr><p:cNvPr id="1" name=""/>'
                       "<p:cNvGrpSpPr/><p:nvPr/></p:nvGrpSpPr><p:grpSpPr/><p:sp><p:nvSpPr>"
                       '<p:cNvPr id="2" name="T"/><p:cNvSpPr txBox="1"/><p:nvPr/></p:nvSpPr><p:spPr/><p:txBody>'
                       f"<a:bodyPr/><a:p><a:r><a:t>#{i}#</a:t></a:r><a14:m>{_omath(x, d)}</a14:m></a:p>"
                       "</p:txBody></p:sp></p:spTree></p:cSld></p:sld>")
    return b.getvalue()


_PARA = re.compile(r"^#(\d+)#(.*)$")


def _strip_dollars(rest):
    if rest.startswith("$$") and rest.endswith("$$") and len(rest) >= 4:
        return rest[2:-2]
    if rest.startswith("$") and rest.endswith("$") and len(rest) >= 2:
        return rest[1:-1]
    return None


# ------------------------------------------------------------------ worker (imports the library)
def _worker(inp, out):
    from xml.etree import ElementTree as ET

    from sharepoint2text.parsing.extractors.ms_modern.docx_extractor import read_docx
    from sharepoint2text.parsing.extractors.ms_modern.pptx_extractor import read_pptx
    from sharepoint2text.parsing.extractors.util import omml_to_latex as mod

    job = json.loads(Path(inp).read_text())
    known = set(job["known"])
    rng = random.Random(job["seed"])
    conv = mod.omml_to_latex
    head = f'<m:oMath xmlns:m="{M_NS}" xmlns:w="{W_NS}" xmlns:a="{A_NS}">'
    cases = []
    prev_el = None
    for idx, c in enumerate(job["cases"]):
        xml = c.get("xml")
        if xml is None:
            xml = tree_xml(c["tree"], rng)
        rec = {"id": c["id"], "tree": c["tree"], "xml": xml, "disp": rng.random() < 0.5, "idx": idx}
        for key in ("out", "out2"):
            try:
                s = conv(ET.fromstring(head + xml + "</m:oMath>"))
                if not isinstance(s, str):
                    rec[key] = {"x": True, "o": [], "s": "returned " + type(s).__name__}
                else:
                    rec[key] = {"x": False, "o": lex(s, known), "s": s}
            except Exception as e:  # the observation
                rec[key] = {"x": True, "o": [], "s": "%s: %s" % (type(e).__name__, e)}
        # ---- call histories on ONE element object: A, A, B (previous tree's object), A, then an
        #      in-place edit and the same object again vs a freshly parsed copy of its serialisation
        def safe(el):
            try:
                r = conv(el)
                return {"x": False, "o": lex(r, known), "s": r} if isinstance(r, str) else {"x": True, "o": [], "s": "?"}
            except Exception as e:
                return {"x": True, "o": [], "s": "%s: %s" % (type(e).__name__, e)}
        el = ET.fromstring(head + xml + "</m:oMath>")
        safe(el)
        rec["same"] = safe(el)
        if prev_el is not None:
            safe(prev_el)
        rec["alt"] = safe(el)
        tree2 = json.loads(json.dumps(c["tree"]))
        kinds = ["append"]
        if c.get("xml") is None:            # positions in the XML are known only for our own serialisation
            if tree2:
                kinds.append("remove")
            if first_run(tree2) is not None:
                kinds.append("text")
        kind = rng.choice(kinds)
        if kind == "append":
            tree2.append({"k": "r", "t": ["z"]})
            r_el = ET.SubElement(el, "{%s}r" % M_NS)
            ET.SubElement(r_el, "{%s}t" % M_NS).text = "z"
        elif kind == "remove":
            tree2.pop()
            el.remove(list(el)[-1])
        else:
            first_run(tree2)["t"] = ["q"]
            next(x for x in el.iter() if x.tag.endswith("}t")).text = "q"
        rec["tree2"] = tree2
        rec["edit"] = kind
        rec["hist"] = safe(el)
        rec["fresh"] = safe(ET.fromstring(ET.tostring(el, encoding="unicode")))
        prev_el = el
        cases.append(rec)

    def docx_obs(items):
        """-> {idx: channel} or None when the document failed."""
        try:
            res = list(read_docx(io.BytesIO(build_docx(items)), "f.docx"))
            doc = res[0]
            got = {}
            for line in doc.full_text.split("\n"):
                m = _PARA.match(line)
                if m:
                    rest = m.group(2)
                    if rest == "":
                        got[int(m.group(1))] = {"st": "absent", "o": []}
                    else:
                        inner = _strip_dollars(rest)
                        got[int(m.group(1))] = {"st": "ok", "o": lex(inner if inner is not None else "?" + rest, known)}
            listed = sorted(f.latex for f in doc.formulas)
            shown = sorted(_strip_dollars(m.group(2)) or "" for m in map(_PARA.match, doc.full_text.split("\n"))
                           if m and m.group(2))
            if listed != shown:      # DocxContent.formulas must list exactly the printed formulas
                return {i: {"st": "ok", "o": ["formulas-list-differs"]} for i, _, _ in items}
            return {i: got.get(i, {"st": "ok", "o": ["paragraph-missing"]}) for i, _, _ in items}
        except Exception:
            return None

    def pptx_obs(items):
        try:
            res = list(read_pptx(io.BytesIO(build_pptx(items)), "f.pptx"))
            slides = res[0].slides
            if len(slides) != len(items):
                return {i: {"st": "ok", "o": ["slide-count"]} for i, _, _ in items}
            got = {}
            for (i, _, _), sl in zip(items, slides):
                fs = sl.formulas
                if not fs:
                    got[i] = {"st": "absent", "o": []}
                elif len(fs) == 1 and ("$" + fs[0].latex + "$") in sl.text:
                    got[i] = {"st": "ok", "o": lex(fs[0].latex, known)}
                else:
                    got[i] = {"st": "ok", "o": ["formula-count-or-text"]}
            return got
        except Exception:
            return None

    def channel(fn, key, batch):
        todo = [(c["idx"], c["xml"], c["disp"]) for c in cases]
        for k in range(0, len(todo), batch):
            items = todo[k:k + batch]
            got = fn(items)
            if got is None:                       # the document failed: find out which formula does it
                got = {}
                for it in items:
                    g1 = fn([it])
                    got[it[0]] = g1[it[0]] if g1 is not None else {"st": "exc", "o": []}
            for i, ch in got.items():
                cases[i][key] = ch

    if job["channels"]:
        channel(docx_obs, "doc", 150)
        channel(pptx_obs, "ppt", 60)
    else:
        for c in cases:
            c["doc"] = c["ppt"] = {"st": "na", "o": []}
    Path(out).write_text(json.dumps(cases))


def _testfile_worker(out):
    """Run the repo's own converter tests with the two functions wrapped by recorders."""
    import importlib
    from xml.etree import ElementTree as ET

    t = importlib.import_module("sharepoint2text.tests.test_omml_to_latex")
    rec = []
    real_conv, real_sym = t.omml_to_latex, t.convert_greek_and_symbols

    def conv(el):
        rec.append(("omml", None if el is None else ET.tostring(el, encoding="unicode")))
        return real_conv(el)

    def sym(text):
        rec.append(("sym", text))
        return real_sym(text)

    t.omml_to_latex, t.convert_greek_and_symbols = conv, sym
    names = [n for n in dir(t) if n.startswith("test_") and callable(getattr(t, n))]
    ran = 0
    for n in sorted(names):
        try:
            getattr(t, n)()
        except Exception:
            pass            # the repo's assertion is not ours
        ran += 1
    Path(out).write_text(json.dumps({"ran": ran, "rec": rec}))


# ------------------------------------------------------------------ trace validation (batch)
_ACC = re.compile(r'<<"ACCEPT", (\d+)>>')
_AT = re.compile(r'<<"AT", (\d+), (\d+)>>')
TRACE_CFG = "SPECIFICATION TraceSpec\nCONSTANTS Deviations = {}\nCONSTRAINT TraceAccept\n"


def validate_traces(traces, scratch, parallel=12, min_chunk=2000, timeout=1500):
    """-> (reached list: len(ev) when accepted else number of events matched, distinct, generated, wall).
    Like mbv.traces.validate, but the rejected traces of a chunk are re-run together (one TLC run
    with MBV_PROGRESS=1), because a broken converter rejects thousands of traces at once."""
    if not traces:
        return [], 0, 0, 0.0
    nch = max(1, min(parallel, len(traces) // min_chunk or 1))
    size = (len(traces) + nch - 1) // nch
    chunks = [list(range(i, min(i + size, len(traces)))) for i in range(0, len(traces), size)]
    reached = [0] * len(traces)
    tot = [0, 0, 0.0]

    def one(ci):
        idxs = chunks[ci]
        f = scratch / f"tr-{ci}-{time.time_ns()}.json"
        f.write_text(json.dumps([traces[i] for i in idxs]))
        r = run_tlc("OmmlTrace", TRACE_CFG, scratch=scratch, workers=1, timeout=timeout, expect_fail=True,
                    env={"TRACE_FILE": str(f), "MBV_PROGRESS": "0"}, heap="3g")
        acc = {int(x) for x in _ACC.findall(r.output)}
        rej = [k for k in range(len(idxs)) if (k + 1) not in acc]
        for k in range(len(idxs)):
            if (k + 1) in acc:
                reached[idxs[k]] = len(traces[idxs[k]]["ev"])
        if rej:
            f2 = scratch / f"tr-{ci}-rej-{time.time_ns()}.json"
            f2.write_text(json.dumps([traces[idxs[k]] for k in rej]))
            r2 = run_tlc("OmmlTrace", TRACE_CFG, scratch=scratch, workers=1, timeout=timeout, expect_fail=True,
                         env={"TRACE_FILE": str(f2), "MBV_PROGRESS": "1"}, heap="3g")
            best = {}
            for a, b in _AT.findall(r2.output):
                best[int(a)] = max(best.get(int(a), 1), int(b))
            for j, k in enumerate(rej, start=1):
                reached[idxs[k]] = min(best.get(j, 1) - 1, len(traces[idxs[k]]["ev"]) - 1)
            f2.unlink(missing_ok=True)
        f.unlink(missing_ok=True)
        return r

    with ThreadPoolExecutor(max_workers=nch) as ex:
        for r in ex.map(one, range(len(chunks))):
            tot[0] += r.distinct
            tot[1] += r.generated
            tot[2] = max(tot[2], r.wall_s)
    return reached, tot[0], tot[1], tot[2]


def slim(o):
    return {"x": o["x"], "o": o["o"]}


def make_trace(c, full=True):
    out = c["out"]
    o = {"x": out["x"], "o": out["o"]}
    o2 = {"x": c["out2"]["x"], "o": c["out2"]["o"]}
    return {"id": c["id"], "hdr": {"tree": c["tree"]},
            "ev": [{"a": "Total", "out": o}, {"a": "Shape", "out": o}, {"a": "Balance", "out": o},
                   {"a": "Again", "out": o, "out2": o2},
                   {"a": "Alternate", "out": o, "same": slim(c["same"]), "alt": slim(c["alt"])},
                   ({"a": "History", "tree2": c["tree2"], "out": slim(c["hist"]), "fresh": slim(c["fresh"])} if full
                    else {"a": "History", "out": slim(c["hist"]), "fresh": slim(c["fresh"])}),
                   {"a": "Docx", "out": o, "doc": c["doc"]},
                   {"a": "Pptx", "out": o, "ppt": c["ppt"]}]}


# ------------------------------------------------------------------ driver
def _enum_cfg(part, profile, devs=(), invs=("Inv_Total", "Inv_Shape", "Inv_Balance")):
    d = "{" + ", ".join(f'"{x}"' for x in devs) + "}"
    ps = "{" + ", ".join(f'"{x}"' for x in part) + "}"
    return (f'SPECIFICATION SpecEnum\nCONSTANTS Deviations = {d}\n Profile = "{profile}"\n Part = {ps}\n'
            " MaxStack = 4\n MaxLen = 3\n" + "".join(f"INVARIANT {i}\n" for i in invs))


def _observe(ctx, cases, known, tag, channels=True, nproc=8):
    """cases: [{"id", "tree"[, "xml"]}] -> observed cases (worker subprocesses importing $SP2T_REPO)."""
    if not cases:
        return []
    nproc = max(1, min(nproc, len(cases) // 500 or 1))
    size = (len(cases) + nproc - 1) // nproc
    procs = []
    for w in range(nproc):
        part = cases[w * size:(w + 1) * size]
        if not part:
            continue
        inp = ctx.scratch / f"job-{tag}-{w}.json"
        out = ctx.scratch / f"obs-{tag}-{w}.json"
        inp.write_text(json.dumps({"cases": part, "seed": ctx.seed * 7919 + w * 104729 + len(tag), "known": sorted(known),
                                   "channels": channels}))
        procs.append((inp, out, subprocess.Popen([PY, "-m", "mbv.props.c19", "worker", str(inp), str(out)],
                                                 env=child_env(), cwd=str(VERIF), stdout=subprocess.PIPE,
                                                 stderr=subprocess.PIPE, text=True)))
    res = []
    for inp, out, p in procs:
        so, se = p.communicate(timeout=1500)
        if p.returncode != 0:
            raise MachineryError(f"c19 worker failed (binding vanished?):\n{se[-2000:]}")
        res.extend(json.loads(out.read_text()))
        inp.unlink(missing_ok=True)
        out.unlink(missing_ok=True)
    return res


def _validate(ctx, observed, parallel):
    """TLC validates the observed cases; -> compact summary (the observations themselves are dropped)."""
    traces = [make_trace(c, full=ctx.thorough or len(observed) < 2000) for c in observed]
    reached, distinct, generated, wall = validate_traces(traces, ctx.scratch, parallel=parallel)
    summ = {"n": len(traces), "distinct": distinct, "generated": generated, "wall": wall, "nontrivial": set(),
            "rejected": [], "counts": {}, "sample": None}
    for c, t, r in zip(observed, traces, reached):
        if any(n["k"] != "r" for n in c["tree"]):
            summ["nontrivial"].add(hashlib.md5(json.dumps(c["tree"], sort_keys=True).encode()).hexdigest()[:16])
        if r == len(t["ev"]):
            continue
        clause = t["ev"][r]["a"]
        summ["counts"][clause] = summ["counts"].get(clause, 0) + 1
        if summ["counts"][clause] <= 6:
            summ["rejected"].append((clause, c))
    if observed:
        c = observed[len(observed) // 2]
        summ["sample"] = {"omml": c["xml"][:300], "latex": c["out"]["s"], "docx": c["doc"]["st"], "pptx": c["ppt"]["st"]}
    return summ


SLICE = 25000


def _replay_validate(ctx, cases, known, tag):
    """observe + validate in slices (memory stays bounded), summaries merged."""
    total = None
    for k in range(0, len(cases), SLICE):
        part = cases[k:k + SLICE]
        obs = _observe(ctx, part, known, f"{tag}-{k}", nproc=2 if not ctx.thorough else 4)
        s1 = _validate(ctx, obs, 1 if not ctx.thorough else 3)
        del obs
        if total is None:
            total = s1
            continue
        for key in ("n", "distinct", "generated", "wall"):
            total[key] += s1[key]
        total["nontrivial"] |= s1["nontrivial"]
        for clause, n in s1["counts"].items():
            have = total["counts"].get(clause, 0)
            total["counts"][clause] = have + n
            total["rejected"] += [x for x in s1["rejected"] if x[0] == clause][:max(0, 6 - have)]
    return total if total is not None else _validate(ctx, [], 1)


def _judge(ctx, summ, label, counts):
    """turn TLC's rejections into violations (at most 6 per clause are written out, all are counted)."""
    ev, v = ctx.ev, ctx.v
    ev.tlc_counts(f"OmmlTrace: {label} ({summ['n']} trees validated)", summ["distinct"], summ["generated"], summ["wall"])
    ev.replayed(summ["n"])
    for k in summ["nontrivial"]:
        ev.nontrivial(k)
    v.ok(summ["n"] - sum(summ["counts"].values()))
    for clause, n in summ["counts"].items():
        counts[clause] = counts.get(clause, 0) + n
    for clause, c in summ["rejected"]:
        v.violation(what=f"{CLAUSE_WHAT[clause]} [{label}; {summ['counts'][clause]} trees of this part]",
                    case={"tree": c["tree"], "omml": c["xml"]},
                    expected=f"clause {clause} of Omml.tla (Total / Pattern / Balanced / channels agree)",
                    observed={"omml_to_latex": c["out"]["s"], "second": c["out2"]["s"],
                              "same_object_again": c["same"]["s"], "after_other_tree": c["alt"]["s"],
                              "edit_in_place": c["edit"], "after_edit": c["hist"]["s"], "fresh_copy_of_edited": c["fresh"]["s"],
                              "docx": c["doc"], "pptx": c["ppt"]},
                    where="omml_to_latex.py:omml_to_latex/process_element" if clause in ("Total", "Shape", "Balance", "Again", "Alternate", "History")
                    else "docx_extractor.py:_process_text_element / pptx_extractor.py:_extract_formulas_from_element")
    return summ["n"]


def run(ctx):
    ev, v = ctx.ev, ctx.v
    profile = "thorough" if ctx.thorough else "quick"
    known = known_commands()
    counts: dict = {}

    if ctx.replay:                      # ./check C19 --replay <file>: exactly that tree / that OMML
        case = json.loads(Path(ctx.replay).read_text())["case"]
        obs = _observe(ctx, [{"id": "replay", "tree": case["tree"], "xml": case["omml"]}], known, "replay", nproc=1)
        summ = _validate(ctx, obs, 1)
        _judge(ctx, summ, "replayed case", counts)
        ev.sample(summ["sample"])
        ev.set(rule="one replayed case", exhaustive=False)
        return

    # ---- 1. per universe part (in parallel): TLC theorem run + dump -> replay -> TLC trace validation;
    #         sensitivity runs alongside
    def enum(parts):
        part = "+".join(parts)
        dump = ctx.scratch / f"omml-{part}.dump"
        r = run_tlc("OmmlGen", _enum_cfg(parts, profile), scratch=ctx.scratch, dump=dump, workers=2, timeout=1700,
                    expect_fail=True, heap="6g")
        if r.violated:
            return part, r, None
        path = dump if dump.exists() else Path(str(dump) + ".dump")
        with stage:                 # bounds the memory: few parts hold their trees / observations at a time
            return enum2(parts, part, path, r)

    def enum2(parts, part, path, r):
        cases = [{"id": "", "tree": plain(s["tree"])} for s in iter_dump(path)]
        cases.sort(key=lambda c: json.dumps(c["tree"], sort_keys=True))
        for k, c in enumerate(cases):
            c["id"] = f"{part}:{k}"
        if len(cases) != r.distinct:
            raise MachineryError(f"dump of {part} has {len(cases)} states, TLC reported {r.distinct}")
        path.unlink(missing_ok=True)
        ctx.log(f"{part}: {len(cases)} trees enumerated by TLC ({r.wall_s:.0f}s)")
        return part, r, _replay_validate(ctx, cases, known, part)

    def sens(item):
        dev, part, inv = item
        r = run_tlc("OmmlGen", _enum_cfg([part], "quick", devs=[dev], invs=[inv]), scratch=ctx.scratch, workers=2,
                    timeout=900, expect_fail=True)
        return item, r

    stage = threading.Semaphore(3 if ctx.thorough else 5)
    sens_items = SENSITIVITY if ctx.thorough else SENSITIVITY[:2]
    parts_list = PARTS_THOROUGH if ctx.thorough else PARTS_QUICK
    pool = ThreadPoolExecutor(max_workers=len(parts_list) + len(sens_items))
    enum_f = [pool.submit(enum, p) for p in parts_list]
    sens_f = [pool.submit(sens, s) for s in sens_items]

    total = 0
    samples = []
    for fut in enum_f:
        part, r, summ = fut.result()
        ev.tlc(f"OmmlGen[{part}]: reference design is total / documented shape / balanced on every tree", r)
        if r.violated:
            v.violation(what=f"OmmlGen[{part}]: {r.violated} violated by the specification's reference design",
                        observed=r.trace[:1])
            continue
        total += _judge(ctx, summ, f"universe part {part}", counts)
        if summ["sample"]:
            samples.append({"part": part, **summ["sample"]})
    for fut in sens_f:
        (dev, part, inv), r = fut.result()
        ev.tlc(f"OmmlGen sensitivity: Deviations={{{dev}}} must violate {inv}", r, note="expected violation")
        if not r.violated:
            raise MachineryError(f"sensitivity run with deviation {dev} did not fail: {inv} is vacuous")
    pool.shutdown()

    # ---- 2. the repo's own converter tests, recorded and re-parsed
    total += _testfile(ctx, known, counts)

    # ---- 3. thorough: random deeper trees by tlc -simulate
    if ctx.thorough:
        total += _simulate(ctx, known, counts)

    for s in samples:
        ev.sample(s)
    for clause, n in sorted(counts.items()):
        ctx.log(f"clause {clause}: {n} trees rejected")
    ev.set(rule="every tree of the TLC-enumerated universe (wideN, wideO, pairs, triples, deep1-3, symbols) serialised to OMML, "
                "converted twice by omml_to_latex and through read_docx / read_pptx, tokenised, validated by TLC "
                "(OmmlTrace); + the repo's own test formulas; thorough: + tlc -simulate trees. non-trivial = "
                "distinct trees with at least one structural element",
           exhaustive=True, constants={"profile": profile, "parts": parts_list, "trees": total})
    ev.assume("symbol table and templates transcribed into Omml.tla from the module docstring / standard LaTeX names",
              "role children are in schema order (document order = field order); stray runs outside role "
              "children are outside the universe",
              "tokenising the output string (lexer, longest known command prefix) is trusted")


def _testfile(ctx, known, counts):
    from xml.etree import ElementTree as ET
    out = ctx.scratch / "testfile.json"
    p = subprocess.run([PY, "-m", "mbv.props.c19", "testfile", str(out)], env=child_env(), cwd=str(VERIF),
                       capture_output=True, text=True, timeout=600)
    if p.returncode != 0:
        raise MachineryError("cannot run the repo's test_omml_to_latex.py under the recorder:\n" + p.stderr[-1500:])
    data = json.loads(out.read_text())
    cases = []
    skipped = 0
    for k, (kind, payload) in enumerate(data["rec"]):
        try:
            if kind == "sym":
                tree = [{"k": "r", "t": _text_atoms(payload)}]
                xml = f'<m:r><m:t xml:space="preserve">{escape(payload)}</m:t></m:r>'
            else:
                if payload is None:
                    continue
                el = ET.fromstring(payload)
                tree = xml_to_content(el)
                xml = "".join(ET.tostring(c, encoding="unicode") for c in el)
        except Unsupported:
            skipped += 1
            continue
        cases.append({"id": f"test:{k}", "tree": tree, "xml": xml})
    if data["ran"] and not cases:
        raise MachineryError("no formula of the repo's converter tests could be re-parsed")
    ctx.log(f"repo tests: {data['ran']} test functions, {len(cases)} recorded formulas re-parsed, {skipped} outside the vocabulary")
    obs = _observe(ctx, cases, known, "tests", nproc=1)
    return _judge(ctx, _validate(ctx, obs, 1), "formulas of sharepoint2text/tests/test_omml_to_latex.py", counts)


def _simulate(ctx, known, counts):
    num = 400           # per TLC worker
    prefix = ctx.scratch / "sim" / "b"
    prefix.parent.mkdir(exist_ok=True)
    cfg = ('SPECIFICATION SpecBuild\nCONSTANTS Deviations = {}\n Profile = "thorough"\n Part = {}\n'
           " MaxStack = 4\n MaxLen = 3\nINVARIANT Inv_BuildClauses\n")
    r = run_tlc("OmmlGen", cfg, scratch=ctx.scratch, simulate=f"file={prefix},num={num}", depth=22, seed=ctx.seed,
                workers=6, timeout=1500, expect_fail=True)
    ctx.ev.tlc("OmmlGen!SpecBuild -simulate: reference design satisfies the clauses on random deeper trees", r)
    if r.violated:
        ctx.v.violation(what=f"OmmlGen!SpecBuild: {r.violated} violated by the reference design", observed=r.trace[-1:])
        return 0
    seen = set()
    cases = []
    for f in sorted(prefix.parent.glob("b*")):
        try:
            states = parse_simulate_file(f)
        except Exception:
            continue
        finally:
            f.unlink(missing_ok=True)
        if not states:
            continue
        for content in plain(states[-1][1]["stk"]):
            key = json.dumps(content, sort_keys=True)
            if content and key not in seen:
                seen.add(key)
                cases.append({"id": f"sim:{len(cases)}", "tree": content})
    if not cases:
        raise MachineryError("tlc -simulate produced no behaviour files")
    ctx.log(f"simulate: {len(cases)} distinct deeper trees")
    obs = None
    del obs
    return _judge(ctx, _replay_validate(ctx, cases, known, "sim"), "tlc -simulate trees", counts)


if __name__ == "__main__":
    if sys.argv[1] == "worker":
        _worker(sys.argv[2], sys.argv[3])
    elif sys.argv[1] == "testfile":
        _testfile_worker(sys.argv[2])
