"""C12 -- extraction cost is bounded by input size; explicit limits hold.
Spec: specs/Limits.tla (+ LimitsGen, LimitsTrace).  Helpers: mbv/c12_worker.py (sandboxed children),
mbv/c12_hostile.py (concretiser of the amplifier cases), mbv/c12_sevenz.py (7z writer / padder).

1. TLC theorem: LimitsGen enumerates every scenario of part (a) (read_file / 7z size guards and member
   limits at limit-1 / limit / limit+1) and every amplifier case of part (b); with Deviations = {} all
   invariants hold.  One sensitivity run per deviation (as-built and mutation-like) must FAIL.
2. spec -> code: every final state of the enumeration is concretised with REAL sizes (sparse files,
   padded valid 7z archives of exactly 100 MiB +- 1, zero-filled members, small hostile documents) and run
   in forked children under RLIMIT_AS / RLIMIT_CPU / RLIMIT_FSIZE with wrappers recording the events.
3. code -> spec: the recorded traces are validated by TLC against LimitsTrace with Deviations = {} (the
   invariants conjoined primed).  A rejected trace is re-validated against the as-built model (deviations of
   the OPEN findings on): accepted there and inside the deviation's domain (`gov`, computed by the spec)
   -> KNOWN-FINDING, anything else -> VIOLATION.
Part (b) is evidence by exploration over the enumerated amplifier families: the specification supplies the
cost model, the classes and the bound; the implementation's cost is measured (tracemalloc peak).
"""
from __future__ import annotations

import base64
import io
import json
import math
import os
import random
import time
import subprocess
import tarfile
import zipfile
from concurrent.futures import ThreadPoolExecutor
from pathlib import Path

from .. import PY, VERIF
from ..repo import child_env
from ..tlaval import iter_dump, to_tla
from ..tlc import MachineryError, run_tlc
from ..traces import validate

MiB = 1024 * 1024
FINDING_OF = {"UncappedNonEmptyRepeat": "KF-C12-01", "ExtractAllIgnoresFilter": "KF-C12-02",
              "UnboundedVectorCount": "KF-C12-03", "UncappedSpaceCount": "KF-C12-04",
              "DenseGridFromSparseCells": "KF-C12-05", "XrefPrevLoop": "KF-C12-07",
              "FromLineNestedQuantifier": "KF-C12-08", "PngScanRestartsInsideImage": "KF-C12-09",
              "CoderSizeFromOtherCoder": "KF-C12-10"}
# (KF-C12-06, 7z LZMA2 output limit, and KF-C12-02, 7z extractall ignoring the member filter, were repaired:
#  proposed_fixes/c12-7z-lzma2-output-limit.diff, c12-7z-extract-only-kept.diff; a finding that is not open absorbs nothing)
# deviation -> the invariant its sensitivity run must violate
SENSITIVITY = {"UncappedNonEmptyRepeat": "Inv_Bounded", "ExtractAllIgnoresFilter": "Inv_SkippedNeverDecompressed",
               "NoOutputLimit": "Inv_Bounded", "UnboundedVectorCount": "Inv_Bounded",
               "UncappedSpaceCount": "Inv_Bounded", "DenseGridFromSparseCells": "Inv_Bounded",
               "XrefPrevLoop": "Inv_Bounded", "FlipCompare": "Inv_Boundary",
               "GuardAfterLoad": "Inv_NoLoadBeforeGuard", "DecompressBeforeCheck": "Inv_SkippedNeverDecompressed",
               "NoEmptyCap": "Inv_Bounded", "PlainXmlParser": "Inv_EntitiesNotExpanded",
               "GuardOnLinkSize": "Inv_Boundary", "FollowLinksUnchecked": "Inv_SkippedNeverDecompressed",
               "ReadByNameLast": "Inv_SkippedNeverDecompressed",
               "EmptyFileTakesSizeSlot": "Inv_SkippedNeverDecompressed", "ConfigureForgetsLimit": "Inv_ConfigMeaning",
               "ImageScanNoProgress": "Inv_Bounded", "FromLineNestedQuantifier": "Inv_Bounded",
               "PngScanRestartsInsideImage": "Inv_Bounded", "DibScanAdvancesByHeader": "Inv_Bounded",
               "FromLineSecondStar": "Inv_Bounded", "CoderSizeFromOtherCoder": "Inv_Bounded",
               "DeclaredZeroMeansUnknown": "Inv_Bounded"}
INVS = ["Inv_NoLoadBeforeGuard", "Inv_Boundary", "Inv_SkippedNeverDecompressed", "Inv_MemberBoundary", "Inv_ConfigMeaning",
        "Inv_Bounded", "Inv_EntitiesNotExpanded", "Inv_Progress"]
MARKERS = {"laughs": ["hahaha"], "quadratic": ["qqqqqqqqqq"], "parameter": ["zzzzzzzzzz"], "external": []}
OTHER_OPTION_VALUES = {"buffer_size": 32768, "max_workers": 2, "enable_parallel": False, "enable_caching": False,
                       "enable_streaming": False}
MAX_HOSTILE = 512 * 1024      # encoded size of any hostile file (most are < 8 KiB; OLE fixtures and header floods up to 460 KiB)


PART_A_DEVS = {"ExtractAllIgnoresFilter", "FlipCompare", "GuardAfterLoad", "DecompressBeforeCheck", "GuardOnLinkSize",
               "FollowLinksUnchecked", "ReadByNameLast", "EmptyFileTakesSizeSlot", "ConfigureForgetsLimit"}


def _gen_cfg(devs, thorough, invs, parts=("a", "b")):
    return ("SPECIFICATION GenSpec\nCONSTANTS\n"
            f" Deviations = {to_tla(set(devs))}\n"
            f" SmallFileLimits = {'{1, 4096}' if thorough else '{4096}'}\n"
            " MemberLimits = {4096, 10485760}\n"
            f" MaxMembers = {3 if thorough else 2}\n BigLim2 = {'TRUE' if thorough else 'FALSE'}\n"
            f" Parts = {to_tla(set(parts))}\n" + "".join(f"INVARIANT {i}\n" for i in invs))


def _dump_states(path):
    p = Path(str(path))
    if not p.exists():
        p = Path(str(path) + ".dump")
    return list(iter_dump(p))


def _key(s):
    """Identity of a scenario (hashable, JSON-able)."""
    return json.dumps({"k": s["k"], "kind": s["kind"], "max": s["max"], "size": s["size"], "via": s["via"], "lim": s["lim"],
                       "lim2": s["lim2"], "calls": [[c["mm"], c["opt"]] for c in s["calls"]],
                       "members": [[m["size"], m["folder"], m["name"], m["type"], m["target"]] for m in s["members"]],
                       "c": s["c"], "mag": s["mag"], "pos": s["pos"]}, sort_keys=True)


def _hdr(s, skib=None, valid=False, lsize=None):
    return {"k": s["k"], "kind": s["kind"], "max": s["max"], "size": s["size"], "via": s["via"],
            "lsize": s["lsize"] if lsize is None else lsize, "lim": s["lim"], "lim2": s["lim2"],
            "calls": [{"mm": c["mm"], "opt": c["opt"]} for c in s["calls"]],
            "members": [{"size": m["size"], "folder": m["folder"], "name": m["name"], "type": m["type"],
                         "target": m["target"]} for m in s["members"]],
            "c": s["c"], "mag": s["mag"], "pos": s["pos"], "skib": s["skib"] if skib is None else skib,
            "valid": bool(valid)}


# ------------------------------------------------------------------------------------ concretisers, part (a)
def _build_limit_scenarios(ctx, scns, wd: Path, rng):
    """-> list of worker scenario records (with 'id' = index into scns)."""
    from .. import c12_archives, c12_sevenz
    out = []
    base7z = c12_sevenz.write_7z([("a.txt", b"hello from a padded archive\n")], method="lzma2")
    cache = {}
    for idx, s in enumerate(scns):
        if s["k"] == "read_file":
            p = wd / f"rf_{idx}.txt"
            big = s["size"] > MiB
            with open(p, "wb") as f:
                if big:
                    f.truncate(s["size"])                  # sparse: no data blocks
                else:
                    f.write(b"a" * s["size"])
            lsize = 0
            for hop in range(s["via"]):                    # a symbolic link to the file / a link to that link
                lp = wd / f"rf_{idx}_link{hop + 1}.txt"
                os.symlink(str(p) if rng.random() < 0.5 else p.name, lp)      # absolute or relative target
                p = lp
                lsize = os.lstat(lp).st_size
            out.append({"sidx": idx, "scn": "read_file", "path": str(p), "max": s["max"], "route": "txt", "stub": big,
                        "lsize": lsize})
            if s["max"] == 100 * MiB:                      # the documented default, not passed at all
                out.append({"sidx": idx, "scn": "read_file", "path": str(p), "max": None, "route": "txt", "stub": big,
                            "lsize": lsize})
        elif s["k"] == "sevenz_size":
            for valid in (True, False):                    # a valid padded archive / signature + zeros
                out.append({"sidx": idx, "scn": "sevenz_size", "size": s["size"], "valid": valid,
                            "archive": base64.b64encode(base7z).decode()})
        elif s["k"] == "members":
            mem = [{"size": m["size"], "name": m["name"], "type": m["type"], "target": m["target"], "folder": m["folder"]}
                   for m in s["members"]]
            sig = tuple((m["size"], m["name"], m["type"], m["target"], m["folder"]) for m in mem)
            small = s["lim"] <= 65536
            if s["kind"] == "zip":
                ext, ck = "zip", ("zip", sig)
                data = cache.get(ck) or c12_archives.build_zip(mem)
            elif s["kind"] == "tar":
                comp = rng.choice(["", "gz", "xz"]) if small else rng.choice(["gz", "xz"])
                ext, ck = ("tar" if not comp else "tar." + comp), ("tar", comp, sig)
                data = cache.get(ck) or c12_archives.build_tar(mem, comp)
            else:
                method = rng.choice(["copy", "lzma", "lzma2"]) if small else rng.choice(["lzma", "lzma2"])
                ext, ck = "7z", ("7z", method, sig)
                data = cache.get(ck) or c12_archives.build_7z(mem, method)
            cache[ck] = data
            f = wd / f"arch_{idx}.{ext}"
            f.write_bytes(data)
            # the scenario's history of configure_archive_extraction(...) calls: an option that is "not mentioned"
            # is either left out or passed as None
            calls = []
            for c in s["calls"]:
                kw = {}
                if c["mm"] > 0:
                    kw["max_memory_size"] = c["mm"]
                elif rng.random() < 0.5:
                    kw["max_memory_size"] = None
                if c["opt"]:
                    kw[c["opt"]] = OTHER_OPTION_VALUES[c["opt"]]
                calls.append(kw)
            out.append({"sidx": idx, "scn": "members", "kind": s["kind"], "ext": ext, "archive_file": str(f),
                        "calls": calls,
                        "members": [{"name": c12_archives.member_name(m), "size": m["size"]} for m in mem]})
        else:
            raise MachineryError(f"unknown scenario kind {s['k']}")
    for n, w in enumerate(out):
        w["id"] = n
    return out


def _run_workers(ctx, mode, jobs, tag, wall):
    """jobs: list of job dicts; one subprocess per job, all in parallel. Returns merged result list."""
    procs = []
    for n, job in enumerate(jobs):
        jp = ctx.scratch / f"{tag}-job{n}.json"
        op = ctx.scratch / f"{tag}-out{n}.json"
        td = ctx.scratch / f"{tag}-tmp{n}"
        td.mkdir(exist_ok=True)
        job["tmpdir"] = str(td)
        jp.write_text(json.dumps(job))
        procs.append((op, subprocess.Popen([PY, "-m", "mbv.c12_worker", mode, str(jp), str(op)], env=child_env(),
                                           cwd=str(VERIF), stdout=subprocess.PIPE, stderr=subprocess.PIPE, text=True)))
    res = []
    for op, p in procs:
        try:
            so, se = p.communicate(timeout=wall)
        except subprocess.TimeoutExpired:
            p.kill()
            raise MachineryError(f"C12 {mode} worker exceeded {wall}s")
        if p.returncode == 3:
            raise MachineryError("binding vanished: " + se.strip().splitlines()[-1])
        if p.returncode != 0 or not op.exists():
            raise MachineryError(f"C12 {mode} worker failed (rc={p.returncode}):\n{se[-2000:]}")
        res += json.loads(op.read_text())
    return res


def _split(xs, n, weight=lambda x: 1):
    """Greedy balanced split by weight."""
    bins = [[0, []] for _ in range(max(1, min(n, len(xs))))]
    for x in sorted(xs, key=weight, reverse=True):
        b = min(bins, key=lambda b: b[0])
        b[0] += weight(x)
        b[1].append(x)
    return [b[1] for b in bins if b[1]]


def _project_outcome(o: str) -> str:
    if o.startswith("Killed"):
        return "Killed"
    if o in ("MemoryError", "CpuBudget", "Ok"):
        return o
    if o.startswith("Refused"):
        return "Refused"
    if o.startswith("Raised"):
        return "Raised"
    return o


# ------------------------------------------------------------------------------------ the check
def run(ctx):
    ev, v = ctx.ev, ctx.v
    T0 = time.time()
    rng = random.Random(ctx.seed * 7919 + 12)
    open_devs = sorted(d for d, fid in FINDING_OF.items() if v.open_finding(fid))

    # ---- 1. TLC: theorem on the reference design + both dumps (reference / as-built)
    dump_ref, dump_ab = ctx.scratch / "gen-ref.dump", ctx.scratch / "gen-ab.dump"
    with ThreadPoolExecutor(max_workers=14) as ex:
        f_ref = ex.submit(run_tlc, "LimitsGen", _gen_cfg([], ctx.thorough, INVS), scratch=ctx.scratch, dump=dump_ref,
                          workers=2, timeout=900)
        f_ab = ex.submit(run_tlc, "LimitsGen", _gen_cfg(open_devs, ctx.thorough, []), scratch=ctx.scratch, dump=dump_ab,
                         workers=2, timeout=900)
        sens = {d: ex.submit(run_tlc, "LimitsGen", _gen_cfg([d], ctx.thorough, [inv], parts=("a",) if d in PART_A_DEVS else ("b",)),
                             scratch=ctx.scratch, workers=1,
                             timeout=900, expect_fail=True) for d, inv in sorted(SENSITIVITY.items())}
        r_ref, r_ab = f_ref.result(), f_ab.result()
        ev.tlc("LimitsGen: reference design, all scenarios x all invariants", r_ref)
        if r_ref.violated:
            v.violation(what=f"Limits: {r_ref.violated} violated on the reference specification", observed=r_ref.trace[-2:])
            return
        ev.tlc("LimitsGen: as-built model (deviations of the open findings), enumeration only", r_ab)
        for d, fut in sens.items():
            r = fut.result()
            ev.tlc(f"LimitsGen sensitivity: Deviations = {{{d}}} must violate {SENSITIVITY[d]}", r, note="expected violation")
            if r.violated != SENSITIVITY[d]:
                raise MachineryError(f"sensitivity run for {d}: expected {SENSITIVITY[d]} to fail, got {r.violated}")

    ref_final = {_key(s["scn"]): s for s in _dump_states(dump_ref) if s["pc"] == "done"}
    ab_final = {}
    for s in _dump_states(dump_ab):
        if s["pc"] == "done":
            ab_final.setdefault(_key(s["scn"]), s)
    if set(ref_final) != set(ab_final):
        raise MachineryError("reference and as-built enumerations disagree on the scenario set")
    keys = sorted(ref_final)
    ctx.log(f"t={time.time()-T0:.0f}s TLC done")
    ctx.log(f"{len(keys)} scenarios enumerated ({r_ref.distinct} states); open deviations: {open_devs}")

    limit_keys = [k for k in keys if ref_final[k]["scn"]["k"] != "cost"]
    cost_keys = [k for k in keys if ref_final[k]["scn"]["k"] == "cost"]

    # ---- 2a. part (a): concretise + run
    wd = ctx.scratch / "limits-files"
    wd.mkdir()
    scns = [ref_final[k]["scn"] for k in limit_keys]
    wscn = _build_limit_scenarios(ctx, scns, wd, rng)

    def lweight(w):
        if w["scn"] == "sevenz_size":
            return 40
        if w["scn"] == "read_file":
            return 20 if w["stub"] else 1
        return 1 + sum(m["size"] for m in w["members"]) // MiB
    ljobs = [{"scenarios": part, "wall": 240} for part in _split(wscn, 6, lweight)]

    # ---- 2b. part (b): select + concretise
    from .. import c12_hostile
    selected, skipped_either = [], 0
    witness_done = set()
    for k in cost_keys:
        s, gov = ref_final[k]["scn"], ref_final[k]["gov"]
        cls_ab = ab_final[k]["cls"]
        if ref_final[k]["cls"] != "within":
            raise MachineryError(f"reference class of {k} is {ref_final[k]['cls']} although Inv_Bounded holds")
        if cls_ab == "either":
            skipped_either += 1          # the as-built model predicts nothing for it: the measurement decides nothing
            continue
        if cls_ab == "exceeds" and not ctx.thorough:
            if gov in witness_done:      # quick tier: one witness per open finding
                continue
            witness_done.add(gov)
        selected.append(k)
    cases = []
    for n, k in enumerate(selected):
        s = ref_final[k]["scn"]
        b = c12_hostile.build(s["c"], s["mag"], s["pos"], rng)
        if len(b["data"]) > MAX_HOSTILE:
            raise MachineryError(f"hostile file for {k} has {len(b['data'])} bytes")
        f = ctx.scratch / f"hostile_{n}.{b['ext'].replace('.', '_')}"
        f.write_bytes(b["data"])
        markers = MARKERS.get(s["pos"].split("@")[0], []) if s["c"] == "xml_entity" else []
        heavy = ab_final[k]["cls"] == "exceeds"
        # a case the as-built model expects to exceed is cut off earlier (it only has to show that it exceeds);
        # every other case gets the full budget
        cases.append({"id": n, "key": k, "ext": b["ext"], "file": str(f), "usize": b["usize"], "len": len(b["data"]),
                      "markers": markers, "heavy": heavy, "cpu": (30 if ctx.thorough else 12) if heavy else 30})
    ctx.log(f"t={time.time()-T0:.0f}s files built")
    cjobs = [{"cases": part, "wall": 600} for part in _split(cases, 10, lambda c: c["cpu"] if c["heavy"] else 1)]
    ctx.log(f"part (a): {len(wscn)} scenarios in {len(ljobs)} workers; part (b): {len(cases)} hostile files "
            f"({sum(c['heavy'] for c in cases)} expected to exceed, {skipped_either} undecidable cases skipped) "
            f"in {len(cjobs)} workers")
    with ThreadPoolExecutor(max_workers=2) as ex:
        fl = ex.submit(_run_workers, ctx, "limits", ljobs, "lim", 1200)
        fc = ex.submit(_run_workers, ctx, "cost", cjobs, "cost", 1500)
        lres = fl.result()
        ctx.log(f"t={time.time()-T0:.0f}s limit workers done")
        cres = fc.result()
    ctx.log(f"t={time.time()-T0:.0f}s cost workers done")

    # ---- 3. traces
    traces, meta = [], []
    consts_seen = None
    for r in sorted(lres, key=lambda r: r["id"]):
        w = wscn[r["id"]]
        s, skey = scns[w["sidx"]], limit_keys[w["sidx"]]
        if "ev" not in r:
            raise MachineryError(f"limit scenario {skey} produced no report: {r}")
        consts_seen = r.get("consts") or consts_seen
        evs = []
        for e in r["ev"]:
            evs.append(dict(e))                            # entries are identified by index in the worker
        # (the limit in force is not read from the module: the trace -- which members are decompressed and
        #  extracted after the scenario's configuration calls -- decides)
        traces.append({"id": f"a:{r['id']}", "hdr": _hdr(s, valid=w.get("valid", False), lsize=w.get("lsize")), "ev": evs})
        meta.append({"part": "a", "key": skey, "gov": ref_final[skey]["gov"], "w": w, "raw": r})
    if consts_seen:
        want = {"MAX_MEMORY_SIZE": 10 * MiB, "MAX_ARCHIVE_FILE_SIZE": 50 * MiB, "MAX_7Z_FILE_SIZE": 100 * MiB}
        if consts_seen != want:
            v.violation(what="the explicit limits of archive_extractor.py differ from the documented constants "
                             "(Limits.tla: MaxMemorySize / MaxArchiveFileSize / Max7zFileSize)",
                        expected=want, observed=consts_seen, where="archive_extractor.py constants")
    for r in sorted(cres, key=lambda r: r["id"]):
        c = cases[r["id"]]
        s = ref_final[c["key"]]["scn"]
        if r["outcome"] in ("Killed:WallTimeout", "Killed:NoReport", "ChildError"):
            # the CPU budget ends every runaway extraction; a child that is still there after the wall timeout was
            # starved or blocked: that says nothing about the library
            raise MachineryError(f"sandboxed extraction of {c['key']} did not report ({r['outcome']}): {r.get('err', '')}")
        skib = max(1, math.ceil(c["usize"] / 1024))
        peak = r.get("peak")
        e = {"a": "Cost", "peak": min(2 ** 31 - 1, math.ceil(peak / 1024)) if peak is not None else 0,
             "outcome": _project_outcome(r["outcome"]), "expanded": bool(r.get("expanded", False))}
        traces.append({"id": f"b:{r['id']}", "hdr": _hdr(s, skib=skib), "ev": [e]})
        meta.append({"part": "b", "key": c["key"], "gov": ref_final[c["key"]]["gov"], "w": c, "raw": r})

    if os.environ.get("C12_DEBUG"):
        Path(os.environ["C12_DEBUG"]).write_text(json.dumps({"traces": traces, "meta": meta}, default=repr))
    tr_cfg = "SPECIFICATION TraceSpec\nCONSTRAINT TraceAccept\nCONSTANTS Deviations = {}\n"
    br = validate("LimitsTrace", tr_cfg, traces, scratch=ctx.scratch, parallel=8, min_chunk=40, diagnose=0)
    ev.tlc_counts("LimitsTrace: recorded traces vs reference design (invariants conjoined)", br.distinct, br.states, br.wall_s)
    rejected = [i for i, tv in enumerate(br.verdicts) if not tv.accepted]
    ctx.log(f"t={time.time()-T0:.0f}s reference validation done, {len(rejected)} rejected")
    ab_ok = {}
    if rejected and open_devs:
        ab_cfg = f"SPECIFICATION TraceSpec\nCONSTRAINT TraceAccept\nCONSTANTS Deviations = {to_tla(set(open_devs))}\n"
        br2 = validate("LimitsTrace", ab_cfg, [traces[i] for i in rejected], scratch=ctx.scratch, parallel=8, min_chunk=40,
                       diagnose=0)
        ev.tlc_counts("LimitsTrace: rejected traces vs as-built model", br2.distinct, br2.states, br2.wall_s)
        ab_ok = {i: tv.accepted for i, tv in zip(rejected, br2.verdicts)}

    ctx.log(f"t={time.time()-T0:.0f}s as-built validation done")
    # only what is neither conforming nor explained is diagnosed (longest prefix the reference design allows)
    bad = [i for i in rejected if not (meta[i]["gov"] in open_devs and ab_ok.get(i))]
    reached = {}
    if bad:
        br3 = validate("LimitsTrace", tr_cfg, [traces[i] for i in bad[:40]], scratch=ctx.scratch, parallel=8, min_chunk=5,
                       diagnose=40)
        reached = {i: tv.reached for i, tv in zip(bad[:40], br3.verdicts)}
    # ---- 4. verdicts
    for i, (t, m, tv) in enumerate(zip(traces, meta, br.verdicts)):
        s = ref_final[m["key"]]["scn"]
        if m["part"] == "b":
            ev.nontrivial(m["key"])
        elif s["k"] != "members" or any(x["size"] > s["lim"] for x in s["members"]):
            ev.nontrivial(m["key"])
        if tv.accepted:
            v.ok(1)
            continue
        gov = m["gov"]
        desc = _describe(s, t, m)
        if gov and gov in open_devs and ab_ok.get(i):
            v.known(FINDING_OF[gov], desc, case=json.loads(m["key"]))
            continue
        where = {"read_file": "sharepoint2text/__init__.py:read_file",
                 "sevenz_size": "archive_extractor.py:_extract_from_7z_optimized",
                 "members": "archive_extractor.py member loops / sevenzip.py:extractall"}.get(s["k"], "extractor of ." + str(m["w"].get("ext")))
        at = reached.get(i, -1)
        first_bad = t["ev"][at] if 0 <= at < len(t["ev"]) else None
        v.violation(what=desc, case={"scenario": json.loads(m["key"]), "events": t["ev"][:12], "hdr_skib": t["hdr"]["skib"]},
                    expected="a behaviour of Limits.tla with Deviations = {} (guard before load, exact limits, "
                             "skipped members never decompressed, cost within 32 MiB + 64 * size, entities not expanded)",
                    observed={"first event the specification does not allow": first_bad, "raw": m["raw"]}, where=where)
    ev.replayed(len(traces))
    for t, m in list(zip(traces, meta))[:: max(1, len(traces) // 7)]:
        ev.sample({"scenario": json.loads(m["key"]), "events": t["ev"][:8]})
    ev.set(rule="part (a): every scenario TLC enumerates (guards x {limit-1, limit, limit+1} x kinds x member sequences) "
                "is concretised with real sizes and its event trace validated; part (b): every enumerated amplifier "
                "case whose as-built class is not 'either' is built and measured (quick tier: one witness per open "
                "finding for the cases expected to exceed); non-trivial = scenario containing a member above the "
                "limit / any guard scenario / any amplifier case",
           exhaustive=bool(ctx.thorough),
           constants={"A_MiB": 32, "B": 64, "RLIMIT_AS_MiB": 1536, "cpu_budget_s": 30, "scenarios": len(keys),
                      "limit_scenarios": len(wscn), "cost_cases_run": len(cases), "cost_cases_undecidable": skipped_either,
                      "open_deviations": open_devs})
    ev.assume("A = 32 MiB, B = 64 are engineering constants (>= 10x margin over the repository fixtures), not derived",
              "part (b) is exploration over the enumerated amplifier families, measured by tracemalloc (Python-level "
              "allocations; C-level buffers of lzma/zlib are covered only by the ru_maxrss / RLIMIT_AS backstop)",
              "CPU budget (RLIMIT_CPU 30 s, >= 20x the slowest conforming case under tracemalloc) is the only time "
              "measure; wall time decides nothing",
              "7z archives with more than one folder are left to C10 (per-folder pack streams)")


def _describe(s, t, m):
    if s["k"] == "read_file":
        via = {0: "", 1: " given as a symbolic link", 2: " given as a symbolic link to a symbolic link"}[s["via"]]
        return (f"read_file(max_file_size={s['max']}) on a file of {s['size']} bytes{via}: events "
                f"{[e['a'] + (':' + str(e.get('outcome')) if e['a'] == 'End' else '') for e in t['ev']]}")
    if s["k"] == "sevenz_size":
        return (f"read_archive on a 7z buffer of {s['size']} bytes (limit {100 * MiB}): events "
                f"{[e['a'] + (':' + str(e.get('outcome')) if e['a'] == 'End' else '') for e in t['ev']]}")
    if s["k"] == "members":
        ents = [f"#{i} n{x['name']} {x['type']}" + (f"->#{x['target']}" if x['type'] in ('hard', 'sym') else f" {x['size']}B")
                for i, x in enumerate(s['members'], start=1)]
        hist = "" if not m['w'].get('calls') else f" after configure_archive_extraction calls {m['w']['calls']}"
        return (f"{m['w']['ext']} archive, per-member limit {s['lim']}{hist}, entries {ents}: events "
                f"{[(e['a'], e.get('m', e.get('f', e.get('outcome')))) for e in t['ev']]}")
    e = t["ev"][0]
    return (f"amplifier {s['c']} magnitude {s['mag']} position {s['pos']}: file of {m['w']['len']} bytes "
            f"(uncompressed {m['w']['usize']}) -> outcome {m['raw']['outcome']}, tracemalloc peak {e['peak']} KiB "
            f"(bound {32 * 1024 + 64 * t['hdr']['skib']} KiB), entity expanded={e['expanded']}")


# ------------------------------------------------------------------------------------ binding demonstration
def _corrupt_demo():
    """`/venv/bin/python -m mbv.props.c12 corrupt-demo`: record three real traces, corrupt one field each,
    show that TLC (LimitsTrace, reference design) accepts the recorded ones and rejects the corrupted ones."""
    import copy
    from ..tlc import Scratch

    class C:
        thorough = False
    with Scratch("C12demo") as scratch:
        C.scratch = scratch
        scn = lambda **kw: {"k": "", "kind": "", "max": 0, "size": 0, "via": 0, "lsize": 0, "lim": 0, "lim2": 0, "calls": (),
                            "members": (), "c": "", "mag": 0, "pos": "", "skib": 0, **kw}
        mem = lambda size, i: {"size": size, "folder": i, "name": i, "type": "reg", "target": 0}
        scns = [scn(k="read_file", max=4096, size=4096), scn(k="read_file", max=4096, size=4097),
                scn(k="members", kind="zip", lim=4096, lim2=50 * MiB, calls=({"mm": 4096, "opt": ""},),
                    members=(mem(4096, 1), mem(4097, 2)))]
        wd = scratch / "f"
        wd.mkdir()
        wscn = _build_limit_scenarios(C, scns, wd, random.Random(0))
        res = _run_workers(C, "limits", [{"scenarios": wscn, "wall": 120}], "demo", 300)
        traces = []
        for r in sorted(res, key=lambda r: r["id"]):
            evs = []
            traces.append({"id": str(r["id"]), "hdr": _hdr(scns[wscn[r["id"]]["sidx"]]), "ev": [dict(e) for e in r["ev"]]})
        from .. import c12_hostile
        b = c12_hostile.build("ods_cell_repeat_empty", 10 ** 6, "first", random.Random(0))
        f = scratch / "h.ods"
        f.write_bytes(b["data"])
        cr = _run_workers(C, "cost", [{"cases": [{"id": 0, "ext": "ods", "file": str(f)}], "wall": 60}], "democ", 200)[0]
        cost = {"id": "cost", "hdr": _hdr(scn(k="cost", c="ods_cell_repeat_empty", mag=10 ** 6, pos="first"),
                                          skib=math.ceil(b["usize"] / 1024)),
                "ev": [{"a": "Cost", "peak": math.ceil(cr["peak"] / 1024), "outcome": _project_outcome(cr["outcome"]),
                        "expanded": False}]}
        variants = [("recorded: read_file(max=4096) on 4096 bytes", traces[0]),
                    ("recorded: read_file(max=4096) on 4097 bytes", traces[1]),
                    ("recorded: zip members 4096, 4097 with limit 4096", traces[2]),
                    ("recorded: cost of an ODS with an empty cell repeated 10^6 times", cost)]
        t = copy.deepcopy(traces[1])
        t["ev"][-1]["outcome"] = "Ok"
        variants.append(("corrupted: 4097-byte file reported as extracted (End.outcome TooLarge -> Ok)", t))
        t = copy.deepcopy(traces[0])
        for e in t["ev"]:
            if e["a"] == "Load":
                e["n"] -= 1
        variants.append(("corrupted: Load.n one byte short", t))
        t = copy.deepcopy(traces[0])
        t["hdr"]["size"] = 4097
        variants.append(("corrupted: header says the file had 4097 bytes (so it was loaded although refused)", t))
        t = copy.deepcopy(traces[2])
        t["ev"].insert(0, {"a": "Decompress", "m": 2, "to": "mem"})
        variants.append(("corrupted: Decompress event for the skipped member m2 inserted", t))
        t = copy.deepcopy(traces[2])
        t["ev"] = [e for e in t["ev"] if not (e["a"] == "Extract" and e["m"] == 1)]
        variants.append(("corrupted: Extract event of the member at the limit (m1) removed", t))
        t = copy.deepcopy(cost)
        t["ev"][0]["peak"] = 32 * 1024 + 64 * t["hdr"]["skib"] + 1
        variants.append(("corrupted: peak raised to bound + 1 KiB", t))
        cfg = "SPECIFICATION TraceSpec\nCONSTRAINT TraceAccept\nCONSTANTS Deviations = {}\n"
        br = validate("LimitsTrace", cfg, [x for _, x in variants], scratch=scratch, parallel=1, diagnose=0)
        for (name, x), tv in zip(variants, br.verdicts):
            print(("ACCEPTED  " if tv.accepted else "REJECTED  ") + name)
            print("          " + json.dumps(x["ev"])[:200])


if __name__ == "__main__":
    import sys
    if sys.argv[1:] == ["corrupt-demo"]:
        _corrupt_demo()
