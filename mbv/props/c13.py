"""C13 -- tables keep their shape and cells.  Spec: Doc.tla (TopTables, CellIds, GridMatches, TablesOK)
validated through DocTrace.tla on the shared document suite; typed spreadsheet values through
SheetTrace (see below)."""
from __future__ import annotations

import json
import random

from ..docsuite import FLOW_FORMATS, MULTI, build_jobs, run_suite, validate_with_findings

FINDING_DEV = {
    "KF-C13-01": "Xlsx!HeaderPlaceholder",
    "KF-C13-02": "Epub!NestedTableGarbles",
    "KF-C13-03": "Xlsx!TableNameRowSkipped",
    "KF-C13-04": "Rtf!NeighbourTablesMerged",
    "KF-C13-05": "Epub!CellInlineSpaced",
    "KF-C13-06": "Xls!HeaderOnlySheetEmpty",
    "KF-C13-07": "Xls!HeaderKeyCollision",
    "KF-C13-08": "Xls!ErrorCellNone",
}

TABLE_FORMATS = {"docx", "odt", "html", "mhtml", "epub", "rtf", "pptx", "odp", "xlsx", "ods", "xls"}


def _events(j, o):
    if j["fmt"] not in TABLE_FORMATS:
        return None
    return [{"a": "Tables", "tables": o["tables"]}]


TYPED_CELL = {"n": ["n", 7], "nf": ["n", 1.5], "z": ["n", 0], "b": ["b", 1], "bf": ["b", 0], "d": ["d", "2024-01-02T03:04:05"],
              "date": ["date", "2024-01-02"], "t": ["t", "03:04:05"], "e": ["e", "#DIV/0!"], "f": ["f", "A1+1", 2.5],
              "s": ["s", 9], "empty": None}


def _typed_obs(v):
    """Observed typed cell -> record for Doc!TypedAcceptable (projection only)."""
    from ..docmodel import project_text
    base = {"k": "other", "n2": 0, "b": False, "s": "", "v": []}
    if v is None or v == "":
        return dict(base, k="ids")
    if isinstance(v, bool):
        return dict(base, k="bool", b=v)
    if isinstance(v, (int, float)):
        return dict(base, k="num", n2=int(v * 2)) if float(v * 2).is_integer() and abs(v) < 10**6 else dict(base, s=repr(v)[:40])
    if isinstance(v, str):
        ids = project_text(v)["ids"]
        return dict(base, k="ids", v=ids) if ids else dict(base, k="str", s=v[:60])
    return dict(base, s=f"{type(v).__name__}:{v!r}"[:60])


def _typed_job(job):
    import io
    from ..docrun import EXTRACTOR, render
    from ..repo import activate
    activate()
    import warnings
    warnings.simplefilter("ignore")
    import sharepoint2text
    kinds, fmt, dup = job
    row = [TYPED_CELL[k] for k in kinds]
    if fmt == "ods":
        row = [None if (c and c[0] in ("e", "f")) else c for c in row]
    if fmt == "xls":      # the BIFF writer has no date formats / formulas
        row = [None if (c and c[0] in ("d", "date", "t", "f")) else c for c in row]
    # header row: two different token strings, or (dup) the same literal text twice ("Amount" | "Amount")
    header = [["str", "Amount"], ["str", "Amount"]] if dup else [["s", 1], ["s", 2]]
    book = {"kind": "book", "sheets": [{"name": "T", "rows": [header, row]}]}
    try:
        r = next(getattr(sharepoint2text, EXTRACTOR[fmt])(io.BytesIO(render(book, fmt)), "t." + fmt))
        tables = [t.get_table() for t in r.iterate_tables()]
    except Exception as e:
        return {"exc": f"{type(e).__name__}: {e}"[:200]}
    if len(tables) != 1 or len(tables[0]) < 1:
        return {"exc": f"tables: {tables!r}"[:200]}
    data = tables[0][1] if len(tables[0]) > 1 else []
    return {"row": [_typed_obs(c) for c in data], "raw": repr(data)[:200]}


def _typed_grid_job(kinds):
    import io
    from ..docrun import render
    from ..repo import activate
    activate()
    import warnings
    warnings.simplefilter("ignore")
    import sharepoint2text
    cellmap = dict(TYPED_CELL, s=["s", 9])
    rows = []
    n = 1
    for row in kinds:
        r = []
        for k in row:
            c = cellmap[k]
            if k == "s":
                c = ["s", n]
                n += 1
            r.append(c)
        rows.append(r)
    book = {"kind": "book", "sheets": [{"name": "G", "rows": rows}]}
    try:
        r = next(sharepoint2text.read_ods(io.BytesIO(render(book, "ods")), "g.ods"))
        tables = [t.get_table() for t in r.iterate_tables()]
    except Exception as e:
        return {"exc": f"{type(e).__name__}: {e}"[:200]}
    if len(tables) != 1:
        return {"exc": f"tables: {tables!r}"[:200]}
    return {"grid": [[_typed_obs(c) for c in row] for row in tables[0]], "raw": repr(tables[0])[:200]}


def typed_values(ctx):
    """Typed spreadsheet values (numbers, booleans, dates, times, errors, formula results) keep their value."""
    from concurrent.futures import ProcessPoolExecutor
    from ..docsuite import gen_units, trace_cfg
    from ..traces import validate
    rows = gen_units(ctx, "typed", 1)
    jobs = []
    for u in rows:
        kinds = [str(k) for k in u[0]]
        for fmt in ("xlsx", "ods", "xls"):
            eff = ["empty" if ((fmt == "ods" and k in ("e", "f")) or (fmt == "xls" and k in ("d", "date", "t", "f"))) else k
                   for k in kinds]
            if all(k == "empty" for k in eff):
                continue        # nothing but the header row would be written
            jobs.append((kinds, fmt, eff, False))
            if fmt != "xls":        # equal header texts (xls: rows are dicts keyed by header text, KF-C13-07)
                jobs.append((kinds, fmt, eff, True))
    with ProcessPoolExecutor(16) as ex:
        obs = list(ex.map(_typed_job, [(k, f, d) for k, f, _, d in jobs]))
    traces = []
    for (kinds, fmt, eff, dup), o in zip(jobs, obs):
        if "exc" in o:
            ctx.v.violation(what=f"{fmt}: typed row {kinds} could not be read back: {o['exc']}", case={"kinds": kinds, "fmt": fmt})
            continue
        traces.append({"id": f"typed{'-duphdr' if dup else ''}:{fmt}:{'/'.join(kinds)}", "hdr": {"fmt": fmt, "doc": {"units": [], "header": [], "footer": []}},
                       "raw": o["raw"], "ev": [{"a": "Typed", "kinds": eff, "row": o["row"]}]})
    # header-less grids whose last column may hold only falsy values (ODS keeps every row as data)
    grids = gen_units(ctx, "typedgrid", 1)
    gjobs = [[[str(k) for k in row] for row in u[0]] for u in grids]
    with ProcessPoolExecutor(16) as ex:
        gobs = list(ex.map(_typed_grid_job, gjobs))
    for kinds, o in zip(gjobs, gobs):
        if "exc" in o:
            ctx.v.violation(what=f"ods: typed grid {kinds} could not be read back: {o['exc']}", case={"kinds": kinds, "fmt": "ods"})
            continue
        traces.append({"id": f"typedgrid:ods:{kinds}", "hdr": {"fmt": "ods", "doc": {"units": [], "header": [], "footer": []}},
                       "raw": o["raw"], "ev": [{"a": "TypedGrid", "kinds": kinds, "grid": o["grid"]}]})
    for t in traces:
        ctx.ev.nontrivial(t["id"])
    validate_with_findings(ctx, "DocTrace", traces, FINDING_DEV,
                           lambda t, e: f"typed spreadsheet values changed: {t['id']} -> observed data row {t['raw']}",
                           lambda t: "xlsx_extractor / ods_extractor / xls_extractor cell value handling")
    ctx.ev.replayed(len(traces))
    if traces:
        ctx.ev.sample({"typed_row": traces[len(traces) // 2]["id"], "observed": traces[len(traces) // 2]["raw"]})


def run(ctx):
    ev = ctx.ev
    rng = random.Random(ctx.seed)
    jobs, ndocs = build_jobs(ctx, rng, two_block_sample=1400)
    jobs = [j for j in jobs if j["fmt"] in TABLE_FORMATS]
    ctx.log(f"{ndocs} documents, {len(jobs)} (document, format) extractions")
    traces = run_suite(ctx, jobs, _events, "tables")
    for t in traces:
        if t["ev"][0]["tables"]:
            ev.nontrivial((t["hdr"]["fmt"], json.dumps(t["hdr"]["doc"]["units"])))
    with_t = [t for t in traces if t["ev"][0]["tables"]]
    for t in (with_t or traces)[:: max(1, len(with_t or traces) // 6)]:
        ev.sample({"fmt": t["hdr"]["fmt"], "source_units": [u["blocks"] for u in t["hdr"]["doc"]["units"]],
                   "observed_tables": t["ev"][0]["tables"]})

    def describe(t, e):
        return (f"iterate_tables() of a generated {t['hdr']['fmt']} document does not return the source tables: "
                f"observed {json.dumps(e.get('tables'))[:300]}; "
                f"source units {json.dumps([u['blocks'] for u in t['hdr']['doc']['units']])[:300]}")

    validate_with_findings(ctx, "DocTrace", traces, FINDING_DEV, describe,
                           lambda t: f"{t['hdr']['fmt']} table walker")
    ev.replayed(len(traces))
    typed_values(ctx)
    ev.set(rule="same TLC-enumerated document suite as C02: tables 1..2 x 1..2 with plain / two-paragraph / empty / "
                "nested-table cells, in lists, content controls and text boxes, on slides; sheets up to 3x3 with empty "
                "cells; non-trivial = at least one table observed",
           exhaustive=bool(ctx.thorough), constants={"table_formats": sorted(TABLE_FORMATS), "documents": ndocs})
    ev.assume("writers are the trusted base", "separate listing of a nested table is DON'T-CARE; padding of ragged rows is "
              "DON'T-CARE; an empty sheet may or may not yield an (empty) table")
