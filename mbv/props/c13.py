"""C13 -- tables keep their shape and cells.  Spec: Doc.tla (TopTables, CellIds, GridMatches, TablesOK)
validated through DocTrace.tla on the shared document suite; typed spreadsheet values through
SheetTrace (see below)."""
from __future__ import annotations

import json
import random

from ..docsuite import FLOW_FORMATS, MULTI, build_jobs, run_suite, validate_with_findings

FINDING_DEV = {
    "KF-C13-01": "Xlsx!HeaderPlaceholder",
    "KF-C13-02": "Epub!NestedTableGarbles",
    "KF-C13-03": "Xlsx!TableNameRowSkipped",
    "KF-C13-04": "Rtf!NeighbourTablesMerged",
    "KF-C13-05": "Epub!CellInlineSpaced",
    "KF-C13-06": "Xls!HeaderOnlySheetEmpty",
    "KF-C13-07": "Xls!HeaderKeyCollision",
    "KF-C13-08": "Xls!ErrorCellNone",
    "KF-C13-09": "Ods!LargeGapCollapsed",
    "KF-C13-10": "Epub!ColspanShifts",
}

TABLE_FORMATS = {"docx", "odt", "html", "mhtml", "epub", "rtf", "pptx", "odp", "xlsx", "ods", "xls"}


def _events(j, o):
    if j["fmt"] not in TABLE_FORMATS:
        return None
    return [{"a": "Tables", "tables": o["tables"]}]


TYPED_CELL = {"n": ["n", 7], "nf": ["n", 1.5], "z": ["n", 0], "b": ["b", 1], "bf": ["b", 0], "d": ["d", "2024-01-02T03:04:05"],
              "date": ["date", "2024-01-02"], "t": ["t", "03:04:05"], "e": ["e", "#DIV/0!"], "f": ["f", "A1+1", 2.5],
              "s": ["s", 9], "empty": None}


def _typed_obs(v):
    """Observed typed cell -> record for Doc!TypedAcceptable (projection only)."""
    from ..docmodel import project_text
    base = {"k": "other", "n2": 0, "b": False, "s": "", "v": []}
    if v is None or v == "":
        return dict(base, k="ids")
    if isinstance(v, bool):
        return dict(base, k="bool", b=v)
    if isinstance(v, (int, float)):
        return dict(base, k="num", n2=int(v * 2)) if float(v * 2).is_integer() and abs(v) < 10**6 else dict(base, s=repr(v)[:40])
    if isinstance(v, str):
        ids = project_text(v)["ids"]
        return dict(base, k="ids", v=ids) if ids else dict(base, k="str", s=v[:60])
    return dict(base, s=f"{type(v).__name__}:{v!r}"[:60])


def _typed_job(job):
    import io
    from ..docrun import EXTRACTOR, render
    from ..repo import activate
    activate()
    import warnings
    warnings.simplefilter("ignore")
    import sharepoint2text
    kinds, fmt, dup = job
    datemode = 0
    if fmt == "xls1904":        # legacy workbook in the 1904 date system
        fmt, datemode = "xls", 1
    row = [TYPED_CELL[k] for k in kinds]
    if fmt == "ods":
        row = [None if (c and c[0] in ("e", "f")) else c for c in row]
    if fmt == "xls":      # the BIFF writer has no formulas
        row = [None if (c and c[0] == "f") else c for c in row]
    # header row: two different token strings, or (dup) the same literal text twice ("Amount" | "Amount")
    header = [["str", "Amount"], ["str", "Amount"]] if dup else [["s", 1], ["s", 2]]
    book = {"kind": "book", "datemode": datemode, "sheets": [{"name": "T", "rows": [header, row]}]}
    try:
        r = next(getattr(sharepoint2text, EXTRACTOR[fmt])(io.BytesIO(render(book, fmt)), "t." + fmt))
        tables = [t.get_table() for t in r.iterate_tables()]
    except Exception as e:
        return {"exc": f"{type(e).__name__}: {e}"[:200]}
    if len(tables) != 1 or len(tables[0]) < 1:
        return {"exc": f"tables: {tables!r}"[:200]}
    data = tables[0][1] if len(tables[0]) > 1 else []
    from ..docmodel import TOKEN_RE
    lines = [ln for ln in r.get_full_text().split("\n") if ln.strip()]
    words = ["<token>" if TOKEN_RE.fullmatch(w) else w[:40] for w in (lines[-1].split() if len(lines) > 2 or (lines and not dup) else [])]
    return {"row": [_typed_obs(c) for c in data], "raw": repr(data)[:200], "words": words, "nlines": len(lines)}


def _typed_header_job(fmt):
    import io
    from ..docrun import EXTRACTOR, render
    from ..repo import activate
    activate()
    import warnings
    warnings.simplefilter("ignore")
    import sharepoint2text
    book = {"kind": "book", "sheets": [{"name": "H", "rows": [[["n", 7], ["n", 1.5], ["n", 0]], [["s", 1], ["s", 2], ["s", 3]]]}]}
    try:
        r = next(getattr(sharepoint2text, EXTRACTOR[fmt])(io.BytesIO(render(book, fmt)), "h." + fmt))
        tables = [t.get_table() for t in r.iterate_tables()]
    except Exception as e:
        return {"exc": f"{type(e).__name__}: {e}"[:200]}
    if len(tables) != 1 or not tables[0]:
        return {"exc": f"tables: {tables!r}"[:200]}
    return {"row": [_typed_obs(c) for c in tables[0][0]], "raw": repr(tables[0][0])[:200]}


def _typed_grid_job(kinds):
    import io
    from ..docrun import render
    from ..repo import activate
    activate()
    import warnings
    warnings.simplefilter("ignore")
    import sharepoint2text
    cellmap = dict(TYPED_CELL, s=["s", 9])
    rows = []
    n = 1
    for row in kinds:
        r = []
        for k in row:
            c = cellmap[k]
            if k == "s":
                c = ["s", n]
                n += 1
            r.append(c)
        rows.append(r)
    book = {"kind": "book", "sheets": [{"name": "G", "rows": rows}]}
    try:
        r = next(sharepoint2text.read_ods(io.BytesIO(render(book, "ods")), "g.ods"))
        tables = [t.get_table() for t in r.iterate_tables()]
    except Exception as e:
        return {"exc": f"{type(e).__name__}: {e}"[:200]}
    if len(tables) != 1:
        return {"exc": f"tables: {tables!r}"[:200]}
    return {"grid": [[_typed_obs(c) for c in row] for row in tables[0]], "raw": repr(tables[0])[:200]}


def typed_values(ctx):
    """Typed spreadsheet values (numbers, booleans, dates, times, errors, formula results) keep their value."""
    from concurrent.futures import ProcessPoolExecutor
    from ..docsuite import gen_units, trace_cfg
    from ..traces import validate
    rows = gen_units(ctx, "typed", 1)
    jobs = []
    for u in rows:
        kinds = [str(k) for k in u[0]]
        for fmt in ("xlsx", "ods", "xls", "xls1904"):
            if fmt == "xls1904" and not any(k in ("d", "date", "t") for k in kinds):
                continue        # the date system only matters for date cells
            eff = ["empty" if ((fmt == "ods" and k in ("e", "f")) or (fmt.startswith("xls") and fmt != "xlsx" and k == "f")) else k
                   for k in kinds]
            if all(k == "empty" for k in eff):
                continue        # nothing but the header row would be written
            jobs.append((kinds, fmt, eff, False))
            if fmt in ("xlsx", "ods"):        # equal header texts (xls: rows are dicts keyed by header text, KF-C13-07)
                jobs.append((kinds, fmt, eff, True))
    with ProcessPoolExecutor(16) as ex:
        obs = list(ex.map(_typed_job, [(k, f, d) for k, f, _, d in jobs]))
    traces = []
    for (kinds, fmt, eff, dup), o in zip(jobs, obs):
        if "exc" in o:
            ctx.v.violation(what=f"{fmt}: typed row {kinds} could not be read back: {o['exc']}", case={"kinds": kinds, "fmt": fmt})
            continue
        traces.append({"id": f"typed{'-duphdr' if dup else ''}:{fmt}:{'/'.join(kinds)}", "hdr": {"fmt": "xls" if fmt == "xls1904" else fmt, "doc": {"units": [], "header": [], "footer": []}},
                       "raw": o["raw"] + " text " + " ".join(o["words"]),
                       "ev": [{"a": "Typed", "kinds": eff, "row": o["row"]}]
                             + ([{"a": "TypedText", "kinds": eff, "words": o["words"]}] if o["nlines"] >= 3 else [])})
    # numbers in the header row (year columns)
    for fmt in ("xlsx", "ods", "xls"):
        o = _typed_header_job(fmt)
        if "exc" in o:
            ctx.v.violation(what=f"{fmt}: sheet with a numeric header row could not be read back: {o['exc']}", case={"fmt": fmt})
            continue
        traces.append({"id": f"typedheader:{fmt}", "hdr": {"fmt": fmt, "doc": {"units": [], "header": [], "footer": []}}, "raw": o["raw"],
                       "ev": [{"a": "TypedHeader", "kinds": ["n", "nf", "z"], "row": o["row"]}]})
    # header-less grids whose last column may hold only falsy values (ODS keeps every row as data)
    grids = gen_units(ctx, "typedgrid", 1)
    gjobs = [[[str(k) for k in row] for row in u[0]] for u in grids]
    with ProcessPoolExecutor(16) as ex:
        gobs = list(ex.map(_typed_grid_job, gjobs))
    for kinds, o in zip(gjobs, gobs):
        if "exc" in o:
            ctx.v.violation(what=f"ods: typed grid {kinds} could not be read back: {o['exc']}", case={"kinds": kinds, "fmt": "ods"})
            continue
        traces.append({"id": f"typedgrid:ods:{kinds}", "hdr": {"fmt": "ods", "doc": {"units": [], "header": [], "footer": []}},
                       "raw": o["raw"], "ev": [{"a": "TypedGrid", "kinds": kinds, "grid": o["grid"]}]})
    for t in traces:
        ctx.ev.nontrivial(t["id"])
    validate_with_findings(ctx, "DocTrace", traces, FINDING_DEV,
                           lambda t, e: f"typed spreadsheet values changed: {t['id']} -> observed data row {t['raw']}",
                           lambda t: "xlsx_extractor / ods_extractor / xls_extractor cell value handling")
    ctx.ev.replayed(len(traces))
    if traces:
        ctx.ev.sample({"typed_row": traces[len(traces) // 2]["id"], "observed": traces[len(traces) // 2]["raw"]})


# ----------------------------------------------------------------------------- XLSX sheet reader: algorithm model
SHEET_DEV = {"KF-C13-01": "Xlsx!HeaderPlaceholder", "KF-C13-03": "Xlsx!TableNameRowSkipped"}


def _sheet_cell(v):
    """A value seen / returned by the sheet reader -> model cell <<kind, n>> (SheetWalkDefs)."""
    import re
    from ..docmodel import TOKEN_RE
    if v is None:
        return ["none", 0]
    if isinstance(v, bool):
        return ["bool", int(v)]
    if isinstance(v, (int, float)):
        return ["num", int(v * 2)] if float(v * 2).is_integer() and abs(v) < 10**6 else ["other", 0]
    if isinstance(v, str):
        if v.strip() == "":
            return ["ws", 0]
        m = TOKEN_RE.fullmatch(v)
        if m:
            return ["tok", int(m.group(1) or m.group(2) or m.group(3))]
        m = re.fullmatch(r"Unnamed: (\d+)", v)
        if m:
            return ["unn", int(m.group(1))]
        if v in ("True", "False"):
            return ["boolstr", int(v == "True")]
        try:
            f = float(v)
            return ["numstr", int(f * 2)] if float(f * 2).is_integer() else ["other", 0]
        except ValueError:
            return ["other", 0]
    return ["other", 0]


def _sheet_walk_job(grids):
    """grids: list of model grids (one sheet each) -> per sheet {src, all, data} as the real reader saw / produced them.
    The reader is observed through a wrapper around xlsx_extractor._read_sheet_data installed here (no source hook)."""
    import io
    from ..docrun import render
    from ..repo import activate
    activate()
    import warnings
    warnings.simplefilter("ignore")
    import sharepoint2text
    from sharepoint2text.parsing.extractors.ms_modern import xlsx_extractor as mod
    conv = {"none": lambda c: None, "ws": lambda c: ["str", "  "], "tok": lambda c: ["s", c[1]], "num": lambda c: ["n", c[1] / 2],
            "bool": lambda c: ["b", c[1]]}
    book = {"kind": "book", "sheets": [{"name": f"S{k}", "rows": [[conv[c[0]](c) for c in row] for row in g]}
                                       for k, g in enumerate(grids, start=1)]}
    orig = getattr(mod, "_read_sheet_data", None)
    if orig is None:
        return {"skip": "xlsx_extractor has no _read_sheet_data"}
    log = []

    def wrapper(ws):
        src = [list(r) for r in ws.iter_rows(values_only=True)]
        out = orig(ws)
        log.append((src, out[1]))
        return out
    mod._read_sheet_data = wrapper
    try:
        r = next(sharepoint2text.read_xlsx(io.BytesIO(render(book, "xlsx")), "w.xlsx"))
    except Exception as e:
        return {"exc": f"{type(e).__name__}: {e}"[:200]}
    finally:
        mod._read_sheet_data = orig
    if len(log) != len(grids) or len(r.sheets) != len(grids):
        return {"exc": f"{len(grids)} sheets written, reader called {len(log)} times, {len(r.sheets)} sheets returned"}
    out = []
    for (src, allr), sh in zip(log, r.sheets):
        out.append({"src": [[_sheet_cell(c) for c in row] for row in src],
                    "all": [[_sheet_cell(c) for c in row] for row in allr],
                    "data": [[_sheet_cell(c) for c in row] for row in sh.get_table()]})
    return {"sheets": out}


def sheet_walk_model(ctx):
    """SheetWalk.tla: TLC theorems on the bounded grid universe, sensitivity runs for the as-built steps, and the
    binding: every grid of the universe is written as a sheet; what the real reader returns is the machine's result."""
    from concurrent.futures import ProcessPoolExecutor
    from ..tlaval import iter_dump, to_tla
    from ..docrun import from_tla
    from ..tlc import MachineryError, run_tlc
    from ..traces import validate
    mr, mc = (3, 3) if ctx.thorough else (2, 3)
    consts = f" MaxRows = {mr}\n MaxCols = {mc}\n"
    invs = "".join(f"INVARIANT {i}\n" for i in ("Inv_StepAgreesWithFunction", "Inv_NothingLost", "Inv_NothingInvented", "Inv_Shape"))
    cfg = f"SPECIFICATION Spec\nCONSTANTS WalkDev = {{}}\n{consts}{invs}PROPERTY Prop_Terminates\n"
    from ..tlc import run_tlc_many
    sdevs = sorted(SHEET_DEV.values())
    # spec -> code: the grid universe (2 x 3 exhaustively; 3 x 3 sampled in thorough)
    dump = ctx.scratch / f"sheetgen-{mr}-{mc}.dump"
    res = run_tlc_many(
        [("SheetWalk", cfg, dict(scratch=ctx.scratch, expect_fail=True, heap="8g", workers=8, timeout=3000))]
        + [("SheetWalk", cfg.replace("WalkDev = {}", f'WalkDev = {{"{dv}"}}').replace(f" MaxRows = {mr}", " MaxRows = 2"),
            dict(scratch=ctx.scratch, expect_fail=True, heap="4g", workers=4)) for dv in sdevs]
        + [("SheetWalk", f"SPECIFICATION GenSpec\nCONSTANTS WalkDev = {{}}\n{consts}", dict(scratch=ctx.scratch, dump=dump, heap="6g", workers=4))])
    r, rg = res[0], res[-1]
    ctx.ev.tlc(f"SheetWalk {mr}x{mc}: the modelled sheet reader keeps every cell in place and terminates", r)
    if r.violated:
        ctx.v.violation(what="SheetWalk.tla: the strict sheet-reader model violates its own theorems", observed=r.output[-1500:])
    for dv, rs in zip(sdevs, res[1:-1]):
        ctx.ev.tlc(f"SheetWalk sensitivity: as-built step {dv} must violate a theorem", rs, note="expected violation")
        if not rs.violated:
            raise MachineryError(f"SheetWalk sensitivity run for {dv} did not fail")
    ctx.ev.tlc(f"SheetWalk GenSpec {mr}x{mc}: input grids", rg)
    grids = sorted((from_tla(st["src"]) for st in iter_dump(dump)), key=lambda g: json.dumps(g))
    if len(grids) != rg.distinct:
        raise MachineryError(f"SheetWalk dump {len(grids)} != {rg.distinct}")
    if len(grids) > 24000:
        rng = random.Random(ctx.seed)
        small = [g for g in grids if len(g) <= 2]
        rest = [g for g in grids if len(g) > 2]
        rng.shuffle(rest)
        grids = small + rest[: 24000 - len(small)]
    grids = [g for g in grids if g]           # a workbook sheet with no rows at all is the empty sheet of DocGen2
    per = 40
    books = [grids[k:k + per] for k in range(0, len(grids), per)]
    with ProcessPoolExecutor(16) as ex:
        obs = list(ex.map(_sheet_walk_job, books, chunksize=2))
    traces = []
    for b, o in zip(books, obs):
        if "skip" in o:
            ctx.log("sheet-walk binding skipped: " + o["skip"])
            return
        if "exc" in o:
            ctx.v.violation(what=f"read_xlsx failed on a generated workbook of {len(b)} small sheets: {o['exc']}", case={"grids": b[:3]})
            continue
        for g, sh in zip(b, o["sheets"]):
            want = {(i, j): c for i, row in enumerate(g) for j, c in enumerate(row) if c[0] not in ("none", "ws")}
            got = {(i, j): c for i, row in enumerate(sh["src"]) for j, c in enumerate(row) if c[0] not in ("none", "ws")}
            if want != got:
                raise MachineryError(f"writer / openpyxl disagree on a generated grid: wrote {g}, reader saw {sh['src']}")
            traces.append({"id": f"sheet:{len(traces)}", "hdr": {"fmt": "xlsx", "doc": {"grid": g}}, "raw": json.dumps(sh["data"])[:300],
                           "ev": [dict(sh, a="Sheet")]})
    def cfgfn(dev):
        return f"SPECIFICATION TraceSpec\nCONSTANTS WalkDev = {to_tla(set(dev))}\nCONSTRAINT TraceAccept\n"
    # strict first (a reader that no longer takes the as-built steps is right, not a violation); what the strict machine
    # rejects must be exactly what the machine with the open findings' steps produces
    validate_with_findings(ctx, "SheetWalkTrace", traces, SHEET_DEV,
                           lambda t, e: "read_xlsx: the sheet table differs from the algorithm model SheetWalk.tla: rows seen "
                                        f"{json.dumps(e['src'])[:300]} -> rows returned {json.dumps(e['all'])[:300]}, table {json.dumps(e['data'])[:300]}",
                           lambda t: "xlsx_extractor.py:_read_sheet_data / _read_content_from_workbook", cfg=cfgfn)
    ctx.ev.replayed(len(traces))
    for t in traces[:: max(1, len(traces) // 500)]:
        ctx.ev.nontrivial(("sheetwalk", t["raw"]))


# ----------------------------------------------------------------------------- ODS sheet reader: algorithm model
def _ods_walk_job(sheets):
    """sheets: list of model sheets (row elements with repeat counts) -> the table read_ods returns for each."""
    import io
    from ..docrun import render
    from ..repo import activate
    activate()
    import warnings
    warnings.simplefilter("ignore")
    import sharepoint2text
    conv = {"none": lambda c: None, "tok": lambda c: ["s", c[1]], "num": lambda c: ["n", c[1] / 2]}
    book = {"kind": "book", "sheets": [
        {"name": f"S{k}", "rows": [{"repeat": re_["rep"], "cells": [{"repeat": ce["rep"], "cell": conv[ce["v"][0]](ce["v"])}
                                                                    for ce in re_["cells"]]} for re_ in sh]}
        for k, sh in enumerate(sheets, start=1)]}
    try:
        r = next(sharepoint2text.read_ods(io.BytesIO(render(book, "ods")), "w.ods"))
        tables = [sh.get_table() for sh in r.sheets]
    except Exception as e:
        return {"exc": f"{type(e).__name__}: {e}"[:200]}
    if len(tables) != len(sheets):
        return {"exc": f"{len(sheets)} sheets written, {len(tables)} returned"}
    return {"data": [[[_sheet_cell(c) for c in row] for row in t] for t in tables]}


def ods_walk_model(ctx):
    """OdsWalk.tla: theorems on the bounded universe of repeat structures (Big = 2), sensitivity run for the as-built
    collapse of long empty runs, and the binding with the reader's real threshold (Big = 100)."""
    from concurrent.futures import ProcessPoolExecutor
    from ..tlaval import iter_dump, to_tla
    from ..docrun import from_tla
    from ..tlc import MachineryError, run_tlc
    consts = " MaxRowElems = 2\n MaxCellElems = 2\n"
    invs = "".join(f"INVARIANT {i}\n" for i in ("Inv_StepAgreesWithFunction", "Inv_NothingLost", "Inv_NothingInvented", "Inv_Rect"))
    cfg = f"SPECIFICATION Spec\nCONSTANTS WalkDev = {{}}\n Big = 2\n{consts}{invs}PROPERTY Prop_Terminates\n"
    from ..tlc import run_tlc_many
    dump = ctx.scratch / "odsgen.dump"
    r, rs, rg = run_tlc_many([
        ("OdsWalk", cfg, dict(scratch=ctx.scratch, expect_fail=True, heap="8g", workers=8, timeout=3000)),
        ("OdsWalk", cfg.replace("WalkDev = {}", 'WalkDev = {"Ods!LargeGapCollapsed"}'), dict(scratch=ctx.scratch, expect_fail=True, heap="4g", workers=4)),
        ("OdsWalk", f"SPECIFICATION GenSpec\nCONSTANTS WalkDev = {{}}\n Big = 100\n{consts}", dict(scratch=ctx.scratch, dump=dump, heap="6g", workers=4))])
    ctx.ev.tlc("OdsWalk (Big = 2): the modelled ODS reader keeps every source position in place and terminates", r)
    if r.violated:
        ctx.v.violation(what="OdsWalk.tla: the strict ODS reader model violates its own theorems", observed=r.output[-1500:])
    ctx.ev.tlc("OdsWalk sensitivity: the as-built collapse of long empty runs must violate a theorem", rs, note="expected violation")
    if not rs.violated:
        raise MachineryError("OdsWalk sensitivity run did not fail")
    ctx.ev.tlc("OdsWalk GenSpec (Big = 100): input sheets", rg)
    sheets = sorted((from_tla(st["src"]) for st in iter_dump(dump)), key=lambda g: json.dumps(g, sort_keys=True))
    if len(sheets) != rg.distinct:
        raise MachineryError(f"OdsWalk dump {len(sheets)} != {rg.distinct}")
    sheets = [sh for sh in sheets if sh]
    cap = 30000 if ctx.thorough else 3000
    if len(sheets) > cap:
        rng = random.Random(ctx.seed)
        small = [sh for sh in sheets if len(sh) <= 1]
        rest = [sh for sh in sheets if len(sh) > 1]
        rng.shuffle(rest)
        sheets = small + rest[: cap - len(small)]
    per = 40
    books = [sheets[k:k + per] for k in range(0, len(sheets), per)]
    with ProcessPoolExecutor(16) as ex:
        obs = list(ex.map(_ods_walk_job, books, chunksize=2))
    traces = []
    for b, o in zip(books, obs):
        if "exc" in o:
            ctx.v.violation(what=f"read_ods failed on a generated workbook of {len(b)} small sheets: {o['exc']}", case={"sheets": b[:2]})
            continue
        for sh, data in zip(b, o["data"]):
            traces.append({"id": f"odssheet:{len(traces)}", "hdr": {"fmt": "ods", "doc": {"src": sh}}, "raw": json.dumps(data)[:300],
                           "ev": [{"a": "OdsSheet", "src": sh, "data": data}]})

    def cfgfn(dev):
        return f"SPECIFICATION TraceSpec\nCONSTANTS WalkDev = {to_tla(set(dev))}\n Big = 100\nCONSTRAINT TraceAccept\n"
    validate_with_findings(ctx, "OdsWalkTrace", traces, {"KF-C13-09": "Ods!LargeGapCollapsed"},
                           lambda t, e: "read_ods: the sheet table differs from the algorithm model OdsWalk.tla: row elements "
                                        f"{json.dumps(e['src'])[:300]} -> table {json.dumps(e['data'])[:300]}",
                           lambda t: "ods_extractor.py:_extract_sheet", cfg=cfgfn)
    ctx.ev.replayed(len(traces))
    for t in traces[:: max(1, len(traces) // 500)]:
        ctx.ev.nontrivial(("odswalk", t["raw"]))


# ----------------------------------------------------------------------------- XLS sheet reader: model of the dictionary rows
XLS_DEV = {"KF-C13-06": "Xls!HeaderOnlySheetEmpty", "KF-C13-07": "Xls!HeaderKeyCollision", "KF-C13-08": "Xls!ErrorCellNone"}


def _xls_walk_job(grids):
    import io
    from ..docrun import render
    from ..repo import activate
    activate()
    import warnings
    warnings.simplefilter("ignore")
    import xlrd
    import sharepoint2text
    from ..docmodel import TOKEN_RE
    conv = {"none": lambda c: None, "tok": lambda c: ["s", c[1]], "num": lambda c: ["n", c[1] / 2], "err": lambda c: ["e", "#DIV/0!"]}
    book = {"kind": "book", "sheets": [{"name": f"S{k}", "rows": [[conv[c[0]](c) for c in row] for row in g]}
                                       for k, g in enumerate(grids, start=1)]}
    data = render(book, "xls")

    def seen(cell):          # what xlrd (trusted) reports
        if cell.ctype in (0, 6):
            return ["none", 0]
        if cell.ctype == 1:
            m = TOKEN_RE.fullmatch(cell.value)
            return ["tok", int(m.group(1) or m.group(2) or m.group(3))] if m else ["other", 0]
        if cell.ctype == 2:
            return ["num", int(cell.value * 2)]
        if cell.ctype == 4:
            return ["bool", int(cell.value)]
        if cell.ctype == 5:
            return ["err", 0]
        return ["other", 0]

    def shown(v):            # what the reader returns
        if v is None:
            return ["none", 0]
        if isinstance(v, bool):
            return ["bool", int(v)]
        if isinstance(v, (int, float)):
            return ["num", int(v * 2)]
        if v == "":
            return ["estr", 0]
        if v == "#ERROR":
            return ["errstr", 0]
        m = TOKEN_RE.fullmatch(v)
        if m:
            return ["tok", int(m.group(1) or m.group(2) or m.group(3))]
        if v in ("True", "False"):
            return ["boolstr", int(v == "True")]
        try:
            return ["numstr", int(float(v) * 2)]
        except ValueError:
            return ["other", 0]
    try:
        wb = xlrd.open_workbook(file_contents=data, logfile=io.StringIO())
        r = next(sharepoint2text.read_xls(io.BytesIO(data), "w.xls"))
    except Exception as e:
        return {"exc": f"{type(e).__name__}: {e}"[:200]}
    if wb.nsheets != len(grids) or len(r.sheets) != len(grids):
        return {"exc": f"{len(grids)} sheets written, xlrd {wb.nsheets}, reader {len(r.sheets)}"}
    out = []
    for k in range(len(grids)):
        sh = wb.sheet_by_index(k)
        out.append({"grid": [[seen(sh.cell(i, j)) for j in range(sh.ncols)] for i in range(sh.nrows)],
                    "table": [[shown(c) for c in row] for row in r.sheets[k].get_table()]})
    return {"sheets": out}


def xls_walk_model(ctx):
    """XlsWalk.tla: theorems on all grids up to 3 x 2, one sensitivity run per as-built step, binding of read_xls /
    XlsSheet.get_table to the model on every grid of the universe."""
    from concurrent.futures import ProcessPoolExecutor
    from ..tlaval import iter_dump, to_tla
    from ..docrun import from_tla
    from ..tlc import MachineryError, run_tlc_many
    consts = " MaxRows = 3\n MaxCols = 2\n"
    cfg = f"SPECIFICATION Spec\nCONSTANTS WalkDev = {{}}\n{consts}INVARIANT Inv_Shape\nINVARIANT Inv_InPlace\nPROPERTY Prop_Terminates\n"
    devs = sorted(XLS_DEV.values())
    dump = ctx.scratch / "xlsgen.dump"
    res = run_tlc_many([("XlsWalk", cfg, dict(scratch=ctx.scratch, expect_fail=True, workers=6))]
                       + [("XlsWalk", cfg.replace("WalkDev = {}", f'WalkDev = {{"{dv}"}}'), dict(scratch=ctx.scratch, expect_fail=True, workers=3))
                          for dv in devs]
                       + [("XlsWalk", f"SPECIFICATION GenSpec\nCONSTANTS WalkDev = {{}}\n{consts}", dict(scratch=ctx.scratch, dump=dump, workers=3))],
                       max_parallel=5)
    r, rg = res[0], res[-1]
    ctx.ev.tlc("XlsWalk 3x2: the modelled XLS reader returns an r x c table with every cell in place", r)
    if r.violated:
        ctx.v.violation(what=f"XlsWalk.tla: the strict model violates {r.violated}", observed=r.output[-1500:])
    for dv, rs in zip(devs, res[1:-1]):
        ctx.ev.tlc(f"XlsWalk sensitivity: as-built step {dv} must violate a theorem", rs, note="expected violation")
        if not rs.violated:
            raise MachineryError(f"XlsWalk sensitivity run for {dv} did not fail")
    ctx.ev.tlc("XlsWalk GenSpec: grids", rg)
    grids = sorted((from_tla(st["grid"]) for st in iter_dump(dump)), key=lambda g: json.dumps(g))
    if len(grids) != rg.distinct:
        raise MachineryError(f"XlsWalk dump {len(grids)} != {rg.distinct}")
    if not ctx.thorough and len(grids) > 4000:
        rng = random.Random(ctx.seed)
        small = [g for g in grids if len(g) * len(g[0]) <= 4]
        rest = [g for g in grids if len(g) * len(g[0]) > 4]
        rng.shuffle(rest)
        grids = small + rest[: 4000 - len(small)]
    books = [grids[k:k + 40] for k in range(0, len(grids), 40)]
    with ProcessPoolExecutor(16) as ex:
        obs = list(ex.map(_xls_walk_job, books, chunksize=2))
    traces = []
    for b, o in zip(books, obs):
        if "exc" in o:
            ctx.v.violation(what=f"read_xls failed on a generated workbook of {len(b)} small sheets: {o['exc']}", case={"grids": b[:3]})
            continue
        for g, sh in zip(b, o["sheets"]):
            traces.append({"id": f"xlssheet:{len(traces)}", "hdr": {"fmt": "xls", "doc": {"grid": g}}, "raw": json.dumps(sh["table"])[:300],
                           "ev": [{"a": "XlsSheet", "grid": sh["grid"], "table": sh["table"]}]})

    def cfgfn(dev):
        return f"SPECIFICATION TraceSpec\nCONSTANTS WalkDev = {to_tla(set(dev))}\nCONSTRAINT TraceAccept\n"
    validate_with_findings(ctx, "XlsWalkTrace", traces, XLS_DEV,
                           lambda t, e: "read_xls: the sheet table differs from the model XlsWalk.tla: grid "
                                        f"{json.dumps(e['grid'])[:300]} -> table {json.dumps(e['table'])[:300]}",
                           lambda t: "xls_extractor.py:_read_content / data_types.py:XlsSheet.get_table", cfg=cfgfn)
    ctx.ev.replayed(len(traces))
    for t in traces[:: max(1, len(traces) // 300)]:
        ctx.ev.nontrivial(("xlswalk", t["raw"]))


def run(ctx):
    ev = ctx.ev
    rng = random.Random(ctx.seed)
    jobs, ndocs = build_jobs(ctx, rng, two_block_sample=1400)
    jobs = [j for j in jobs if j["fmt"] in TABLE_FORMATS]
    # documents that hold the SAME table several times (a legend repeated before and after the data, trivial 1 x 1
    # tables): every copy is a table of its own.  Token ids repeat here on purpose (only the table clauses are evaluated).
    from ..docrun import expressible, flow_doc
    def cell(i):
        return [["p", [["r", i]]]]
    legend = ["tbl", [[cell(1), cell(2)], [cell(3), cell(4)]]]
    one = ["tbl", [[cell(5)]]]
    for blocks in ([legend, ["p", [["r", 9]]], legend], [one, ["p", [["r", 9]]], one, ["p", [["r", 8]]], one],
                   [legend, ["p", [["r", 9]]], one, ["p", [["r", 8]]], legend]):
        d = flow_doc(blocks)
        jobs += [{"doc": d, "fmt": f} for f in FLOW_FORMATS if f in TABLE_FORMATS and expressible(d, f)]
    tbl = ["tbl", [[[[["r", 1]]], [[["r", 2]]]], [[[["r", 3]]], [[["r", 4]]]]]]
    deck = {"kind": "deck", "slides": [{"shapes": [tbl, ["text", [[["r", 9]]]], tbl], "notes": []},
                                       {"shapes": [tbl], "notes": []}]}
    jobs += [{"doc": deck, "fmt": f} for f in ("pptx", "odp")]
    # several DIFFERENT tables on one slide (their order is the order of the frames on the slide)
    def tb(a):
        return ["tbl", [[[[["r", a]]], [[["r", a + 1]]]]]]
    deck2 = {"kind": "deck", "slides": [{"shapes": [tb(1), tb(3), tb(5)], "notes": []},
                                        {"shapes": [["title", [["r", 7]]], tb(8), ["text", [[["r", 10]]]], tb(11)], "notes": []}]}
    jobs += [{"doc": deck2, "fmt": f} for f in ("pptx", "odp")]
    # a blank grid (a form to fill in) between other tables: it is a table, and the tables behind it keep their position
    blank = ["tbl", [[[], [], []], [[], [], []]]]
    deck3 = {"kind": "deck", "slides": [{"shapes": [tb(1), blank, tb(3)], "notes": []}, {"shapes": [blank], "notes": []},
                                        {"shapes": [blank, tb(5)], "notes": []}]}
    jobs += [{"doc": deck3, "fmt": f} for f in ("pptx", "odp")]
    def ftb(a):
        return ["tbl", [[cell(a), cell(a + 1)]]]
    for blocks in ([ftb(1), ["p", [["r", 9]]], blank, ["p", [["r", 8]]], ftb(3)], [blank, ["p", [["r", 9]]], ftb(1)]):
        d = flow_doc(blocks)
        jobs += [{"doc": d, "fmt": f} for f in FLOW_FORMATS if f in TABLE_FORMATS and expressible(d, f)]
    ndocs += 8
    ctx.log(f"{ndocs} documents, {len(jobs)} (document, format) extractions")
    traces = run_suite(ctx, jobs, _events, "tables")
    for t in traces:
        if t["ev"][0]["tables"]:
            ev.nontrivial((t["hdr"]["fmt"], json.dumps(t["hdr"]["doc"]["units"])))
    with_t = [t for t in traces if t["ev"][0]["tables"]]
    for t in (with_t or traces)[:: max(1, len(with_t or traces) // 6)]:
        ev.sample({"fmt": t["hdr"]["fmt"], "source_units": [u["blocks"] for u in t["hdr"]["doc"]["units"]],
                   "observed_tables": t["ev"][0]["tables"]})

    def describe(t, e):
        return (f"iterate_tables() of a generated {t['hdr']['fmt']} document does not return the source tables: "
                f"observed {json.dumps(e.get('tables'))[:300]}; "
                f"source units {json.dumps([u['blocks'] for u in t['hdr']['doc']['units']])[:300]}")

    validate_with_findings(ctx, "DocTrace", traces, FINDING_DEV, describe,
                           lambda t: f"{t['hdr']['fmt']} table walker")
    ev.replayed(len(traces))
    typed_values(ctx)
    sheet_walk_model(ctx)
    ods_walk_model(ctx)
    xls_walk_model(ctx)
    ev.set(rule="same TLC-enumerated document suite as C02: tables 1..2 x 1..2 with plain / two-paragraph / empty / "
                "nested-table cells, in lists, content controls and text boxes, on slides; sheets up to 3x3 with empty "
                "cells; non-trivial = at least one table observed",
           exhaustive=bool(ctx.thorough), constants={"table_formats": sorted(TABLE_FORMATS), "documents": ndocs})
    ev.assume("writers are the trusted base", "separate listing of a nested table is DON'T-CARE; padding of ragged rows is "
              "DON'T-CARE; an empty sheet may or may not yield an (empty) table")
