"""C13 -- tables keep their shape and cells.  Spec: Doc.tla (TopTables, CellIds, GridMatches, TablesOK)
validated through DocTrace.tla on the shared document suite; typed spreadsheet values through
SheetTrace (see below)."""
from __future__ import annotations

import json
import random

from ..docsuite import FLOW_FORMATS, MULTI, build_jobs, run_suite, validate_with_findings

FINDING_DEV = {
    "KF-C13-01": "Xlsx!HeaderPlaceholder",
    "KF-C13-02": "Epub!NestedTableGarbles",
    "KF-C13-03": "Xlsx!TableNameRowSkipped",
    "KF-C13-04": "Rtf!NeighbourTablesMerged",
}

TABLE_FORMATS = {"docx", "odt", "html", "mhtml", "epub", "rtf", "pptx", "odp", "xlsx", "ods"}


def _events(j, o):
    if j["fmt"] not in TABLE_FORMATS:
        return None
    return [{"a": "Tables", "tables": o["tables"]}]


def run(ctx):
    ev = ctx.ev
    rng = random.Random(ctx.seed)
    jobs, ndocs = build_jobs(ctx, rng, two_block_sample=700)
    jobs = [j for j in jobs if j["fmt"] in TABLE_FORMATS]
    ctx.log(f"{ndocs} documents, {len(jobs)} (document, format) extractions")
    traces = run_suite(ctx, jobs, _events, "tables")
    for t in traces:
        if t["ev"][0]["tables"]:
            ev.nontrivial((t["hdr"]["fmt"], json.dumps(t["hdr"]["doc"]["units"])))
    with_t = [t for t in traces if t["ev"][0]["tables"]]
    for t in (with_t or traces)[:: max(1, len(with_t or traces) // 6)]:
        ev.sample({"fmt": t["hdr"]["fmt"], "source_units": [u["blocks"] for u in t["hdr"]["doc"]["units"]],
                   "observed_tables": t["ev"][0]["tables"]})

    def describe(t, e):
        return (f"iterate_tables() of a generated {t['hdr']['fmt']} document does not return the source tables: "
                f"observed {json.dumps(e.get('tables'))[:300]}; "
                f"source units {json.dumps([u['blocks'] for u in t['hdr']['doc']['units']])[:300]}")

    validate_with_findings(ctx, "DocTrace", traces, FINDING_DEV, describe,
                           lambda t: f"{t['hdr']['fmt']} table walker")
    ev.replayed(len(traces))
    ev.set(rule="same TLC-enumerated document suite as C02: tables 1..2 x 1..2 with plain / two-paragraph / empty / "
                "nested-table cells, in lists, content controls and text boxes, on slides; sheets up to 3x3 with empty "
                "cells; non-trivial = at least one table observed",
           exhaustive=bool(ctx.thorough), constants={"table_formats": sorted(TABLE_FORMATS), "documents": ndocs})
    ev.assume("writers are the trusted base", "separate listing of a nested table is DON'T-CARE; padding of ragged rows is "
              "DON'T-CARE; an empty sheet may or may not yield an (empty) table")
