"""C07 -- routing.  Spec: specs/Router.tla (+ RouterMeta, RouterGen, RouterTrace).

1. TLC proves on ALL tables over a 3-token universe: entry points agree <=> tables well-formed
   (+ sensitivity run: without WF the equivalence has a counterexample).
2. TLC enumerates the abstract path universe over the tokens of the *running* code's tables
   (+ MIME-only and unknown tokens); every abstract path is concretised (stems, directories,
   case variants, URL / archive-member forms) and pushed through is_supported_file,
   get_extractor and read_file in three worker processes (default / empty / hostile mimetypes).
3. The recorded queries, with the tables exported from the running code as trace header, are
   validated by TLC against RouterTrace (tables WF + documented routes; each observation equal
   to the specification's two algorithms).
"""
from __future__ import annotations

import json
import os
import random
import subprocess
import sys
from pathlib import Path

from .. import PY, VERIF
from ..repo import child_env
from ..tlaval import iter_dump, to_tla
from ..tlc import MachineryError, run_tlc
from ..traces import validate

MIME_ONLY = ["xml", "py", "jpeg", "png", "css", "js", "svg", "wav"]
UNKNOWN = ["xyz", "bak", "tmp", "docxx", "doc_"]
# suffixes the host's mimetypes database treats as a content-encoding over the inner type ("index.html.br") or as
# shorthand for a compound suffix ("x.taz" = "x.tar.gz"): guess_type() then returns (type, encoding)
MIME_ENC = ["br", "taz", "tz"]
# "switch": one process whose mimetypes database changes between queries of the same paths (hostile -> empty ->
# default): an answer must depend on the path, the tables and the database as it is NOW, not on earlier calls
CFGS = ["default", "empty", "hostile", "switch"]


def _export_tables():
    """Run in a fresh interpreter so we read the tables of the current working tree."""
    code = r"""
import json, sys
from sharepoint2text.parsing import router as r
from sharepoint2text.parsing.mime_types import MIME_TYPE_MAPPING
reg = [[k, v[1]] for k, v in r._EXTRACTOR_REGISTRY.items()]
alias = [[k, v] for k, v in r._EXTENSION_ALIASES.items()]
comp = []
for k, v in r._COMPOUND_EXTENSIONS.items():
    parts = k.split('.')
    assert parts[0] == '' and len(parts) == 3, k
    comp.append([parts[1], parts[2], v])
mime = [[k, v] for k, v in MIME_TYPE_MAPPING.items()]
json.dump({"reg": reg, "alias": alias, "comp": comp, "mime": mime}, sys.stdout)
"""
    p = subprocess.run([PY, "-c", code], env=child_env(), capture_output=True, text=True)
    if p.returncode != 0:
        raise MachineryError("cannot export routing tables (binding vanished?):\n" + p.stderr[-1500:])
    return json.loads(p.stdout)


def run(ctx):
    ev, v = ctx.ev, ctx.v
    # ---- 1. meta theorem on all small tables
    meta_cfg = ('SPECIFICATION Spec\nCONSTANTS Tok = {"a", "b", "c"}\n Mimes = {"m1", "m2"}\n'
                ' Guesses = {"", "m1", "m2", "mx"}\n'
                "INVARIANT Inv_WFImpliesEquiv\nINVARIANT Inv_EquivIffWF\nINVARIANT Inv_MimeIndependent\n")
    if not ctx.thorough:
        meta_cfg = meta_cfg.replace('"a", "b", "c"', '"a", "b"')   # 2 tokens quick (c. 2k tables)
    r = run_tlc("RouterMeta", meta_cfg, scratch=ctx.scratch, timeout=1200)
    ev.tlc("RouterMeta: entry points agree <=> tables WF, all tables", r)
    if r.violated:
        v.violation(what=f"RouterMeta: {r.violated} violated on the specification", observed=r.trace[:2])
    sens = meta_cfg.split("INVARIANT")[0] + "INVARIANT Sens_EquivWithoutWF\n"
    r = run_tlc("RouterMeta", sens, scratch=ctx.scratch, expect_fail=True)
    ev.tlc("RouterMeta sensitivity: equivalence without WF must fail", r, note="expected violation")
    if not r.violated:
        raise MachineryError("sensitivity run did not fail: RouterMeta invariant is vacuous")

    # ---- 2. enumerate abstract paths over the running code's tokens
    tables = _export_tables()
    toks = sorted({k for k, _ in tables["reg"]} | {k for k, _ in tables["alias"]} | {"tar"}
                  | set(MIME_ONLY) | set(UNKNOWN) | set(MIME_ENC) | {c[0] for c in tables["comp"]} | {c[1] for c in tables["comp"]})
    max_exts = 2          # (3 was tried for thorough: 45 min and > 9 GB; the compound logic only looks at the last two tokens)
    gen_cfg = f"SPECIFICATION Spec\nCONSTANTS Tok = {to_tla(set(toks))}\n MaxExts = {max_exts}\n"
    dump = ctx.scratch / "router.dump"
    r = run_tlc("RouterGen", gen_cfg, scratch=ctx.scratch, dump=dump, heap="8g")
    ev.tlc("RouterGen: abstract path universe", r)
    paths = sorted((dict(exts=list(s["p"]["exts"]), hidden=s["p"]["hidden"], tail=s["p"]["tail"])
                    for s in iter_dump(Path(str(dump) + ".dump") if not dump.exists() else dump)),
                   key=lambda d: json.dumps(d, sort_keys=True))
    if len(paths) != r.distinct:
        raise MachineryError(f"dump has {len(paths)} states, TLC reported {r.distinct}")
    ctx.log(f"{len(paths)} abstract paths over {len(toks)} tokens")

    # ---- 3. replay in three worker processes (one per mimetypes configuration)
    nvar = 3 if ctx.thorough else 1
    inp = ctx.scratch / "paths.json"
    inp.write_text(json.dumps({"paths": paths, "seed": ctx.seed, "nvar": nvar, "toks": toks}))
    procs = []
    for cfg in CFGS:
        out = ctx.scratch / f"events-{cfg}.json"
        wd = ctx.scratch / f"wd-{cfg}"
        wd.mkdir()
        procs.append((cfg, out, subprocess.Popen(
            [PY, "-m", "mbv.props.c07", "worker", cfg, str(inp), str(out), str(wd)],
            env=child_env(), cwd=str(VERIF), stdout=subprocess.PIPE, stderr=subprocess.PIPE, text=True)))
    traces = []
    for cfg, out, p in procs:
        so, se = p.communicate(timeout=1500)
        if p.returncode != 0:
            raise MachineryError(f"router worker {cfg} failed:\n{se[-2000:]}")
        events = json.loads(out.read_text())
        for k in range(0, len(events), 400):
            traces.append({"id": f"{cfg}:{k}", "hdr": tables, "cfg": cfg,
                           "ev": [{"a": "Tables"}] + events[k:k + 400]})
    n_q = sum(len(t["ev"]) - 1 for t in traces)
    tr_cfg = "SPECIFICATION TraceSpec\nCONSTRAINT TraceAccept\n"
    br = validate("RouterTrace", tr_cfg, traces, scratch=ctx.scratch, parallel=12, min_chunk=4)
    ev.tlc_counts("RouterTrace: recorded queries validated", br.distinct, br.states, br.wall_s)
    for t, tv in zip(traces, br.verdicts):
        if tv.accepted:
            v.ok(tv.length)
            continue
        if tv.reached == 0:
            v.violation(what="routing tables exported from the code are not well-formed or do not route a "
                             "documented extension as documented (README tables)", case={"cfg": t["cfg"]},
                        observed=tables, where="router.py tables / mime_types.py")
        else:
            e = t["ev"][tv.reached] if tv.reached > 0 else {"path": "(prefix not diagnosed)", "sup": "?", "route": "?",
                                                             "rf": "?", "guess": "?"}
            v.violation(what=f"routing observation differs from the specification (mimetypes={t['cfg']}): "
                             f"path={e['path']!r} is_supported={e['sup']} get_extractor={e['route']} "
                             f"read_file={e['rf']} mime-guess={e['guess']!r}",
                        case=e, where="router.py:is_supported_file/get_extractor; __init__.py:read_file")
    ev.replayed(n_q)
    for t in traces:
        for e in t["ev"][1:]:
            if e["sup"]:
                ev.nontrivial((tuple(e["exts"]), e["hidden"], e["tail"], t["cfg"]))
    for t in traces[:: max(1, len(traces) // 6)]:
        ev.sample({"mimetypes": t["cfg"], **{k: t["ev"][len(t["ev"]) // 2][k]
                                             for k in ("path", "exts", "tail", "hidden", "guess", "sup", "route", "rf")}})
    ev.set(rule="abstract paths enumerated by TLC (RouterGen) over every token of the running code's tables + "
                "MIME-only + unknown tokens, x tails x hidden-stem, concretised x 3 case modes x 3 mimetypes "
                "configurations; non-trivial = distinct (abstract path, config) that is supported",
           exhaustive=True,
           constants={"tokens": len(toks), "MaxExts": max_exts, "paths": len(paths), "variants": nvar,
                      "mimetypes_configs": CFGS})
    from .. import pipeline_check
    pipeline_check.run(ctx)        # backbone: routing is the first stage of the composed read_file() machine
    ev.assume("README tables transcribed by hand into Router.tla (Documented)",
              "mimetypes.guess_type is observed (logged as 'guess'), not modelled",
              "extension tokens beyond the tables: 8 MIME-only + 5 unknown representatives")


# --------------------------------------------------------------------------- worker
def _setup_mimetypes(cfg, toks):
    import mimetypes
    mimetypes.init()
    if cfg == "empty":
        mimetypes.init(files=[])
        db = mimetypes._db
        db.types_map = ({}, {})
        db.types_map_inv = ({}, {})
        db.suffix_map = {}
        db.encodings_map = {}
        for m in (mimetypes.types_map, mimetypes.common_types, mimetypes.suffix_map, mimetypes.encodings_map):
            m.clear()
    elif cfg == "hostile":
        from sharepoint2text.parsing.mime_types import MIME_TYPE_MAPPING
        mimes = sorted(MIME_TYPE_MAPPING)
        for i, t in enumerate(sorted(toks)):
            # every third registration is a NON-standard one (strict=False): the library asks the standard table only
            mimetypes.add_type(mimes[(i * 7 + 3) % len(mimes)], "." + t, strict=(i % 3 != 1))
        # site-specific entries for suffixes no extension table knows: a key of the MIME table that contains capitals
        # (exactly as spelt there), and type strings spelt in another case than the table's keys (no key: MIME types
        # are compared as they come)
        capital = [m for m in mimes if m != m.lower()]
        odd = (capital[:2] + ["Text/Plain", "APPLICATION/PDF", "Application/Vnd.Ms-Excel"]) if capital else ["Text/Plain"]
        for i, t in enumerate(t for t in sorted(toks) if t in UNKNOWN or t in MIME_ONLY):
            mimetypes.add_type(odd[i % len(odd)], "." + t, strict=True)


def _case(s, mode, rng):
    if mode == 0:
        return s
    if mode == 1:
        return s.upper()
    return "".join(c.upper() if rng.random() < 0.5 else c for c in s)


STEMS = ["report", "a", "Quarterly Report 2024", "my file", "données", "文書", "x-y_z", "a b#%"]
DIRS = ["", "dir/", "/abs/path/", "d.ir.zip/", "arch.zip!/", "./", "C:\\Users\\x\\", "a.docx/"]


def _worker(cfg, inp, out, wd):
    import mimetypes
    from sharepoint2text.parsing.exceptions import ExtractionFileFormatNotSupportedError
    import sharepoint2text
    from sharepoint2text.parsing import router
    import importlib
    job = json.loads(Path(inp).read_text())
    rng = random.Random(job["seed"] * 1000003 + CFGS.index(cfg))
    phases = ["hostile", "empty", "default", "hostile"] if cfg == "switch" else [cfg]
    _setup_mimetypes(phases[0], job["toks"])
    reg = router._EXTRACTOR_REGISTRY
    real = {}
    for ft, (mod, fn) in reg.items():
        real[fn] = getattr(importlib.import_module(mod), fn)

    def route_of(path):
        try:
            f = router.get_extractor(path)
        except ExtractionFileFormatNotSupportedError:
            return "NotSupported"
        except Exception as e:  # wrong exception type
            return "Other:" + type(e).__name__
        name = getattr(f, "__name__", "?")
        if real.get(name) is not f:
            return "Foreign:" + name
        return name

    events = []
    if cfg == "switch":
        # the same concrete paths are asked again after every change of the database (routes decided by MIME only are
        # the interesting ones: single-token paths and every path whose last token is in no extension table)
        sample = [ap for ap in job["paths"] if len(ap["exts"]) <= 1 or ap["exts"][-1] in set(MIME_ONLY) | set(UNKNOWN) | set(MIME_ENC)]
        concrete = []
        for ap in sample:
            stem = "" if ap["hidden"] else rng.choice(STEMS)
            conc_tail = {"": "", ".": ".", " ": " ", "?q": "?x=1", "/b": "/b", "/": "/", "/.": "/.", "//": "//"}[ap["tail"]]
            d = rng.choice(["", "dir/", "/abs/path/"])
            concrete.append((ap, _case(d + stem + "".join("." + t for t in ap["exts"]), rng.choice((0, 1)), rng) + conc_tail))
        # small blocks (single paths first, then 40 at a time): a memo of any size sees the same path again soon
        rng.shuffle(concrete)
        blocks = [concrete[k:k + 1] for k in range(0, min(120, len(concrete)))]
        blocks += [concrete[k:k + 40] for k in range(120, len(concrete), 40)]
        for ph_no, ph, block in [(n, ph, bl) for bl in blocks for n, ph in enumerate(phases)]:
            _setup_mimetypes(ph, job["toks"])
            for ap, path in block:
                guess = mimetypes.guess_type(path.lower())[0] or ""
                try:
                    sup = bool(router.is_supported_file(path))
                except Exception as e:
                    sup = "Other:" + type(e).__name__
                events.append({"a": "Query", "path": path, "exts": ap["exts"], "hidden": ap["hidden"], "tail": ap["tail"],
                               "case": ph_no, "guess": guess, "sup": sup, "route": route_of(path), "rf": "n/a"})
        Path(out).write_text(json.dumps(events))
        return
    for ap in job["paths"]:
        for _ in range(job["nvar"]):
            for mode in (0, 1, 2, 3):
                # a hidden name has nothing but dots in front of its extension (".docx", "..docx", "...docx")
                stem = rng.choice(["", "", ".", ".."]) if ap["hidden"] else rng.choice(STEMS)
                tail = ap["tail"]
                exts = list(ap["exts"])
                if mode == 3:
                    # letters with special case mappings in the last extension: LONG S (lower() keeps it, casefold() / upper()
                    # make it an s: the token is in no table), KELVIN SIGN (lower() gives k: the token is unchanged),
                    # I WITH DOT ABOVE (lower() gives two characters: in no table)
                    if not exts:
                        continue
                    t = exts[-1]
                    if "s" in t:
                        spelt, exts[-1] = t.replace("s", "\u017f", 1), t + "~"
                    elif "k" in t:
                        spelt = t.replace("k", "\u212a", 1)
                    elif "i" in t:
                        spelt, exts[-1] = t.replace("i", "\u0130", 1), t + "~"
                    else:
                        continue
                d = rng.choice(DIRS)
                if ap["hidden"] and not d.endswith("/"):
                    d = ""        # a backslash is not a separator here: the stem would not be empty
                url = tail == "?q" and rng.random() < 0.5
                if url:
                    d = "https://host.example/" + rng.choice(["", "sites/a.b/"])
                name = stem + "".join("." + t for t in ap["exts"])
                conc_tail = {"": "", ".": ".", " ": " ", "?q": "?x=1", "/b": "/" + rng.choice(["b", "README", "файл"]),
                             "/": "/", "/.": "/.", "//": "//"}[tail]
                if mode == 3:
                    path = d + stem + "".join("." + t for t in ap["exts"][:-1]) + "." + spelt + conc_tail
                else:
                    path = _case(d + name, mode, rng) + conc_tail
                lower = path.lower()
                guess = mimetypes.guess_type(lower)[0] or ""
                try:
                    sup = bool(router.is_supported_file(path))
                except Exception as e:
                    sup = "Other:" + type(e).__name__
                route = route_of(path)
                events.append({"a": "Query", "path": path, "exts": exts, "hidden": ap["hidden"],
                               "tail": ap["tail"], "case": mode, "guess": guess, "sup": sup, "route": route,
                               "rf": None})
    # path strings without any extension that the MIME database nevertheless types: RFC 2397 data: URLs
    if cfg != "switch":
        for k, mt in enumerate(["text/plain", "text/html", "application/pdf", "image/png", "application/x-unknown", "text/csv",
                                "application/vnd.openxmlformats-officedocument.wordprocessingml.document", "TEXT/PLAIN"]):
            for scheme in ("data:", "DATA:", "Data:"):
                path = scheme + mt + (";base64,aGVsbG8=" if k % 2 else ",hello")
                guess = mimetypes.guess_type(path.lower())[0] or ""
                try:
                    sup = bool(router.is_supported_file(path))
                except Exception as e:
                    sup = "Other:" + type(e).__name__
                events.append({"a": "Query", "path": path, "exts": [], "hidden": False, "tail": "", "case": 0, "guess": guess,
                               "sup": sup, "route": route_of(path), "rf": "n/a"})
    # phase 2: read_file dispatch, with every registered extractor replaced by a recording stub
    seen = []

    def mk(name):
        def stub(stream, path=None):
            seen.append(name)
            return iter(())
        stub.__name__ = name
        return stub
    for ft, (mod, fn) in reg.items():
        setattr(importlib.import_module(mod), fn, mk(fn))
    os.chdir(wd)
    nfile = 0
    for e in events:
        path = e["path"]
        if "://" in path or path.startswith("/") or "\\" in path or "\x00" in path or len(path) > 200 \
                or path.endswith("/") or path in ("", ".", ".."):
            e["rf"] = "n/a"
            continue
        # Path() normalisation must not change the string, or read_file legitimately sees another path
        if str(Path(path)) != path:
            e["rf"] = "n/a"
            continue
        try:
            fp = Path(wd) / path
            if fp.is_dir():          # an earlier path used this name as a directory ("a.docx/report"): no file can have it
                e["rf"] = "n/a"
                continue
            fp.parent.mkdir(parents=True, exist_ok=True)
            if not fp.exists() and not fp.is_symlink():
                nfile += 1
                if nfile % 4 == 0:
                    # the path is a symbolic link to a blob with another (or no) extension, as in content-addressed
                    # stores: routing must follow the path that was given, not the link target
                    store = Path(wd) / ".store"
                    store.mkdir(exist_ok=True)
                    target = store / (f"blob{nfile}" + ("", ".html", ".bin", ".pdf")[(nfile // 4) % 4])
                    target.write_bytes(b"x")
                    fp.symlink_to(target)
                else:
                    fp.write_bytes(b"x")
        except OSError:
            e["rf"] = "n/a"
            continue
        del seen[:]
        try:
            list(sharepoint2text.read_file(path))
            e["rf"] = seen[0] if len(seen) == 1 else "Multiple:%d" % len(seen)
        except ExtractionFileFormatNotSupportedError:
            e["rf"] = "NotSupported"
        except Exception as ex:
            e["rf"] = "Other:" + type(ex).__name__
    Path(out).write_text(json.dumps(events))


if __name__ == "__main__":
    if sys.argv[1] == "worker":
        _worker(*sys.argv[2:6])
