"""C15 -- isolation: results independent of history and of concurrent work.
Specs: specs/PatchSection.tla (+ PatchSectionTrace.tla), specs/Globals.tla.   Binding: mbv/c15_sched.py, mbv/c15_docs.py.

A. TLC theorems: PatchSection with the lock (3 threads x 2 calls, bodies may raise): Residue, BodySeesOwn,
   Depth, Mutex, Progress hold; sensitivity: without the lock Residue fails (the pinned tree's race), with
   the restore outside `finally` Residue fails.  Globals (history machines) with Deviations = {}:
   HistoryIndependent and ResidueFree hold on all histories; one sensitivity run per named deviation.
B. spec -> code: TLC enumerates every interleaving (PatchSection, UseLock = FALSE, history variable `sched`):
   k = 2 x 1 call (70, all, x 4 raise patterns), k = 2 x 2 calls (12,870) and k = 3 x 1 call (34,650)
   (all in thorough, VERIF_SEED-selected subsets in quick).  A deterministic scheduler runs real threads
   through the real _patched_build_char_map() along each schedule; yield points are the
   __getattribute__/__setattr__ of a ModuleType subclass swapped into pypdf._page plus proxies of the
   extractor's module-level locks.  The recorded steps (Get/Set/Body/Blocked/Quiescent with wrapper-chain
   projections) are validated by TLC against PatchSectionTrace with UseLock = TRUE.
C. code -> spec: free-running stress (8 threads, switch interval 1e-6, PDFs incl. failing ones and
   digit-font documents whose text depends on the patch): recorded get/set events validated by TLC; then
   residue (pypdf function identity) and per-document to_json digests against an isolated baseline
   (one fresh process per document; a document that ever differs is re-measured twice in isolation and
   left out if its isolated result is not reproducible, e.g. xlsx "created" = now).
D. histories: TLC enumerates all histories over the abstract document classes of Globals.tla
   (font x glyph-set in subset/superset/overlap/disjoint relation, AES trigger, AES user, plain, failing input,
   restore-a-stored-extraction); each runs
   in a fresh process on generated documents (all glyphs shown: resolved and overwritten glyphs observable);
   plus seeded orders over all fixtures (mixed formats, failing inputs).  Recorded Extract/Residue events
   are validated by TLC against the reference model (Deviations = {}); a rejected history is a
   KNOWN-FINDING only if it lies in the domain of an open finding and TLC accepts it under exactly that
   deviation (as-built model), otherwise a VIOLATION.
E. controlled interleavings of two AES-encrypted PDFs (yield points: CryptAES init/decrypt of the fallback, via
   sys.monitoring) - each thread's digest must equal its isolated one; GlobalsRoundKeys.tla: the shared round-key
   LRU cache, witness schedule replayed on the real _get_round_keys and validated by TLC (KF-C15-02 while open).
   History `by-format`: per format refused inputs first, then every healthy document twice (state that outlives a
   parser / reader instance).
"""
from __future__ import annotations

import hashlib
import json
import os
import random
import re
import subprocess
import sys
import time
from concurrent.futures import ThreadPoolExecutor
from pathlib import Path

from .. import PY, REPO, VERIF
from ..repo import child_env
from ..tlaval import iter_dump
from ..tlc import MachineryError, run_tlc
from ..traces import validate

KF_AES = "KF-C15-01"
KF_RK = "KF-C15-02"
RK_CONST = "CONSTANTS Threads = {1,2}\n Keys = {1,2,3,4,5,6}\n Cap = 4\n Calls = 2\n Deviations = {%s}\n"    # traces
RK_MODEL = "CONSTANTS Threads = {1,2}\n Keys = {1,2,3}\n Cap = 2\n Calls = 3\n Deviations = {%s}\n"          # theorem
PS_CONST = ("CONSTANTS Threads = {%s}\n Calls = %d\n UseLock = %s\n RestoreOnRaise = %s\n"
            " BodyMayRaise = %s\n TrackSched = %s\n")
# glyph-id sets of one font in subset / superset / overlapping / disjoint relation
FONT_UNIVERSE = {"fonts": ["f", "g"], "gids": [[1, 2], [1, 2, 3], [2, 3], [3, 4]]}
MAX_REPORT = 6


def _ps_cfg(k, calls, lock, ror=True, raises=True, track=False, invs=()):
    b = lambda x: "TRUE" if x else "FALSE"   # noqa
    return ("SPECIFICATION Spec\n" + PS_CONST % (",".join(map(str, range(1, k + 1))), calls, b(lock), b(ror),
                                                 b(raises), b(track))
            + "".join(f"INVARIANT {i}\n" for i in invs))


def _gl_cfg(dev, maxlen, invs=()):
    return ("SPECIFICATION Spec\nCONSTANTS Deviations = {%s}\n Fonts = {%s}\n GidSets = {%s}\n MaxLen = %d\n"
            % (",".join(f'"{d}"' for d in dev), ",".join(f'"{f}"' for f in FONT_UNIVERSE["fonts"]),
               ",".join("{" + ",".join(map(str, g)) + "}" for g in FONT_UNIVERSE["gids"]), maxlen)
            + "".join(f"INVARIANT {i}\n" for i in invs))


def _spawn(args, timeout=1500):
    p = subprocess.run([PY, "-m", "mbv.props.c15", *map(str, args)], env=child_env(), cwd=str(VERIF),
                       capture_output=True, text=True, timeout=timeout)
    if p.returncode != 0:
        raise MachineryError(f"c15 worker {args[0]} failed (rc={p.returncode}):\n{p.stderr[-2500:]}")
    return p


# =========================================================================== driver
def run(ctx):
    ev, v = ctx.ev, ctx.v
    rng = random.Random(ctx.seed * 7919 + 15)
    sc = ctx.scratch
    nproc = 8
    t00 = time.time()

    def lap(what):
        ctx.log(f"{what}: t+{time.time() - t00:.1f}s")

    # --replay <file>: re-run exactly the schedule / history of a recorded violation
    rp_sched = rp_docs = None
    if getattr(ctx, "replay", None):
        case = json.loads(Path(ctx.replay).read_text()).get("case") or {}
        if "sched" in case:
            rp_sched = (case["k"], case["calls"], case["sched"], case["raises"])
        elif "docs" in case:
            rp_docs = list(case["docs"])
        else:
            ctx.log("replay file names no schedule or history (stress runs are not reproducible): full check")
    partial = rp_sched is not None or rp_docs is not None

    # ---------------------------------------------------------------- A. theorems + sensitivity
    ALL = ("TypeOK", "Residue", "BodySeesOwn", "Depth", "Mutex", "Progress")
    jobs = {
        "ps_locked": lambda: run_tlc("PatchSection", _ps_cfg(3, 2, True, invs=ALL), scratch=sc, workers=2),
        "ps_nolock": lambda: run_tlc("PatchSection", _ps_cfg(3, 1, False, invs=("Residue",)), scratch=sc,
                                     expect_fail=True, workers=2),
        "ps_nofinally": lambda: run_tlc("PatchSection", _ps_cfg(2, 1, True, ror=False, invs=("Residue",)),
                                        scratch=sc, expect_fail=True, workers=1),
        "gl_ref": lambda: run_tlc("Globals", _gl_cfg([], 3, ("HistoryIndependent", "ResidueFree", "CacheShape")),
                                  scratch=sc, workers=2),
        "gl_font": lambda: run_tlc("Globals", _gl_cfg(["FontCacheKeyedByFontOnly"], 3, ("HistoryIndependent",)),
                                   scratch=sc, expect_fail=True, workers=1),
        "gl_super": lambda: run_tlc("Globals", _gl_cfg(["FontCacheSupersetReuse"], 3, ("HistoryIndependent",)),
                                    scratch=sc, expect_fail=True, workers=1),
        "gl_reg": lambda: run_tlc("Globals", _gl_cfg(["RegistryFilledBySerialize"], 3, ("HistoryIndependent",)),
                                  scratch=sc, expect_fail=True, workers=1),
        "rk_ref": lambda: run_tlc("GlobalsRoundKeys", "SPECIFICATION Spec\n" + RK_MODEL % "" +
                                  "INVARIANT NoError\nINVARIANT TypeOK\n", scratch=sc, workers=2),
        "rk_dev": lambda: run_tlc("GlobalsRoundKeys", "SPECIFICATION Spec\n" + RK_MODEL % '"UnguardedMoveToEnd"' +
                                  "INVARIANT NoError\n", scratch=sc, expect_fail=True, workers=2),
        "gl_aes": lambda: run_tlc("Globals", _gl_cfg(["PermanentAesPatch", "AesPatchOnlyOnOpenFailure"], 3,
                                                     ("HistoryIndependent",)),
                                  scratch=sc, expect_fail=True, workers=1),
        "gl_aes_res": lambda: run_tlc("Globals", _gl_cfg(["PermanentAesPatch"], 3, ("ResidueFree",)),
                                      scratch=sc, expect_fail=True, workers=1),
    }
    # enumeration of interleavings (history variable): each complete state is one schedule
    enum = [(2, 1), (2, 2), (3, 1)]
    for k, c in enum:
        jobs[f"enum{k}{c}"] = (lambda k=k, c=c: run_tlc(
            "PatchSection", _ps_cfg(k, c, False, raises=False, track=True), scratch=sc,
            dump=sc / f"sched-{k}-{c}.dump", heap="6g", workers=4))
    hist_len = 3 if ctx.thorough else 2
    jobs["gl_enum"] = lambda: run_tlc("Globals", _gl_cfg([], hist_len), scratch=sc, dump=sc / "hist.dump", workers=1)
    with ThreadPoolExecutor(6) as ex:
        futs = {n: ex.submit(f) for n, f in jobs.items()}
        res = {n: f.result() for n, f in futs.items()}
    lap("TLC theorem / sensitivity / enumeration runs")
    ev.tlc("PatchSection UseLock=TRUE, 3 threads x 2 calls, bodies may raise: all invariants", res["ps_locked"])
    if res["ps_locked"].violated:
        v.violation(what=f"PatchSection: {res['ps_locked'].violated} violated on the reference design",
                    observed=res["ps_locked"].trace[-3:])
    for n, inv, note in (("ps_nolock", "Residue", "UseLock=FALSE (pinned tree's design): Residue must fail"),
                         ("ps_nofinally", "Residue", "RestoreOnRaise=FALSE: Residue must fail"),
                         ("gl_font", "HistoryIndependent", "FontCacheKeyedByFontOnly: HistoryIndependent must fail"),
                         ("gl_super", "HistoryIndependent", "FontCacheSupersetReuse: HistoryIndependent must fail"),
                         ("gl_reg", "HistoryIndependent", "RegistryFilledBySerialize: HistoryIndependent must fail"),
                         ("gl_aes", "HistoryIndependent", "PermanentAesPatch + AesPatchOnlyOnOpenFailure (pinned "
                                                          "tree): HistoryIndependent must fail"),
                         ("gl_aes_res", "ResidueFree", "PermanentAesPatch: ResidueFree must fail")):
        ev.tlc("sensitivity " + note, res[n], note="expected violation")
        if res[n].violated != inv:
            raise MachineryError(f"sensitivity run {n} did not fail on {inv}: invariant is vacuous")
    ev.tlc("GlobalsRoundKeys (guarded LRU update): NoError, 2 threads x 3 calls x 3 keys, capacity 2", res["rk_ref"])
    if res["rk_ref"].violated:
        v.violation(what=f"GlobalsRoundKeys: {res['rk_ref'].violated} violated on the reference design",
                    observed=res["rk_ref"].trace[-3:])
    ev.tlc("sensitivity UnguardedMoveToEnd: NoError must fail", res["rk_dev"], note="expected violation")
    if res["rk_dev"].violated != "NoError":
        raise MachineryError("sensitivity run rk_dev did not fail on NoError")
    ev.tlc("Globals Deviations={}: HistoryIndependent, ResidueFree on all histories of length <= 3", res["gl_ref"])
    if res["gl_ref"].violated:
        v.violation(what=f"Globals: {res['gl_ref'].violated} violated on the reference design",
                    observed=res["gl_ref"].trace[-3:])

    # ---------------------------------------------------------------- B. spec -> code replay of schedules
    sched_jobs = []
    counts = {}
    for k, c in enum:
        r = res[f"enum{k}{c}"]
        ev.tlc(f"PatchSection interleavings k={k} calls={c} (history variable)", r)
        dump = sc / f"sched-{k}-{c}.dump"
        if not dump.exists():
            dump = Path(str(dump) + ".dump")
        # every step appends its thread to `sched` and every call has exactly 4 observable steps, so the
        # complete interleavings are the states whose history has full length (regex: 110k states in < 1 s)
        text = dump.read_text()
        if text.count("\nState ") + text.startswith("State ") != r.distinct:
            raise MachineryError(f"dump {dump.name} does not hold the {r.distinct} states TLC reported")
        scheds = [[int(x) for x in m.split(",")] for m in re.findall(r"sched = <<([0-9,\s]*)>>", text)
                  if m.strip()]
        scheds = [x for x in scheds if len(x) == 4 * k * c]
        scheds.sort()
        counts[(k, c)] = len(scheds)
        if not scheds:
            raise MachineryError(f"no complete schedule in the dump for k={k} calls={c}")
        if (k, c) == (2, 1):
            for s in scheds:                                   # all 70 x all raise patterns
                for pat in range(4):
                    sched_jobs.append((k, c, s, [[bool(pat & 1)], [bool(pat & 2)]]))
        else:
            if not ctx.thorough:
                scheds = rng.sample(scheds, min(len(scheds), 700 if (k, c) == (2, 2) else 2000))
            for s in scheds:
                sched_jobs.append((k, c, s, [[rng.random() < 0.25 for _ in range(c)] for _ in range(k)]))
    if partial:
        sched_jobs = [rp_sched] if rp_sched else []
    ctx.log(f"schedules enumerated by TLC: {counts}; replaying {len(sched_jobs)}")
    lap("dumps parsed")
    rng.shuffle(sched_jobs)
    parts = [sched_jobs[i::nproc] for i in range(nproc)]
    for i, part in enumerate(parts):
        (sc / f"replay-{i}.in.json").write_text(json.dumps(part))

    # ---------------------------------------------------------------- documents + isolated baseline
    from .. import c15_docs
    docdir = sc / "docs"
    docdir.mkdir()
    res_root = REPO / "sharepoint2text" / "tests" / "resources"
    if not (res_root / "pdf" / "sample.pdf").exists():
        raise MachineryError(f"fixtures not found under {res_root}")
    docs = {}                                                   # id -> {path, cls, f, g}
    for p in sorted(res_root.rglob("*")):
        if p.is_file():
            docs["fx:" + str(p.relative_to(res_root))] = {"path": str(p), "cls": "plain", "f": "", "g": []}
    for name, data in c15_docs.failing_pdfs().items():
        (docdir / name).write_bytes(data)
        docs["gen:" + name] = {"path": str(docdir / name), "cls": "plain", "f": "", "g": []}
    (docdir / "truncated.docx").write_bytes((res_root / "modern_ms" / "headings.docx").read_bytes()[:3000])
    docs["gen:truncated.docx"] = {"path": str(docdir / "truncated.docx"), "cls": "plain", "f": "", "g": []}
    for name, data in c15_docs.archive_docs().items():          # healthy / damaged 7z, truncated tar.gz, damaged zip
        (docdir / name).write_bytes(data)
        docs["gen:" + name] = {"path": str(docdir / name), "cls": "plain", "f": "", "g": []}
    for name, data in c15_docs.escaping_7z_docs(_abs_dir(sc / "docs.json")).items():   # stream-less entries that
        (docdir / name).write_bytes(data)                                               # name a place outside
        docs["gen:" + name] = {"path": str(docdir / name), "cls": "plain", "f": "", "g": []}
    round5 = dict(c15_docs.office_docs())                      # formula-heavy docx/pptx, nested / large tables
    round5.update(c15_docs.odf_docs())                         # ODF failing mid-paragraph + small healthy ODF
    from .. import docrun                                       # (read-only reuse) one rich document per format
    for fmt_ in ("doc", "docx", "odt", "html", "mhtml", "epub", "rtf", "pptx", "odp", "odg", "xls", "xlsx", "ods", "pdf",
                 "txt", "md", "csv", "tsv", "json", "ppt", "odf"):
        for seed_ in (0, 1):
            try:
                round5[f"rich-{seed_}.{fmt_}"] = docrun.render(docrun.rich_doc(fmt_, seed_), fmt_)
            except Exception as e:  # noqa: a writer of another property changed: not this check's business
                ctx.log(f"rich document {fmt_}/{seed_} not rendered: {e!r}")
    for name, data in round5.items():
        (docdir / name).write_bytes(data)
        docs["gen:" + name] = {"path": str(docdir / name), "cls": "plain", "f": "", "g": []}
    # 7z with duplicate member names (one extraction pass per duplicate; also with a failure in a later / the
    # first pass), a 7z inside a zip, a mail with such attachments
    for name, data in c15_docs.rare_path_archives().items():
        (docdir / name).write_bytes(data)
        docs["gen:" + name] = {"path": str(docdir / name), "cls": "plain", "f": "", "g": []}
    round4 = dict(c15_docs.markup_docs())                      # sloppy / clean html, mhtml, epub
    round4.update(c15_docs.repacked_variants(res_root))        # second documents sharing all part names
    round4["enc-header.7z"] = c15_docs.make_7z_encrypted_header()      # refused: header flagged 7zAES
    round4["unsupported.xyz"] = b"no extractor for this\n"
    for name, data in round4.items():
        (docdir / name).write_bytes(data)
        docs["gen:" + name] = {"path": str(docdir / name), "cls": "plain", "f": "", "g": []}
    for tag, path in sorted(c15_docs.make_stored_json(docdir, res_root).items()):      # stored extractions
        docs["deser:" + tag] = {"path": str(path), "cls": "deser", "f": tag, "g": []}
    for f in FONT_UNIVERSE["fonts"]:
        for g in FONT_UNIVERSE["gids"]:
            name = f"font-{f}-{'.'.join(map(str, g))}.pdf"
            (docdir / name).write_bytes(c15_docs.font_doc(f, g))
            docs[f"font:{f}:{'.'.join(map(str, g))}"] = {"path": str(docdir / name), "cls": "font", "f": f, "g": g}
    aes = c15_docs.make_aes_pdfs(docdir, res_root / "pdf" / "sample.pdf")
    if aes:
        docs["aesT"] = {"path": str(aes["aes256"]), "cls": "aesT", "f": "", "g": []}
        docs["aesU"] = {"path": str(aes["aes128"]), "cls": "aesU", "f": "", "g": []}
        for k_, p_ in sorted(c15_docs.make_aes_image_pdfs(docdir, res_root).items()):
            docs[k_] = {"path": str(p_), "cls": "aesU", "f": "", "g": []}      # AES-128, page with image XObjects
    else:
        ev.assume("pypdf does not run on its fallback crypto provider here: AES history classes not exercised")
    (sc / "docs.json").write_text(json.dumps(docs))

    # start replay + stress + baseline workers together
    n_stress = 0 if partial else (6 if ctx.thorough else 2)
    pdf_ids = [d for d in docs if d.startswith("fx:pdf/") or d.startswith("gen:") and d.endswith(".pdf")]
    pdf_ids += ["font:f:1.2", "font:g:3.4"]                     # distinct fonts: no font-cache interaction here
    for i in range(n_stress):
        (sc / f"stress-{i}.in.json").write_text(json.dumps({
            "seed": ctx.seed * 101 + i, "threads": 8, "per_thread": 14 if ctx.thorough else 7,
            "tmp": str(sc / f"tmp-stress-{i}"),
            "docs": {d: docs[d] for d in pdf_ids}}))
    doc_ids = sorted(docs) if not partial else sorted(set(rp_docs or []) & set(docs))
    if rp_docs and len(doc_ids) != len(set(rp_docs)):
        raise MachineryError(f"replay names documents that do not exist here: {sorted(set(rp_docs) - set(docs))}")
    with ThreadPoolExecutor(nproc + n_stress + 4) as ex:
        f_replay = [ex.submit(_spawn, ["replay", sc / f"replay-{i}.in.json", sc / f"replay-{i}.out.json"])
                    for i in range(nproc)]
        f_stress = [ex.submit(_spawn, ["stress", sc / f"stress-{i}.in.json", sc / f"stress-{i}.out.json"])
                    for i in range(n_stress)]
        f_aes = None
        if "aesimg1" in docs and not partial:
            (sc / "aes.in.json").write_text(json.dumps({"seed": ctx.seed, "random": 8 if ctx.thorough else 2,
                                                        "docs": [docs["aesimg1"]["path"], docs["aesimg2"]["path"]]}))
            f_aes = ex.submit(_spawn, ["aes", sc / "aes.in.json", sc / "aes.out.json"])
        f_conc = []
        if not partial:
            fams = {}
            for d in sorted(docs):
                if docs[d]["cls"] in ("plain", "font") and "deepspans" not in d:
                    fams.setdefault(_family(docs[d]["path"]), {})[d] = docs[d]["path"]
            for fam, members in sorted(fams.items()):
                (sc / f"conc-{fam}.in.json").write_text(json.dumps({
                    "seed": ctx.seed, "family": fam, "docs": members, "threads": 6, "reps": 3 if ctx.thorough else 2,
                    "tmp": str(sc / f"tmp-conc-{fam}")}))
                f_conc.append((fam, ex.submit(_spawn, ["conc", sc / f"conc-{fam}.in.json", sc / f"conc-{fam}.out.json"])))
        f_base = [ex.submit(_spawn, ["base", sc / "docs.json", d, sc / f"tmp-base-{i}"])
                  for i, d in enumerate(doc_ids)]
        for f in f_replay + f_stress + ([f_aes] if f_aes else []) + [f for _, f in f_conc]:
            f.result()
    conc_out = {fam: json.loads((sc / f"conc-{fam}.out.json").read_text()) for fam, _ in f_conc}
    if True:
        base_out = [json.loads(f.result().stdout.strip().splitlines()[-1]) for f in f_base]
    lap("replay, stress and baseline workers")
    baseline = dict(zip(doc_ids, base_out))
    dirty = [d for d, a in baseline.items() if not (a["cfg"] and a["tmp"] and a["fds"] and a["fns"] and a["reg"] != "partial")]
    for d, a in baseline.items():
        if d in dirty[:MAX_REPORT]:
            v.violation(what=f"a single extraction in a fresh process leaves residue: document {d}: "
                             f"config unchanged={a['cfg']} temp root unchanged={a['tmp']} ({a.get('tmp_new')}) "
                             f"no new open files={a['fds']} ({a.get('fds_new')}) third-party functions "
                             f"unchanged={a['fns']} ({a.get('fns_changed')}) type registry={a['reg']}; "
                             f"{len(dirty)} documents do",
                        case={"doc": d}, where="extractor of that format")
        if a["patches"] and docs[d]["cls"] == "plain":
            docs[d]["cls"] = "aesT"                             # a fixture that triggers the AES patch
        elif docs[d]["cls"] == "plain" and a["sig"].startswith("EXC:"):
            docs[d]["cls"] = "fail"                             # failing input (class of Globals.tla)
        if docs[d]["cls"] == "deser" and not a["sig"].startswith("OK:"):
            raise MachineryError(f"stored extraction {d} cannot be restored in a fresh process: {a['sig'][:200]}")
    if not partial and docs.get("gen:damaged-folder2.7z", {}).get("cls") != "fail":
        raise MachineryError("the 7z with a damaged second folder does not fail: failing-archive workload lost")
    if "aesT" in baseline and not baseline["aesT"]["patches"]:
        raise MachineryError("generated AES-256 PDF does not trigger the AES patch in isolation: model class wrong")

    # ---- B verdicts: validate the replayed schedules with TLC (UseLock = TRUE)
    traces = []
    for i in range(nproc):
        traces += json.loads((sc / f"replay-{i}.out.json").read_text())
    tr_cfg = ("SPECIFICATION TraceSpec\nCONSTRAINT TraceAccept\n"
              + PS_CONST % ("1,2,3,4,5,6,7,8", 1000000, "TRUE", "TRUE", "TRUE", "FALSE"))
    bad_note = [t for t in traces if t["hdr"]["note"] != "-"]
    for t in bad_note[:MAX_REPORT]:
        v.violation(what=f"patch section under schedule {t['hdr']['sched']} (k={t['hdr']['k']}, "
                         f"calls={t['hdr']['calls']}): {t['hdr']['note']} ({len(bad_note)} such schedules)",
                    case=t["hdr"], observed=t["ev"][-6:], where="pdf_extractor.py:_patched_build_char_map")
    good = [t for t in traces if t["hdr"]["note"] == "-"]
    br = validate("PatchSectionTrace", tr_cfg, good, scratch=sc, parallel=12, min_chunk=100, diagnose=3)
    ev.tlc_counts("PatchSectionTrace: replayed schedules validated (UseLock=TRUE)", br.distinct, br.states, br.wall_s)
    n_rej = len(br.rejected)
    shown = 0
    for t, tv in zip(good, br.verdicts):
        if tv.accepted:
            v.ok(1)
            if any(e["a"] == "Blocked" for e in t["ev"]):
                ev.nontrivial((t["hdr"]["k"], t["hdr"]["calls"], tuple(t["hdr"]["sched"])))
            continue
        if tv.reached < 0 or shown >= MAX_REPORT:
            continue
        shown += 1
        e = t["ev"][tv.reached] if tv.reached < len(t["ev"]) else None
        v.violation(what=f"schedule {t['hdr']['sched']} of {t['hdr']['k']} threads through the real "
                         f"_patched_build_char_map(): step {tv.reached + 1} {e} is not a step of PatchSection "
                         f"with the lock (or breaks Residue/BodySeesOwn/Depth); {n_rej} of {len(good)} replayed "
                         f"schedules rejected",
                    case=t["hdr"], expected="a behaviour of PatchSectionTrace (UseLock=TRUE, RestoreOnRaise=TRUE)",
                    observed=t["ev"][max(0, tv.reached - 6): tv.reached + 2],
                    where="pdf_extractor.py:_patched_build_char_map")
    if n_rej and not shown:
        v.violation(what=f"{n_rej} replayed schedules rejected by PatchSectionTrace", where="pdf_extractor.py")
    ev.replayed(len(traces))
    for t in good[:3]:
        ev.sample({"schedule": t["hdr"], "events": t["ev"][:14]})

    lap("replayed schedules validated")
    # ---- C verdicts: stress
    s_traces, s_meta = [], []
    for i in range(n_stress):
        o = json.loads((sc / f"stress-{i}.out.json").read_text())
        s_traces.append({"id": f"stress-{i}", "hdr": {"k": 8}, "ev": o["events"]})
        s_meta.append(o)
    br = validate("PatchSectionTrace", tr_cfg, s_traces, scratch=sc, parallel=n_stress, min_chunk=1, diagnose=3)
    ev.tlc_counts("PatchSectionTrace: free-running stress traces validated", br.distinct, br.states, br.wall_s)
    for t, tv, o in zip(s_traces, br.verdicts, s_meta):
        if tv.accepted:
            v.ok(1)
        else:
            r_ = max(tv.reached, 0)
            v.violation(what=f"free-running stress (8 threads): recorded event {r_ + 1} of {len(t['ev'])} "
                             f"{t['ev'][r_] if r_ < len(t['ev']) else None} is not a step of PatchSection with the "
                             f"lock: patch sections of different threads interleave",
                        case={"stress": t["id"]}, observed=t["ev"][max(0, r_ - 6): r_ + 2],
                        where="pdf_extractor.py:_patched_build_char_map")
        if o["residue_chain"] != [] or not o["identity"]:
            v.violation(what=f"after the stress run pypdf._page.build_char_map is not pypdf's function any more: "
                             f"wrapper chain depth {len(o['residue_chain'])}, name {o['name']!r}",
                        case={"stress": t["id"]}, expected="original function", observed=o["residue_chain"],
                        where="pdf_extractor.py:_patched_build_char_map")
        if o["errors"]:
            v.violation(what=f"stress worker thread crashed: {o['errors'][:2]}", case={"stress": t["id"]})
        rs = o["residue"]
        if not all(rs[k_] for k_ in ("aesfn", "fns", "cfg", "tmp", "fds")) or rs["reg"] == "partial":
            v.violation(what=f"after the stress run process-global state is not back: {rs}", case={"stress": t["id"]},
                        where="pdf_extractor.py / module-level state")
    ev.replayed(len(s_traces))
    if s_traces:
        ev.sample({"stress": s_traces[0]["id"], "events": len(s_traces[0]["ev"]), "first": s_traces[0]["ev"][:8]})

    # ---- C2: controlled interleavings of two AES extractions + the round-key cache witness
    if f_aes is not None:
        ao = json.loads((sc / "aes.out.json").read_text())
        a_traces = [{"id": f"aes-{r_['name']}", "hdr": {"k": 2}, "ev": r_["events"]} for r_ in ao["runs"]]
        br = validate("PatchSectionTrace", tr_cfg, a_traces, scratch=sc, parallel=2, min_chunk=1, diagnose=2)
        ev.tlc_counts("PatchSectionTrace: patch-section events of the AES interleavings", br.distinct, br.states, br.wall_s)
        for r_, tv in zip(ao["runs"], br.verdicts):
            case = {"aes_schedule": r_["name"], "docs": ["aesimg1", "aesimg2"]}
            if not tv.accepted:
                v.violation(what=f"AES interleaving {r_['name']}: patch-section events are not a behaviour of "
                                 f"PatchSection with the lock (event {max(tv.reached, 0) + 1})", case=case,
                            observed=r_["events"][max(0, tv.reached - 4): tv.reached + 2], where="pdf_extractor.py")
            if r_["note"] or r_["errors"]:
                v.violation(what=f"AES interleaving {r_['name']}: {r_['note']} {r_['errors'][:2]}", case=case)
            bad = [(t_, s_) for t_, s_ in sorted(r_["sigs"].items()) if s_ != baseline[f"aesimg{t_}"]["sig"]]
            if bad:
                v.violation(what=f"two AES-encrypted PDFs extracted in two threads, schedule {r_['name']} over the "
                                 f"CryptAES init/decrypt steps ({r_['ops']} steps): thread {bad[0][0]} gets "
                                 f"{bad[0][1][:90]} instead of its isolated result: AES state shared between threads",
                            case=case, expected=baseline[f"aesimg{bad[0][0]}"]["sig"], observed=bad[0][1],
                            where="pdf/_pypdf_aes_fallback.py:patch_pypdf_fallback_aes (CryptAES)")
            elif tv.accepted and not (r_["note"] or r_["errors"]):
                v.ok(2)
                ev.nontrivial(("aes", r_["name"]))
        ev.replayed(len(a_traces))
        # round-key cache: witness schedule (A stopped between lookup and move_to_end, B evicts A's key)
        wt = [{"id": "roundkey-witness", "hdr": {"k": 2}, "ev": ao["witness"]["events"]}]
        rk_t = "SPECIFICATION TraceSpec\nCONSTRAINT TraceAccept\n"
        b0 = validate("GlobalsRoundKeys", rk_t + RK_CONST % "", wt, scratch=sc, parallel=1, min_chunk=1, diagnose=1)
        ev.tlc_counts("GlobalsRoundKeys trace validation (reference)", b0.distinct, b0.states, b0.wall_s)
        if b0.verdicts[0].accepted:
            v.ok(1)
        else:
            b1 = validate("GlobalsRoundKeys", rk_t + RK_CONST % '"UnguardedMoveToEnd"', wt, scratch=sc, parallel=1,
                          min_chunk=1, diagnose=1)
            ev.tlc_counts("GlobalsRoundKeys trace validation (as-built: UnguardedMoveToEnd)", b1.distinct, b1.states,
                          b1.wall_s)
            what = (f"_get_round_keys: thread 1 stopped between the cache lookup and move_to_end, thread 2 inserts 5 "
                    f"keys (capacity 4), thread 1 resumes: {ao['witness']['error']}")
            if b1.verdicts[0].accepted:
                v.known(KF_RK, what, case={"witness": "roundkey"})
            else:
                v.violation(what=what + " (not the as-built model's behaviour either)", case={"witness": "roundkey"},
                            observed=ao["witness"]["events"], where="pdf/_pypdf_aes_fallback.py:_get_round_keys")
        ev.replayed(1)
        ev.sample({"roundkey_witness": ao["witness"]["events"]})
        lap("AES interleavings and round-key witness")
    lap("stress traces validated")
    # ---------------------------------------------------------------- D. histories
    r = res["gl_enum"]
    ev.tlc(f"Globals: abstract histories of length <= {hist_len}", r)
    hd = sc / "hist.dump"
    if not hd.exists():
        hd = Path(str(hd) + ".dump")
    hists = sorted({tuple((d["k"], d["f"], tuple(sorted(d["g"]))) for d in s["hist"]) for s in iter_dump(hd)})
    hists = [h for h in hists if len(h) == hist_len]
    if not aes:
        hists = [h for h in hists if not any(d[0] in ("aesT", "aesU") for d in h)]
    plain_pool = [d for d in sorted(baseline) if docs[d]["cls"] == "plain"]
    fail_pool = [d for d in sorted(baseline) if docs[d]["cls"] == "fail"]
    deser_pool = [d for d in sorted(baseline) if docs[d]["cls"] == "deser"]
    hjobs = []
    for h in ([] if partial else hists):
        ids = []
        for (k, f, g) in h:
            if k == "font":
                ids.append(f"font:{f}:{'.'.join(map(str, g))}")
            elif k == "plain":
                ids.append(rng.choice(plain_pool))
            elif k == "fail":
                ids.append(rng.choice(fail_pool))
            elif k == "deser":
                ids.append(rng.choice(deser_pool))
            else:
                ids.append(k)
        hjobs.append({"id": "abs:" + "|".join(ids), "docs": ids})
    n_orders = 10 if ctx.thorough else 3
    everything = sorted(d for d in baseline if docs[d]["cls"] != "deser")
    if partial:
        hjobs = [{"id": "replay", "docs": rp_docs}] if rp_docs else []
        n_orders = 0
    for i in range(n_orders):
        ids = everything[:]
        rng.shuffle(ids)
        if i % 3 == 2:
            ids = [d for d in ids if docs[d]["cls"] not in ("aesT", "aesU")]     # patch-free order: full residue check
        mixed = []                                      # restore a stored extraction after every 7th document
        for n, d in enumerate(ids):
            mixed.append(d)
            if deser_pool and n % 7 == 3:
                mixed.append(deser_pool[(n // 7 + i) % len(deser_pool)])
        hjobs.append({"id": f"order-{i}", "docs": mixed})
    if not partial:
        # by format: every REFUSED / failing input of a format first, then every healthy document of that format
        # twice in a row (generated sloppy / variant documents before the fixtures); thorough: a second pass
        # with the refused ones again between.  State that outlives one parser / reader instance (class-level
        # attributes, mutable defaults, module tables) shows as a result different from the isolated one.
        def fmt(d):
            n = docs[d]["path"].lower()
            return ".tar.gz" if n.endswith(".tar.gz") else os.path.splitext(n)[1]
        groups = {}
        for d in everything:
            groups.setdefault(fmt(d), []).append(d)
        ids = []
        for e in sorted(groups):
            bad = [d for d in groups[e] if docs[d]["cls"] == "fail"]
            good = sorted((d for d in groups[e] if docs[d]["cls"] != "fail"), key=lambda d: (not d.startswith("gen:"), d))
            ids += bad + [x for d in good for x in (d, d)]
            if ctx.thorough:
                ids += bad + good
        hjobs.append({"id": "by-format", "docs": ids})
        # A;B;A within each extractor family (formats sharing helper modules): state leaked by B shows in the second A
        fam_ids = {}
        for d in everything:
            if docs[d]["cls"] != "fail":
                fam_ids.setdefault(_family(docs[d]["path"]), []).append(d)
        ids = []
        for fam in sorted(fam_ids):
            g = sorted(fam_ids[fam], key=lambda d: (not d.startswith("gen:"), d))
            for i in range(len(g) if ctx.thorough else min(len(g), 14)):
                ids += [g[i], g[(i + 1) % len(g)], g[i]]
        hjobs.append({"id": "a-b-a", "docs": ids})
    (sc / "docs.json").write_text(json.dumps(docs))
    with ThreadPoolExecutor(nproc + 4) as ex:
        fs = []
        for i, j in enumerate(hjobs):
            (sc / f"hist-{i}.in.json").write_text(json.dumps(j))
            fs.append(ex.submit(_spawn, ["hist", sc / "docs.json", sc / f"hist-{i}.in.json",
                                         sc / f"hist-{i}.out.json", sc / f"tmp-hist-{i}"]))
        for f in fs:
            f.result()
    lap("history workers")
    h_raw = [json.loads((sc / f"hist-{i}.out.json").read_text()) for i in range(len(hjobs))]
    # documents whose observed signature differs from the isolated one somewhere: is the isolated result
    # itself reproducible?  (two more fresh processes; e.g. xlsx "created" = now is not: C06 territory)
    suspects = sorted({x["did"] for o in h_raw for x in o["obs"] if x["sig"] != baseline[x["did"]]["sig"]}
                      | {d for o in conc_out.values() for _r, _t, d, s_ in o["sigs"] if s_ != baseline[d]["sig"]}
                      | {d for o in s_meta for _t, d, s_ in o["sigs"] if s_ != baseline[d]["sig"]})
    unstable = []
    if suspects:
        with ThreadPoolExecutor(nproc + 4) as ex:
            fs = [(d, ex.submit(_spawn, ["base", sc / "docs.json", d, sc / f"tmp-recheck-{i}-{rep}"]))
                  for i, d in enumerate(suspects) for rep in (1, 2)]
            for d, f in fs:
                o2 = json.loads(f.result().stdout.strip().splitlines()[-1])
                if o2["sig"] != baseline[d]["sig"] and d not in unstable:
                    unstable.append(d)
    if unstable:
        ctx.log(f"documents whose result in a fresh process is not reproducible (left out; C06 territory): {unstable}")
    if any(docs[d]["cls"] != "plain" for d in unstable):
        raise MachineryError(f"generated documents are not reproducible in isolation: {unstable}")
    lap(f"stability recheck of {len(suspects)} documents")
    # stress digests against the isolated baseline
    for t, o in zip(s_traces, s_meta):
        sigs = [(t_, d, s_) for t_, d, s_ in o["sigs"] if d not in unstable]
        diff = [(t_, d, s_) for t_, d, s_ in sigs if s_ != baseline[d]["sig"]]
        if diff:
            v.violation(what=f"{len(diff)} of {len(sigs)} concurrent extractions differ from the isolated "
                             f"single-thread result, e.g. thread {diff[0][0]} document {diff[0][1]}",
                        case={"stress": t["id"], "doc": diff[0][1]}, expected=baseline[diff[0][1]]["sig"],
                        observed=diff[0][2], where="pdf_extractor.py:_extract_text_with_spacing")
        else:
            v.ok(len(sigs))
    # every extractor family: threads on DIFFERENT documents of one family, free-running with a 1 us switch
    # interval and a barrier before each repetition; every result against the isolated baseline
    for fam, o in sorted(conc_out.items()):
        sigs = [x for x in o["sigs"] if x[2] not in unstable]
        diff = [x for x in sigs if x[3] != baseline[x[2]]["sig"]]
        if diff:
            r0, t0_, d0, s0 = diff[0]
            v.violation(what=f"family {fam}: {len(diff)} of {len(sigs)} extractions running concurrently with other "
                             f"documents of the family differ from the isolated result, e.g. round {r0} "
                             f"(documents {o['rounds'][r0]}) thread {t0_} document {d0}",
                        case={"family": fam, "round": o["rounds"][r0]}, expected=baseline[d0]["sig"], observed=s0,
                        where="module-level state shared by the threads of one extractor family")
        else:
            v.ok(len(sigs))
            ev.nontrivial(("conc", fam))
        for d0, s1, s2 in o["twin"][:MAX_REPORT]:
            v.violation(what=f"document {d0} extracted while another extraction of the same bytes is still in flight "
                             f"(its generator suspended) gives a different result than that one: object identity / "
                             f"in-flight state leaks into the result ({len(o['twin'])} documents of family {fam})",
                        case={"family": fam, "doc": d0}, expected=s1, observed=s2,
                        where="extractor of that format")
        if o["errors"]:
            v.violation(what=f"family {fam}: worker thread crashed: {o['errors'][:2]}", case={"family": fam})
        rs = o["residue"]                          # (AES provider functions: finding KF-C15-01, judged in the histories)
        if not all(rs[k_] for k_ in ("fns", "cfg", "tmp", "fds")) or rs["reg"] == "partial":
            v.violation(what=f"family {fam}: after the twin and concurrent extractions process-global state is not "
                             f"back (whole private temp root, config, open files, third-party functions, registry): {rs}",
                        case={"family": fam}, where="module-level state / temp files of that extractor family")
        ev.replayed(len(sigs))
    # events of the recorded histories (projection: class of the document, outcome, resolved glyph ids,
    # digest equal to the isolated one)
    h_traces = []
    for j, o in zip(hjobs, h_raw):
        evs, detail, kept = [], [], []
        for x in o["obs"]:
            did = x["did"]
            if did in unstable:
                continue
            d = docs[did]
            same = x["sig"] == baseline[did]["sig"]
            if d["cls"] == "font":
                out_ = "ok" if not x["exc"] else "fail"
            elif did in ("aesT", "aesU"):
                out_ = "ok" if not x["exc"] else ("fail" if x["exc"] == "ExtractionFailedError" else x["exc"])
            elif d["cls"] in ("aesT", "aesU"):         # fixture / image PDF using the patch: only "as isolated" is known
                out_ = "ok" if same else "differs"
            elif d["cls"] == "deser":                  # sig = OK:<restored type>:<digest>
                out_ = "same" if same else ("raw" if x["sig"].split(":")[1:2] != baseline[did]["sig"].split(":")[1:2]
                                            else "differs")
            else:
                out_ = "same" if same else "differs"
            evs.append({"a": "Extract", "d": d["cls"], "f": d["f"], "g": d["g"], "out": out_, "gl": x["gl"],
                        "cl": x["cl"], "same": same})
            detail.append(f"{did}: {x['sig'][:70]} (isolated: {baseline[did]['sig'][:70]})")
            kept.append(did)
        r_ = o["residue"]
        evs.append({"a": "Residue", "aesfn": r_["aesfn"], "fns": r_["fns"], "cfg": r_["cfg"], "tmp": r_["tmp"],
                    "fds": r_["fds"], "reg": r_["reg"]})
        detail.append(json.dumps(r_))
        h_traces.append({"id": j["id"], "hdr": {"docs": kept}, "ev": evs, "detail": detail})
    slim = [{k: t[k] for k in ("id", "hdr", "ev")} for t in h_traces]
    g_cfg = "SPECIFICATION TraceSpec\nCONSTRAINT TraceAccept\n" + _gl_cfg([], 1).split("\n", 1)[1]
    br = validate("Globals", g_cfg, slim, scratch=sc, parallel=8, min_chunk=10, diagnose=0)
    ev.tlc_counts("Globals trace validation (reference model, Deviations={})", br.distinct, br.states, br.wall_s)
    rejected = [(t, tv) for t, tv in zip(h_traces, br.verdicts) if not tv.accepted]
    for t, tv in zip(h_traces, br.verdicts):
        if tv.accepted:
            v.ok(len(t["ev"]))
    # as-built model for the rejected ones that lie in the open finding's domain
    in_dom = [(t, tv) for t, tv in rejected
              if any(e["a"] == "Extract" and e["d"] in ("aesT", "aesU") for e in t["ev"])]
    asb = {}
    if in_dom:
        a_cfg = "SPECIFICATION TraceSpec\nCONSTRAINT TraceAccept\n" + _gl_cfg(["PermanentAesPatch"], 1).split("\n", 1)[1]
        br2 = validate("Globals", a_cfg, [{k: t[k] for k in ("id", "hdr", "ev")} for t, _ in in_dom], scratch=sc,
                       parallel=8, min_chunk=10, diagnose=0)
        ev.tlc_counts("Globals trace validation (as-built: PermanentAesPatch)", br2.distinct, br2.states, br2.wall_s)
        asb = {t["id"]: tv2 for (t, _), tv2 in zip(in_dom, br2.verdicts)}
    # locate the first rejected event only for the few histories that will be reported as violations
    viol = [t for t, _ in rejected if not (asb.get(t["id"]) is not None and asb[t["id"]].accepted)][:MAX_REPORT]
    located = {}
    for grp, cfg_ in (([t for t in viol if t["id"] not in asb], g_cfg), ([t for t in viol if t["id"] in asb], None)):
        if grp:
            cfg_ = cfg_ or a_cfg
            br3 = validate("Globals", cfg_, [{k: t[k] for k in ("id", "hdr", "ev")} for t in grp], scratch=sc,
                           parallel=1, min_chunk=100, diagnose=MAX_REPORT)
            located.update({t["id"]: tv3.reached for t, tv3 in zip(grp, br3.verdicts)})
    shown = 0
    for t, tv in rejected:
        a2 = asb.get(t["id"])
        if a2 is not None and a2.accepted:
            r_ = -1
            v.known(KF_AES, f"history {t['hdr']['docs'][:4]}{'...' if len(t['hdr']['docs']) > 4 else ''} deviates "
                            f"from the reference model and TLC accepts it under PermanentAesPatch"
                            + (f" (first deviating event {r_ + 1}: {t['ev'][r_]})" if 0 <= r_ < len(t["ev"]) else ""),
                    case={"docs": t["hdr"]["docs"][:12]})
            continue
        r_ = located.get(t["id"], -1)       # (in the domain of the finding: first event the as-built model rejects)
        shown += 1
        if shown > MAX_REPORT:
            continue
        if not 0 <= r_ < len(t["ev"]):                           # not located (beyond the diagnose budget)
            bad = [i for i, e in enumerate(t["ev"])
                   if e["a"] == "Residue" and not (all(e[k] for k in ("fns", "cfg", "tmp", "fds")) and e["reg"] != "partial")
                   or e["a"] == "Extract" and not e["same"] and e["d"] in ("plain", "fail", "font", "deser")]
            r_ = bad[0] if bad else len(t["ev"]) - 1
        e = t["ev"][r_]
        v.violation(what=f"history {t['id'] if len(t['id']) < 120 else t['id'][:120] + '...'}: event {r_ + 1} "
                         f"{e} ({t['detail'][r_]}) is not what the history-independent model allows: the result "
                         f"depends on what the process extracted before, or residue is left "
                         f"({len(rejected)} histories rejected)",
                    case={"docs": t["hdr"]["docs"][: r_ + 1]}, expected="observation of the same document in a fresh "
                    "process; unchanged config / temp root / open files / third-party functions",
                    observed=e, where="pdf_extractor.py:_ttf_get_glyph_features/_FONT_CACHE; module-level state")
    lap("histories validated")
    ev.replayed(len(h_traces))
    for t in h_traces:
        if any(e["a"] == "Extract" and e["d"] != "plain" for e in t["ev"]):
            ev.nontrivial(t["id"])
    for t in h_traces[:2]:
        ev.sample({"history": t["hdr"]["docs"][:3], "events": t["ev"][:3]})

    ev.set(rule="schedules: every interleaving of the 4 observable steps per call enumerated by TLC (k=2: all, "
                "k=2x2 calls and k=3: all in thorough / seeded subset in quick), non-trivial = a thread was "
                "Blocked at least once; histories: all sequences over the abstract document classes "
                "(non-trivial = contains a font/AES document) + seeded orders of all fixtures",
           exhaustive=bool(ctx.thorough),
           constants={"schedules": {f"k{k}c{c}": n for (k, c), n in counts.items()}, "replayed": len(traces),
                      "stress_runs": n_stress, "history_len": hist_len, "histories": len(hjobs),
                      "documents": len(baseline), "unstable_documents": unstable})
    lap("done")
    ev.assume("pypdf < 6.6 path (one patched attribute pypdf._page.build_char_map); other pypdf versions: exit 2",
              "observation of the shared variable through the module object's class (getattr/setattr); direct "
              "writes to module.__dict__ would be invisible",
              "blocking is observed through proxies of threading.Lock/RLock globals of the pdf extractor package; "
              "other blocking mechanisms fall back to a timeout (30 s, then 3 s)",
              "result equality = sha256 of to_json() of all results (or exception class + message) against one "
              "fresh process per document (memory addresses in repr() masked); a document that ever differs is "
              "re-measured twice in isolation and left out if its isolated result is not reproducible",
              "third-party function identity = functions/classes/methods of every site-packages module loaded "
              "at process start")


def _vals(x):
    return list(x.values()) if isinstance(x, dict) else list(x)


# =========================================================================== workers
def _quiet():
    import logging
    logging.disable(logging.CRITICAL)
    import warnings
    warnings.simplefilter("ignore")


def _worker_replay(inp, out):
    _quiet()
    from ..c15_sched import Harness
    jobs = json.loads(Path(inp).read_text())
    traces = []
    with Harness(scheduled=True) as h:
        for n, (k, c, s, raises) in enumerate(jobs):
            evs, note = h.run_schedule(k, c, s, raises)
            traces.append({"id": f"{k}x{c}:{''.join(map(str, s))}:{n}",
                           "hdr": {"k": k, "calls": c, "sched": s, "raises": raises, "note": note or "-"}, "ev": evs})
    Path(out).write_text(json.dumps(traces))


def _signature(path):
    """(signature, first result | None, exception | None) of one extraction through the public entry point"""
    import sharepoint2text
    try:
        rs = list(sharepoint2text.read_file(path))
    except Exception as e:  # noqa: failing inputs are part of the workload
        return f"EXC:{type(e).__name__}:{str(e)[:160]}", None, e
    blob = json.dumps([r.to_json() for r in rs], sort_keys=True, default=repr)
    return "OK:" + hashlib.sha256(blob.encode()).hexdigest(), (rs[0] if rs else None), None


# what _pypdf_aes_fallback.patch_pypdf_fallback_aes replaces (finding KF-C15-01 covers exactly these)
_AES_FN = re.compile(r"^pypdf\.(_crypt_providers(\._fallback)?|_encryption)\.(aes_(ecb|cbc)_(en|de)crypt|CryptAES(\.\w+)?)$")


def _observe(d):
    """_signature of a document, or of the restoration of a stored extraction (class "deser")"""
    if d["cls"] != "deser":
        return _signature(d["path"])
    from sharepoint2text.parsing.extractors.data_types import ExtractionInterface
    import dataclasses
    try:
        obj = ExtractionInterface.from_json(json.loads(Path(d["path"]).read_text()))
    except Exception as e:  # noqa
        return f"EXC:{type(e).__name__}:{str(e)[:160]}", None, e
    if not dataclasses.is_dataclass(obj) or not hasattr(obj, "to_json"):
        return f"RAW:{type(obj).__name__}:", None, None
    blob = json.dumps(obj.to_json(), sort_keys=True, default=repr)
    return f"OK:{type(obj).__name__}:" + hashlib.sha256(blob.encode()).hexdigest(), obj, None


def _registry_state():
    """'empty' | 'full' | 'partial' of serialization._TYPE_REGISTRY, read without triggering the lazy fill"""
    import dataclasses
    from sharepoint2text.parsing.extractors import data_types, serialization
    if not hasattr(serialization, "_TYPE_REGISTRY"):
        raise MachineryError("binding vanished: serialization._TYPE_REGISTRY")
    full = {n for n in dir(data_types)
            if isinstance(getattr(data_types, n), type) and dataclasses.is_dataclass(getattr(data_types, n))}
    have = set(serialization._TYPE_REGISTRY)
    return "empty" if not have else ("full" if full <= have else "partial")


class _Residue:
    """process-global state the library may touch, read before and after"""

    def __init__(self, tmp, extra=None):
        import gc
        import types
        gc.collect()
        self.tmp = tmp
        self.types = (types.FunctionType, types.BuiltinFunctionType, type)
        self.fns = self._functions()
        self.extra = extra                          # a directory that must never come into existence
        self.tmp0 = self._tree()
        self.fds0 = self._fds()
        from sharepoint2text.parsing.extractors import archive_extractor as ax
        self.ax = ax
        if not hasattr(ax, "_config"):
            raise MachineryError("binding vanished: archive_extractor._config")
        self.cfg0 = ax._config

    def _functions(self):
        import types
        out = {}
        for mname, m in list(sys.modules.items()):
            f = getattr(m, "__file__", None) or ""
            if m is None or "site-packages" not in f or mname.startswith(("sharepoint2text", "mbv")):
                continue
            for k, val in list(vars(m).items()):
                if isinstance(val, self.types):
                    out[(mname, k)] = val
                    if isinstance(val, type) and getattr(val, "__module__", None) == mname:
                        for a, fv in list(vars(val).items()):
                            if isinstance(fv, types.FunctionType):
                                out[(mname, k, a)] = fv
        return out

    def _tree(self):
        """every entry below the private temp root (the temp directory proper lies three levels down, so
        siblings / parents of an extraction directory are inside the watched tree) + the forbidden directory"""
        out = []
        for root in [self.tmp] + ([self.extra] if self.extra else []):
            if self.extra and root == self.extra and os.path.lexists(root):
                out.append("ABS:" + root)
            for base, dirs, files in os.walk(root):
                for n in dirs + files:
                    out.append(("ABS:" if root == self.extra else "") + os.path.relpath(os.path.join(base, n), root))
        return sorted(set(out) - {"a", "a/b", "a/b/t"})

    @staticmethod
    def _fds():
        out = {}
        for fd in os.listdir("/proc/self/fd"):
            try:
                out[fd] = os.readlink(f"/proc/self/fd/{fd}")
            except OSError:
                pass
        return out

    def read(self):
        import gc
        gc.collect()
        now = self._functions()
        changed = sorted(".".join(k) for k, val in self.fns.items() if k in now and now[k] is not val)
        aes_changed = [c for c in changed if _AES_FN.match(c)]
        changed = [c for c in changed if not _AES_FN.match(c)]
        tmp_new = sorted(set(self._tree()) - set(self.tmp0))
        fds = self._fds()
        fds_new = sorted(t for fd, t in fds.items() if fd not in self.fds0 and t.startswith("/")
                         and not t.startswith(("/dev/", "/proc/")))
        return {"reg": _registry_state(), "aesfn": not aes_changed, "fns": not changed, "fns_changed": changed[:6], "cfg": self.ax._config == self.cfg0,
                "tmp": not tmp_new, "tmp_new": tmp_new[:4], "fds": not fds_new, "fds_new": fds_new[:4]}


def _abs_dir(docs_json):
    """target directory of the absolute member names of the generated 7z archives (never to be created)"""
    return str(Path(docs_json).parent / "abs-escape")


def _prep_tmp(tmp):
    import tempfile
    inner = Path(tmp) / "a" / "b" / "t"             # tmp = watched private root; the temp directory lies 3 levels down
    inner.mkdir(parents=True, exist_ok=True)
    os.environ["TMPDIR"] = str(inner)
    tempfile.tempdir = None
    if os.path.realpath(tempfile.gettempdir()) != os.path.realpath(str(inner)):
        raise MachineryError("cannot point the temp root at the scratch directory")


def _worker_base(docs_json, doc_id, tmp):
    _quiet()
    _prep_tmp(tmp)
    from .. import repo
    repo.activate()
    import sharepoint2text  # noqa
    import pypdf._crypt_providers._fallback  # noqa: the functions the AES patch replaces exist before the snapshot
    d = json.loads(Path(docs_json).read_text())[doc_id]
    res = _Residue(tmp, _abs_dir(docs_json) if "-abs." in d["path"] else None)
    sig, _first, _exc = _observe(d)
    r = res.read()
    print(json.dumps({"sig": sig, "patches": not r["aesfn"], **r}))


def _worker_hist(docs_json, inp, out, tmp):
    _quiet()
    _prep_tmp(tmp)
    from .. import repo
    repo.activate()
    import sharepoint2text  # noqa
    import pypdf._crypt_providers._fallback  # noqa
    from ..c15_docs import glyph_projection
    docs = json.loads(Path(docs_json).read_text())
    job = json.loads(Path(inp).read_text())
    # the forbidden absolute directory is shared by all processes of a run: only a process that handles an
    # archive naming it watches it, so that the leak is attributed to the right history
    res = _Residue(tmp, _abs_dir(docs_json) if any("-abs." in docs[i]["path"] for i in job["docs"]) else None)
    obs = []
    tmp_first = None
    for did in job["docs"]:
        d = docs[did]
        sig, first, exc = _observe(d)
        gl, cl = [], []
        if d["cls"] == "font" and first is not None:
            gl, cl = glyph_projection(first.get_full_text(), d["g"])
        obs.append({"did": did, "sig": sig, "exc": type(exc).__name__ if exc is not None else "", "gl": gl,
                    "cl": cl})
        if tmp_first is None and set(res._tree()) - set(res.tmp0):     # the whole private temp root, every step
            tmp_first = did
    r = res.read()
    r["tmp_first_leak_after"] = tmp_first or ""
    Path(out).write_text(json.dumps({"obs": obs, "residue": r}))


def _worker_stress(inp, out):
    _quiet()
    import threading
    job = json.loads(Path(inp).read_text())
    _prep_tmp(job["tmp"])
    from ..c15_sched import Harness
    import sharepoint2text  # noqa
    import pypdf._crypt_providers._fallback  # noqa
    residue = _Residue(job["tmp"])
    rng = random.Random(job["seed"])
    ids = sorted(job["docs"])
    plans = []
    for t in range(job["threads"]):
        plans.append([rng.choice(ids) for _ in range(job["per_thread"])])
    sigs, errors = [], []
    with Harness(scheduled=False) as h:
        rec = h.rec
        start = threading.Barrier(job["threads"])

        def work(t):
            rec.tids[threading.get_ident()] = t
            try:
                start.wait()
                for did in plans[t - 1]:
                    s, _f, _e = _signature(job["docs"][did]["path"])
                    sigs.append((t, did, s))
            except BaseException as e:  # noqa
                errors.append(f"{t}: {e!r}")
            finally:
                rec.tids.pop(threading.get_ident(), None)
        old = sys.getswitchinterval()
        sys.setswitchinterval(1e-6)
        try:
            ths = [threading.Thread(target=work, args=(t,), daemon=True) for t in range(1, job["threads"] + 1)]
            for th in ths:
                th.start()
            for th in ths:
                th.join(timeout=600)
        finally:
            sys.setswitchinterval(old)
        if any(th.is_alive() for th in ths):
            errors.append("threads still alive after 600 s")
        cur = h.b.mod.__dict__[h.b.attr]
        chain = rec.current()
        events = rec.events + [{"a": "Quiescent", "fn": chain}]
        res = {"events": events, "residue_chain": chain, "identity": cur is h.b.original,
               "name": getattr(cur, "__name__", "?"), "sigs": sigs, "errors": errors}
    res["residue"] = residue.read()                # after the interception has been removed
    Path(out).write_text(json.dumps(res))


FAMILIES = {"ooxml": (".docx", ".docm", ".pptx", ".pptm"), "sheets": (".xlsx", ".xlsm", ".xls"),
            "odf": (".odt", ".ods", ".odp", ".odg", ".odf"), "web": (".html", ".htm", ".mhtml", ".mht", ".epub"),
            "legacy": (".doc", ".ppt", ".rtf"), "text": (".txt", ".md", ".csv", ".tsv", ".json"),
            "mail": (".eml", ".msg", ".mbox"), "pdf": (".pdf",), "archive": (".zip", ".7z", ".tar", ".gz", ".tgz", ".bz2")}


def _family(path):
    """extractor family = formats that share helper modules (omml converter, ODF shared text builder, ...)"""
    n = path.lower()
    for fam, exts in FAMILIES.items():
        if n.endswith(exts):
            return fam
    return "other"


def _worker_conc(inp, out):
    _quiet()
    import threading
    job = json.loads(Path(inp).read_text())
    _prep_tmp(job["tmp"])
    from .. import repo
    repo.activate()
    import sharepoint2text
    import pypdf._crypt_providers._fallback  # noqa
    residue = _Residue(job["tmp"])
    ids = sorted(job["docs"], key=lambda d: (not d.startswith("gen:"), d))
    # 1. in-flight twin: first extraction suspended after its first result, second one complete
    twin = []
    for d in ids:
        g = None
        try:
            g = sharepoint2text.read_file(job["docs"][d])
            r1 = next(iter(g))
            r2 = next(iter(sharepoint2text.read_file(job["docs"][d])))
            s1, s2 = (hashlib.sha256(json.dumps(r.to_json(), sort_keys=True, default=repr).encode()).hexdigest()
                      for r in (r1, r2))
            if s1 != s2:
                twin.append((d, s1, s2))
        except Exception:  # noqa: failing inputs are compared through their signature below
            pass
        finally:
            if g is not None and hasattr(g, "close"):
                g.close()
    # 2. rounds of `threads` different documents each
    n = job["threads"]
    rounds = [ids[i:i + n] for i in range(0, len(ids), n)]
    if len(rounds) > 1 and len(rounds[-1]) < 2:
        rounds[-2] += rounds.pop()
    if rounds and len(rounds[0]) == 1:
        rounds[0] = rounds[0] * 2                      # a family with a single document: the same one twice
    sigs, errors = [], []
    old = sys.getswitchinterval()
    sys.setswitchinterval(1e-6)
    try:
        for rno, members in enumerate(rounds):
            bar = threading.Barrier(len(members))

            def work(t, did):
                try:
                    for _ in range(job["reps"]):
                        bar.wait(timeout=300)
                        sigs.append((rno, t, did, _signature(job["docs"][did])[0]))
                except BaseException as e:  # noqa
                    errors.append(f"round {rno} thread {t} {did}: {e!r}")
                    bar.abort()
            ths = [threading.Thread(target=work, args=(t, d), daemon=True) for t, d in enumerate(members, 1)]
            for th in ths:
                th.start()
            for th in ths:
                th.join(timeout=600)
            if any(th.is_alive() for th in ths):
                errors.append(f"round {rno}: threads still alive after 600 s")
                break
    finally:
        sys.setswitchinterval(old)
    Path(out).write_text(json.dumps({"sigs": sigs, "twin": twin, "errors": errors, "rounds": rounds,
                                     "residue": residue.read()}))


def _worker_aes(inp, out):
    _quiet()
    job = json.loads(Path(inp).read_text())
    from ..c15_sched import AesHarness, CodeHooks, JobScheduler
    rng = random.Random(job["seed"] * 31 + 4)
    runs = []
    with AesHarness() as h:
        import sharepoint2text  # noqa
        jobs = [lambda p=p: _signature(p)[0] for p in job["docs"]]
        choosers = [("alternate-1", lambda n, live, last: live[n % len(live)]),
                    ("alternate-2", lambda n, live, last: live[(n + 1) % len(live)]),
                    ("pairs", lambda n, live, last: live[(n // 2) % len(live)])]
        for i in range(job["random"]):
            choosers.append((f"random-{i}", lambda n, live, last: rng.choice(live)))
        for name, ch in choosers:
            res, errs, evs, ops, note = h.run(jobs, ch)
            runs.append({"name": name, "sigs": {str(t): s_ for t, s_ in res.items()}, "errors": [list(e) for e in errs],
                         "events": evs, "ops": len(ops), "note": note})
        # witness for the round-key cache: real threads through the real _get_round_keys
        fb = h.fb
        fb._ROUND_KEY_CACHE.clear()
        keys = {i: bytes([i]) * 16 for i in range(1, 7)}
        events = []

        def a_job():
            fb._get_round_keys(keys[1])
            events.append({"a": "Call", "t": 1, "k": 1})
            fb._get_round_keys(keys[1])                   # hit: stopped before move_to_end
            return True

        def b_job():
            for i in range(2, 7):
                fb._get_round_keys(keys[i])
                events.append({"a": "Call", "t": 2, "k": i})
            return True
        s = JobScheduler(h.rec, [a_job, b_job], visible_extra=("Start", "RkMove"))
        hooks = CodeHooks()
        hooks.on_line(fb._get_round_keys.__code__, CodeHooks.line_of(fb._get_round_keys, "move_to_end("),
                      s.hook_park("RkMove"))
        with hooks:
            s.start()
            s.step(1)
            if s.pending.get(1) != ("RkMove",):
                raise MachineryError("witness: thread 1 did not stop before move_to_end")
            events.append({"a": "Hit", "t": 1, "k": 1})
            s.step(2)
            s.step(1)
            s.drain()
            s.finish()
        err = [e for t_, e in s.errors if t_ == 1]
        if [e for t_, e in s.errors if t_ != 1] or (err and "KeyError" not in err[0]):
            raise MachineryError(f"witness run failed unexpectedly: {s.errors}")
        events.append({"a": "Return", "t": 1, "err": bool(err)})
        fb._ROUND_KEY_CACHE.clear()
    Path(out).write_text(json.dumps({"runs": runs, "witness": {"events": events, "error": err[0] if err else "no error"}}))


if __name__ == "__main__":
    cmd = sys.argv[1]
    if cmd == "replay":
        _worker_replay(*sys.argv[2:4])
    elif cmd == "base":
        _worker_base(*sys.argv[2:5])
    elif cmd == "hist":
        _worker_hist(*sys.argv[2:6])
    elif cmd == "conc":
        _worker_conc(*sys.argv[2:4])
    elif cmd == "aes":
        _worker_aes(*sys.argv[2:4])
    elif cmd == "stress":
        _worker_stress(*sys.argv[2:4])
